-------------------------------- MODULE DF --------------------------------
(* DF - the mixed-history model of the discretisedfield object system (DESIGN 3).       *)
(*                                                                                     *)
(* ONE heap of regions, meshes (with named subregions, references to regions) and       *)
(* fields (reference to a mesh, values, validity with its own identity `vo`, labels,    *)
(* component-to-axis mapping); the user's variables `roots`; the history of public      *)
(* calls `hist` (its last entry is the `last` observation: the call and its outcome).   *)
(* A step is ONE public API call.  The calls come from seven families (geometry,        *)
(* selection, algebra, validity, value updates, persistence, derivative) and every      *)
(* history may mix them; the clauses DF_* relate the state before and after a call and  *)
(* are each traceable to one property text of properties.jsonl (named in the comment).  *)
(*                                                                                     *)
(* Objects (Geom.tla conventions, extended):                                            *)
(*   region [k, lo, hi : Seq(Rat), units, dims : Seq(STRING)]                           *)
(*   mesh   [k, region : Oid, n : Seq(Nat), sub : Seq(Oid), names : Seq(STRING)]        *)
(*   field  [k, mesh : Oid, nv, arr, valid, shape, lab, map, vx, mx, vo]                *)
(*          arr/valid flat arrays in the library's iteration order (Cells.tla);         *)
(*          lab = component labels (<<>> = None); map = dimension NAME per label        *)
(*          (<<>> = {}; the library keeps names, also of axes a selection removed);     *)
(*          vx = FALSE: values not constrained by this model (derivatives);             *)
(*          mx = FALSE: mapping not constrained (persistence formats do not list it);   *)
(*          ao = identity of the value array object (numpy.shares_memory), like vo for the mask; `ao = own oid` for every field:     *)
(*          a result's values are its own - writing into them (WriteArray) reaches no other field                                    *)
(*          vo = identity of the validity array object: the oid of the lowest field     *)
(*          whose mask shares memory with this one - `vo = own oid` for every field is  *)
(*          "a result's validity is its own" (C08)                                      *)
(* Everything that decides a post-state is an operator of (h, rts, c) so that the       *)
(* exhaustive model (Next), the simulation and the trace specification (DFTrace.tla)    *)
(* use the SAME definitions: Apply, InModel, and the clauses P_*.                        *)
EXTENDS Geom, TLC

CONSTANTS Scenarios,   \* names of initial heaps
          Acts,        \* names of the enabled actions
          MaxDepth,    \* history length bound
          MaxFields,   \* number of field variables (f, g, h)
          AllowAlias,  \* "all" | "guard": are the known aliasing patterns P1/P2/P3 excluded?
          TransVs, ScaleFs, RotKs, RotRefs,   \* geometry arguments (3-sequences of rationals, cut to ndim)
          RotPairs,    \* ordered axis pairs offered to rotate90
          Rich,        \* TRUE: every cell index / range / block / target is offered; FALSE: one representative per axis
          LastFresh,   \* TRUE: the last call of a bounded history binds its result to a fresh variable only
          PadSpecs,    \* set of <<cells below, cells above, mode>>
          Masks,       \* bit patterns offered to the validity setter
          Nums         \* integers for field * number and constant updates

VARIABLES heap, roots, hist, viol
vars == <<heap, roots, hist, viol>>
Last == hist[Len(hist)]

(* the index maps of FieldAlg.tla (selection, padding, resampling) are reused, not copied *)
FA == INSTANCE FieldAlg WITH Pool <- <<>>, InitSet <- {}, Ops <- {}, DeepOps <- {}, MaskPats <- {}, PadModes <- {},
                             RotKs <- {}, init <- <<>>, regs <- <<>>, prog <- <<>>, obs <- <<>>

(* ---- objects --------------------------------------------------------------------------- *)
DReg(lo, hi, units, dims) == [k |-> "region", lo |-> lo, hi |-> hi, units |-> units, dims |-> dims]
DMsh(region, n, sub, names) == [k |-> "mesh", region |-> region, n |-> n, sub |-> sub, names |-> names]
DFld(mesh, nv, arr, valid, shape, lab, map, vx, mx, vo) ==
   [k |-> "field", mesh |-> mesh, nv |-> nv, arr |-> arr, valid |-> valid, shape |-> shape, lab |-> lab, map |-> map,
    vx |-> vx, mx |-> mx, vo |-> vo, ao |-> vo]      \* ao: identity of the VALUE array (like vo for the mask); a new field owns both
IsF(h, o) == h[o].k = "field"
IsM(h, o) == h[o].k = "mesh"
IsR(h, o) == h[o].k = "region"
FieldsOf(h) == {o \in DOMAIN h : h[o].k = "field"}
MeshesOf(h) == {o \in DOMAIN h : h[o].k = "mesh"}
Cut(s, k) == IF s = <<>> THEN <<>> ELSE [d \in 1 .. k |-> s[d]]
Uniq(s) == \A i, j \in DOMAIN s : i # j => s[i] # s[j]
ZeroVec(nv) == [c \in 1 .. nv |-> 0]
AllTrue(v) == \A k \in DOMAIN v : v[k]
RECURSIVE SumComp(_, _, _)
SumComp(arr, cc, k) == IF k = 0 THEN 0 ELSE arr[k][cc] + SumComp(arr, cc, k - 1)
RECURSIVE JoinStr(_, _)
JoinStr(ss, k) == IF k = 0 THEN "" ELSE IF k = 1 THEN ss[1] ELSE JoinStr(ss, k - 1) \o "," \o ss[k]
JoinInts(v) == JoinStr([i \in DOMAIN v |-> ToString(v[i])], Len(v))
(* the text of p / q in lowest terms, q > 0 *)
RatText(p, q) == LET g == GCD(Abs(p), q)  m == Abs(p) \div g IN (IF p < 0 THEN "-" ELSE "") \o ToString(m) \o "/" \o ToString(q \div g)
(* C06: the mean is the sum over ALL cells (valid or not) divided by their number, component by component *)
MeanText(fo) == "m:" \o JoinStr([cc \in 1 .. fo.nv |-> RatText(SumComp(fo.arr, cc, Len(fo.arr)), Len(fo.arr))], fo.nv)
MaxAbs(arr) == MaxSet({0} \cup {Abs(arr[k][c]) : k \in DOMAIN arr, c \in 1 .. Len(arr[1])})
DefLab(nv) == IF nv = 1 THEN <<>> ELSE IF nv <= 3 THEN SubSeq(<<"x", "y", "z">>, 1, nv) ELSE [c \in 1 .. nv |-> "v" \o ToString(c - 1)]
(* the Field constructor's default mapping (documented API): components onto the axes when the counts agree *)
DefMap(nv, lab, dims) == IF nv > 1 /\ nv = Len(dims) /\ lab # <<>> THEN dims ELSE <<>>

(* ---- initial heaps --------------------------------------------------------------------- *)
V2(j) == <<10 * j + 1, 10 * j + 2>>
V3(j) == <<10 * j + 1, 10 * j + 2, 10 * j + 3>>
(* A2: 2x3 cells of 4x3 units, two fields SHARING the mesh, two subregions, permuted mapping *)
RA == DReg(<<R(0), R(-3)>>, <<R(8), R(6)>>, <<"m", "s">>, <<"a", "b">>)
SA1 == DReg(<<R(0), R(-3)>>, <<R(4), R(3)>>, <<"m", "s">>, <<"a", "b">>)
SA2 == DReg(<<R(4), R(0)>>, <<R(8), R(6)>>, <<"m", "s">>, <<"a", "b">>)
(* S2: 2x2 square cells, two vector fields sharing the mesh, default mapping, no subregions *)
RS == DReg(<<R(0), R(0)>>, <<R(8), R(8)>>, <<"m", "s">>, <<"a", "b">>)
(* B3: 2x2x1 cells, dims x,y,z in metres (what OVF / VTK can express), fields on two EQUAL meshes *)
RB == DReg(<<R(0), R(0), R(0)>>, <<R(4), R(6), R(1)>>, <<"m", "m", "m">>, <<"x", "y", "z">>)
SB1 == DReg(<<R(0), R(0), R(0)>>, <<R(2), R(6), R(1)>>, <<"m", "m", "m">>, <<"x", "y", "z">>)
(* D3: 3x2x2 cells, one vector field with subregion, one scalar field sharing the mesh *)
RD == DReg(<<R(-3), R(0), R(2)>>, <<R(3), R(8), R(6)>>, <<"m", "m", "m">>, <<"x", "y", "z">>)
SD1 == DReg(<<R(-1), R(0), R(2)>>, <<R(3), R(4), R(6)>>, <<"m", "m", "m">>, <<"x", "y", "z">>)
ScenarioHeap(sc) ==
   CASE sc = "A2" -> [h |-> (1 :> RA @@ 2 :> SA1 @@ 3 :> SA2 @@ 4 :> DMsh(1, <<2, 3>>, <<2, 3>>, <<"s1", "s2">>)
                            @@ 5 :> DFld(4, 2, [j \in 1 .. 6 |-> V2(j)], [j \in 1 .. 6 |-> j % 3 # 0], <<2, 3>>, <<"p", "q">>, <<"b", "a">>, TRUE, TRUE, 5)
                            @@ 6 :> DFld(4, 1, [j \in 1 .. 6 |-> <<100 + j>>], [j \in 1 .. 6 |-> j # 2], <<2, 3>>, <<>>, <<>>, TRUE, TRUE, 6)),
                      r |-> [f |-> 5, g |-> 6]]
     [] sc = "S2" -> [h |-> (1 :> RS @@ 2 :> DMsh(1, <<2, 2>>, <<>>, <<>>)
                            @@ 3 :> DFld(2, 2, [j \in 1 .. 4 |-> V2(j)], [j \in 1 .. 4 |-> j # 4], <<2, 2>>, <<"p", "q">>, <<"a", "b">>, TRUE, TRUE, 3)
                            @@ 4 :> DFld(2, 2, [j \in 1 .. 4 |-> <<0 - j, 7 * j>>], [j \in 1 .. 4 |-> j # 1], <<2, 2>>, <<"p", "q">>, <<"a", "b">>, TRUE, TRUE, 4)),
                      r |-> [f |-> 3, g |-> 4]]
     [] sc = "B3" -> [h |-> (1 :> RB @@ 2 :> SB1 @@ 3 :> DMsh(1, <<2, 2, 1>>, <<2>>, <<"s1">>)
                            @@ 4 :> DFld(3, 3, [j \in 1 .. 4 |-> V3(j)], [j \in 1 .. 4 |-> j # 3], <<2, 2, 1>>, <<"p", "q", "w">>, <<"y", "z", "x">>, TRUE, TRUE, 4)
                            @@ 5 :> RB @@ 6 :> DMsh(5, <<2, 2, 1>>, <<>>, <<>>)
                            @@ 7 :> DFld(6, 1, [j \in 1 .. 4 |-> <<100 + j>>], [j \in 1 .. 4 |-> TRUE], <<2, 2, 1>>, <<>>, <<>>, TRUE, TRUE, 7)),
                      r |-> [f |-> 4, g |-> 7]]
     [] sc = "D3" -> [h |-> (1 :> RD @@ 2 :> SD1 @@ 3 :> DMsh(1, <<3, 2, 2>>, <<2>>, <<"s1">>)
                            @@ 4 :> DFld(3, 3, [j \in 1 .. 12 |-> V3(j)], [j \in 1 .. 12 |-> j % 5 # 0], <<3, 2, 2>>, <<"p", "q", "w">>, <<"x", "y", "z">>, TRUE, TRUE, 4)
                            @@ 5 :> DFld(3, 1, [j \in 1 .. 12 |-> <<200 + j>>], [j \in 1 .. 12 |-> j # 7], <<3, 2, 2>>, <<>>, <<>>, TRUE, TRUE, 5)),
                      r |-> [f |-> 4, g |-> 5]]

(* ---- calls ----------------------------------------------------------------------------- *)
(* op: action name; x, y: operand variables; dst: variable that receives the result; tg: the object the  *)
(* call is made on ("self" = roots[x], "mesh" = its mesh, "region" = the region of its mesh); ip: in place *)
NoA == [z |-> 0]
MkCall(op, x, y, dst, tg, ip, a) == [op |-> op, x |-> x, y |-> y, dst |-> dst, tg |-> tg, ip |-> ip, a |-> a]
Done(c, oc) == [op |-> c.op, x |-> c.x, y |-> c.y, dst |-> c.dst, tg |-> c.tg, ip |-> c.ip, a |-> c.a, outcome |-> oc]
GeoOps     == {"translate", "scale", "rotate90"}
UnaryOps   == {"neg", "pos", "abs"}
BinaryOps  == {"add", "mul", "sub"}
ProductOps == {"dot", "cross", "angle"}         \* f.dot(g), f.cross(g), f.angle(g): equal component counts (cross: three)
LengthOps  == {"norm", "orientation"}           \* values are not integers: vx = FALSE, everything else is constrained
NumOps     == {"mulnum", "addnum", "pow2"}      \* f * c, f + c (c added to every component), f ** 2
AlgebraOps == UnaryOps \cup BinaryOps \cup ProductOps \cup LengthOps \cup NumOps \cup {"comp", "lshift"}
SelOps     == {"selplane", "selrange", "getsub", "getregion", "pad", "resample"}
PersistOps == {"h5", "ovf", "vtk", "xarray"}
ValidOps   == {"setvalid", "mutatevalid"}
UpdateOps  == {"updateconst", "setarray", "fromfield", "writearray"}
(* queries: the heap stays as it is, the answer is the outcome ("true" / "false"; "reject" when the library raises) *)
(* q_eq: f == g (exact comparison); q_mean: f.mean() (the answer is the text of the exact rationals);            *)
(* q_call: f(centre of a cell) (the text of the cell's values)                                                    *)
BinQueryOps == {"q_meshclose", "q_fieldclose", "q_regionin", "q_aligned", "q_eq"}
QueryOps   == BinQueryOps \cup {"q_mean", "q_call"}
(* no property says which cells of an integral or a mean are valid: the model follows the library (all of them), a *)
(* difference in that attribute alone is counted by the conformance channels, not judged                           *)
ValidFreeOps == {"integrate", "mean", "integratecum"}
LabelOps   == {"setvdims"}                      \* f.vdims = [...]: renames the components in place
FieldMakers == AlgebraOps \cup SelOps \cup PersistOps \cup {"diff", "mkfield", "integrate", "mean", "integratecum"}

(* ---- variables of the user ------------------------------------------------------------- *)
FVseq == <<"f", "g", "h">>
FVars == {FVseq[i] : i \in 1 .. MaxFields}
IdxOfVar(v) == CHOOSE i \in 1 .. 3 : FVseq[i] = v
FieldRoots(h, rts) == {v \in DOMAIN rts : h[rts[v]].k = "field"}
FreshVar(rts, x) == LET free == {i \in 1 .. MaxFields : FVseq[i] \notin DOMAIN rts}
                    IN IF free # {} THEN FVseq[CHOOSE i \in free : \A j \in free : i <= j]
                       ELSE FVseq[(IdxOfVar(x) % MaxFields) + 1]
Dsts(rts, x) == IF LastFresh /\ Len(hist) = MaxDepth THEN {FreshVar(rts, x)} ELSE {x, FreshVar(rts, x)}
SetRoot(rts, v, o) == [w \in DOMAIN rts \cup {v} |-> IF w = v THEN o ELSE rts[w]]
GC(h, rts) == Restrict(h, Reach(h, {rts[v] : v \in DOMAIN rts}))
Target(h, rts, x, tg) ==
   LET o == rts[x] IN
   CASE tg = "self"   -> o
     [] tg = "mesh"   -> IF IsF(h, o) THEN h[o].mesh ELSE o
     [] tg = "region" -> IF IsF(h, o) THEN h[h[o].mesh].region ELSE IF IsM(h, o) THEN h[o].region ELSE o

(* ---- geometry on the extended objects (Geom.tla operators on the corners, counts, arrays) ---- *)
DRegOp(kind, r, args) == LET q == RegOp(kind, r, args) IN DReg(q.lo, q.hi, q.units, r.dims)
CompAt(fo, dims, a) == IF fo.map = <<>> THEN 0
                       ELSE IF \E c \in DOMAIN fo.map : fo.map[c] = dims[a] THEN CHOOSE c \in DOMAIN fo.map : fo.map[c] = dims[a] ELSE 0
DRotatable(fo, dims, args) == fo.nv = 1 \/ (CompAt(fo, dims, args.a) # 0 /\ CompAt(fo, dims, args.b) # 0)
DFieldRotated(fo, n, dims, args) ==
   LET ca == CompAt(fo, dims, args.a)
       cb == CompAt(fo, dims, args.b)
       moved == RotFlat(n, fo.arr, args.a, args.b, args.k)
   IN [fo EXCEPT !.arr = IF fo.nv = 1 THEN moved ELSE [j \in DOMAIN moved |-> RotVec(moved[j], ca, cb, args.k)],
                 !.valid = RotFlat(n, fo.valid, args.a, args.b, args.k),
                 !.shape = RotN(n, args.a, args.b, args.k)]
DApplyRegs(h, S, kind, args) == [o \in DOMAIN h |-> IF o \in S THEN DRegOp(kind, h[o], args) ELSE h[o]]
(* in place: through the references *)
DInPlace(h, o, kind, args0) ==
   LET args == WithRef(h, o, args0) IN
   CASE h[o].k = "region" -> [h EXCEPT ![o] = DRegOp(kind, @, args)]
     [] h[o].k = "mesh"   ->
          LET h1 == DApplyRegs(h, MeshRegs(h, o), kind, args)
          IN IF kind = "rotate90" THEN [h1 EXCEPT ![o].n = RotN(@, args.a, args.b, args.k)] ELSE h1
     [] h[o].k = "field"  ->
          LET m  == h[o].mesh
              h1 == DApplyRegs(h, MeshRegs(h, m), kind, args)
              h2 == [h1 EXCEPT ![m].n = RotN(@, args.a, args.b, args.k)]
          IN [h2 EXCEPT ![o] = DFieldRotated(@, h[m].n, MeshReg(h, m).dims, args)]
(* copying: fresh objects numbered region, subregions, mesh, field after the largest id in use *)
DCopyMesh(h, m, kind, args) ==
   LET nsub == Len(h[m].sub)
       base == MaxSet(DOMAIN h)
       mid  == base + 2 + nsub
       nn   == IF kind = "rotate90" THEN RotN(h[m].n, args.a, args.b, args.k) ELSE h[m].n
   IN <<[o \in DOMAIN h \cup (base + 1 .. mid) |->
            IF o \in DOMAIN h THEN h[o]
            ELSE IF o = base + 1 THEN DRegOp(kind, MeshReg(h, m), args)
            ELSE IF o < mid THEN DRegOp(kind, h[h[m].sub[o - base - 1]], args)
            ELSE DMsh(base + 1, nn, [j \in 1 .. nsub |-> base + 1 + j], h[m].names)], mid>>
DCopying(h, o, kind, args0) ==
   LET args == WithRef(h, o, args0) IN
   CASE h[o].k = "region" -> <<Ext(h, MaxSet(DOMAIN h) + 1, DRegOp(kind, h[o], args)), MaxSet(DOMAIN h) + 1>>
     [] h[o].k = "mesh"   -> DCopyMesh(h, o, kind, args)
     [] h[o].k = "field"  ->
          LET cm == DCopyMesh(h, h[o].mesh, kind, args)
              fid == cm[2] + 1
          IN <<Ext(cm[1], fid, [DFieldRotated(h[o], FieldMesh(h, o).n, MeshReg(h, h[o].mesh).dims, args) EXCEPT !.mesh = cm[2], !.vo = fid, !.ao = fid]), fid>>
GeoAccepts(h, o, kind, args) ==
   CASE kind = "translate" -> h[o].k # "field"
     [] kind = "scale"     -> h[o].k # "field" /\ ScaleOK(args.s)
     [] kind = "rotate90"  -> IF h[o].k = "field" THEN DRotatable(h[o], MeshReg(h, h[o].mesh).dims, args) ELSE TRUE

(* ---- allocation of results ---------------------------------------------------------------- *)
(* a new field F(mesh id, field id) on a new mesh with a new region and new subregions *)
AllocMF(h, reg, subs, names, n, F(_, _)) ==
   LET nsub == Len(subs)
       base == MaxSet(DOMAIN h)
       mid  == base + 2 + nsub
       fid  == mid + 1
   IN [h |-> [o \in DOMAIN h \cup (base + 1 .. fid) |->
                 IF o \in DOMAIN h THEN h[o]
                 ELSE IF o = base + 1 THEN reg
                 ELSE IF o < mid THEN subs[o - base - 1]
                 ELSE IF o = mid THEN DMsh(base + 1, n, [j \in 1 .. nsub |-> base + 1 + j], names)
                 ELSE F(mid, fid)],
       f |-> fid]
(* a new field on a new mesh that refers to an EXISTING region object *)
AllocOnRegion(h, ro, n, F(_, _)) ==
   LET base == MaxSet(DOMAIN h) IN
   [h |-> [o \in DOMAIN h \cup {base + 1, base + 2} |->
              IF o \in DOMAIN h THEN h[o] ELSE IF o = base + 1 THEN DMsh(ro, n, <<>>, <<>>) ELSE F(base + 1, base + 2)],
    f |-> base + 2]
(* a new field on an existing mesh *)
AllocF(h, F(_)) == LET fid == MaxSet(DOMAIN h) + 1 IN [h |-> Ext(h, fid, F(fid)), f |-> fid]

Ok(h, rts)  == [heap |-> GC(h, rts), roots |-> rts, outcome |-> "ok"]
Rej(h, rts) == [heap |-> h, roots |-> rts, outcome |-> "reject"]
Bound(al, rts, dst) == Ok(al.h, SetRoot(rts, dst, al.f))

(* ---- the pieces of a field -------------------------------------------------------------- *)
FM(h, f)   == h[h[f].mesh]
FR(h, f)   == h[h[h[f].mesh].region]
FN(h, f)   == h[h[f].mesh].n
CellQ(h, f, d) == CellR(FR(h, f), FN(h, f), d)
NM(n)      == [n |-> n]            \* the index maps of FieldAlg only read m.n
Derived(fo, mid, fid, arr, valid, shape) == [fo EXCEPT !.mesh = mid, !.vo = fid, !.ao = fid, !.arr = arr, !.valid = valid, !.shape = shape]
Mapped(fo, mid, fid, src, shape) ==
   Derived(fo, mid, fid, FA!Gather(fo.arr, src, ZeroVec(fo.nv)), FA!Gather(fo.valid, src, FALSE), shape)
Idx(k) == [j \in 1 .. k |-> j]
SameBox(h, f, g) == FN(h, f) = FN(h, g) /\ FR(h, f).lo = FR(h, g).lo /\ FR(h, f).hi = FR(h, g).hi
SameMeshDeep(h, f, g) == SameBox(h, f, g) /\ FR(h, f).dims = FR(h, g).dims /\ FR(h, f).units = FR(h, g).units

(* ---- algebra (C03, C08) ------------------------------------------------------------------ *)
UnVal(u, v) == CASE u = "neg" -> 0 - v [] u = "abs" -> Abs(v) [] OTHER -> v
BinVal(op, a, b) == IF op = "add" THEN a + b ELSE IF op = "sub" THEN a - b ELSE a * b
BinArr(op, x, y) == [k \in DOMAIN x |-> VecOp(x[k], y[k], LAMBDA a, b : BinVal(op, a, b))]
(* labels and mapping come from the operand that has the result's components (the left one first) *)
MetaOf(fx, fy) == IF fx.nv >= fy.nv THEN fx ELSE fy
StackLab(fx, fy) == IF fx.lab = <<>> \/ fy.lab = <<>> \/ ~Uniq(fx.lab \o fy.lab) THEN DefLab(fx.nv + fy.nv) ELSE fx.lab \o fy.lab
StackMap(fx, fy, dims) == IF fx.lab # <<>> /\ fy.lab # <<>> /\ Uniq(fx.lab \o fy.lab) /\ fx.map # <<>> /\ fy.map # <<>>
                          THEN fx.map \o fy.map ELSE DefMap(fx.nv + fy.nv, StackLab(fx, fy), dims)

(* ---- selection (C07, C14) ----------------------------------------------------------------- *)
SelPlaneRes(h, f, d, j) ==
   LET fo == h[f]  mo == FM(h, f)  ro == FR(h, f)  n == mo.n
       x == RAdd(ro.lo[d], RMul(CellQ(h, f, d), <<2 * j + 1, 2>>))
       reg2 == DReg(RemoveAt(ro.lo, d), RemoveAt(ro.hi, d), RemoveAt(ro.units, d), RemoveAt(ro.dims, d))
       keep == SelectSeq(Idx(Len(mo.sub)), LAMBDA s : RLeq(h[mo.sub[s]].lo[d], x) /\ RLeq(x, h[mo.sub[s]].hi[d]))
       subs == [s \in DOMAIN keep |-> DReg(RemoveAt(h[mo.sub[keep[s]]].lo, d), RemoveAt(h[mo.sub[keep[s]]].hi, d), reg2.units, reg2.dims)]
       names == [s \in DOMAIN keep |-> mo.names[keep[s]]]
       n2 == RemoveAt(n, d)
   IN AllocMF(h, reg2, subs, names, n2, LAMBDA mid, fid : Mapped(fo, mid, fid, FA!SelPlaneSrc(NM(n), d, j), n2))
SelRangeRes(h, f, d, j1, j2) ==
   LET fo == h[f]  mo == FM(h, f)  ro == FR(h, f)  n == mo.n
       c == CellQ(h, f, d)
       lo2 == RAdd(ro.lo[d], RMul(c, R(j1)))
       hi2 == RAdd(ro.lo[d], RMul(c, R(j2 + 1)))
       reg2 == DReg([ro.lo EXCEPT ![d] = lo2], [ro.hi EXCEPT ![d] = hi2], ro.units, ro.dims)
       keep == SelectSeq(Idx(Len(mo.sub)), LAMBDA s : RLess(h[mo.sub[s]].lo[d], hi2) /\ RLess(lo2, h[mo.sub[s]].hi[d]))
       subs == [s \in DOMAIN keep |-> LET so == h[mo.sub[keep[s]]]
                                      IN DReg([so.lo EXCEPT ![d] = RMax(lo2, so.lo[d])], [so.hi EXCEPT ![d] = RMin(hi2, so.hi[d])], ro.units, ro.dims)]
       names == [s \in DOMAIN keep |-> mo.names[keep[s]]]
       n2 == [n EXCEPT ![d] = j2 - j1 + 1]
   IN AllocMF(h, reg2, subs, names, n2, LAMBDA mid, fid : Mapped(fo, mid, fid, FA!SelRangeSrc(NM(n), d, j1, j2), n2))
(* field[name]: the mesh of the result has its OWN region object, equal to the parent's subregion (until the *)
(* fix c1671978 the library handed out the parent's subregion object itself: aliasing pattern P3)          *)
SubLoIdx(h, f, s) == [d \in DOMAIN FN(h, f) |-> RFloor(RDiv(RSub(h[FM(h, f).sub[s]].lo[d], FR(h, f).lo[d]), CellQ(h, f, d)))]
SubCount(h, f, s) == [d \in DOMAIN FN(h, f) |-> RFloor(RDiv(RSub(h[FM(h, f).sub[s]].hi[d], h[FM(h, f).sub[s]].lo[d]), CellQ(h, f, d)))]
GetSubRes(h, f, s) ==
   LET fo == h[f]  n == FN(h, f)
       a == SubLoIdx(h, f, s)
       n2 == SubCount(h, f, s)
       b == [d \in DOMAIN n |-> a[d] + n2[d] - 1]
   IN AllocMF(h, h[FM(h, f).sub[s]], <<>>, <<>>, n2, LAMBDA mid, fid : Mapped(fo, mid, fid, FA!BlockSrc(NM(n), a, b), n2))
(* field[Region]: the smallest block of whole cells containing the region; a, b = first / last cell of the block *)
GetRegionRes(h, f, a, b) ==
   LET fo == h[f]  ro == FR(h, f)  n == FN(h, f)
       reg2 == DReg([d \in DOMAIN n |-> RAdd(ro.lo[d], RMul(CellQ(h, f, d), R(a[d])))],
                    [d \in DOMAIN n |-> RAdd(ro.lo[d], RMul(CellQ(h, f, d), R(b[d] + 1)))], ro.units, ro.dims)
       n2 == [d \in DOMAIN n |-> b[d] - a[d] + 1]
   IN AllocMF(h, reg2, <<>>, <<>>, n2, LAMBDA mid, fid : Mapped(fo, mid, fid, FA!BlockSrc(NM(n), a, b), n2))
PadRes(h, f, d, l, r, mode) ==
   LET fo == h[f]  ro == FR(h, f)  n == FN(h, f)
       c == CellQ(h, f, d)
       reg2 == DReg([ro.lo EXCEPT ![d] = RSub(@, RMul(c, R(l)))], [ro.hi EXCEPT ![d] = RAdd(@, RMul(c, R(r)))], ro.units, ro.dims)
       n2 == [n EXCEPT ![d] = @ + l + r]
   IN AllocMF(h, reg2, <<>>, <<>>, n2, LAMBDA mid, fid : Mapped(fo, mid, fid, FA!PadSrc(NM(n), d, l, r, mode), n2))
(* resampling keeps the region: the new mesh has its OWN region object with the same corners (until the fix *)
(* ac736751 the library reused the source's region object: aliasing pattern P2 created by the library)      *)
ResampleRes(h, f, n2) ==
   LET fo == h[f]  n == FN(h, f)
   IN AllocMF(h, FR(h, f), <<>>, <<>>, n2, LAMBDA mid, fid : Mapped(fo, mid, fid, FA!ResampleSrc(NM(n), n2), n2))

(* a directional integral lives on the mesh with that axis removed (C06): the library takes mesh.sel(direction), the  *)
(* plane through the central cell, so the subregions that plane passes through come along; its values (sums times a    *)
(* cell length) are not integers under every embedding: vx = FALSE; all cells valid                                    *)
IntegrateRes(h, f, d) ==
   LET fo == h[f]  mo == FM(h, f)  ro == FR(h, f)  n == FN(h, f)
       j == n[d] \div 2
       x == RAdd(ro.lo[d], RMul(CellQ(h, f, d), <<2 * j + 1, 2>>))
       reg2 == DReg(RemoveAt(ro.lo, d), RemoveAt(ro.hi, d), RemoveAt(ro.units, d), RemoveAt(ro.dims, d))
       keep == SelectSeq(Idx(Len(mo.sub)), LAMBDA s : RLeq(h[mo.sub[s]].lo[d], x) /\ RLeq(x, h[mo.sub[s]].hi[d]))
       subs == [s \in DOMAIN keep |-> DReg(RemoveAt(h[mo.sub[keep[s]]].lo, d), RemoveAt(h[mo.sub[keep[s]]].hi, d), reg2.units, reg2.dims)]
       names == [s \in DOMAIN keep |-> mo.names[keep[s]]]
       n2 == RemoveAt(n, d)
       N2 == ProdSeq(n2)
   IN AllocMF(h, reg2, subs, names, n2, LAMBDA mid, fid :
         DFld(mid, fo.nv, [k \in 1 .. N2 |-> ZeroVec(fo.nv)], [k \in 1 .. N2 |-> TRUE], n2, fo.lab, fo.map, FALSE, fo.mx, fid))
(* value = another field (C02): every cell gets the value of the source cell containing its centre *)
CentreQ(h, f, kk, d) == LET i == Unflat(FN(h, f), kk - 1) IN RAdd(FR(h, f).lo[d], RMul(CellQ(h, f, d), <<2 * i[d] + 1, 2>>))
SrcIdxOf(h, f, g, kk) == [d \in DOMAIN FN(h, f) |-> RFloor(RDiv(RSub(CentreQ(h, f, kk, d), FR(h, g).lo[d]), CellQ(h, g, d)))]
CentreOnSrcFace(h, f, g) == \E kk \in 1 .. ProdSeq(FN(h, f)) : \E d \in DOMAIN FN(h, f) :
                               RIsInt(RDiv(RSub(CentreQ(h, f, kk, d), FR(h, g).lo[d]), CellQ(h, g, d)))
Covers(h, g, f) == \A d \in DOMAIN FN(h, f) : RLeq(FR(h, g).lo[d], FR(h, f).lo[d]) /\ RLeq(FR(h, f).hi[d], FR(h, g).hi[d])
FromFieldArr(h, f, g) == [kk \in 1 .. ProdSeq(FN(h, f)) |-> At(FN(h, g), h[g].arr, SrcIdxOf(h, f, g, kk))]
(* mesh.subregions = {"t": box}: the box from cell a to cell b of the mesh, optionally shifted by half a cell (C14) *)
SetSubBox(h, m, a) ==
   LET ro == h[h[m].region]  n == h[m].n
       off == IF a.sh THEN <<1, 2>> ELSE <<0, 1>>
   IN [lo |-> [d \in DOMAIN n |-> RAdd(ro.lo[d], RMul(CellR(ro, n, d), RAdd(R(a.a[d]), off)))],
       hi |-> [d \in DOMAIN n |-> RAdd(ro.lo[d], RMul(CellR(ro, n, d), RAdd(R(a.b[d] + 1), off)))]]
SetSubAccepted(h, m, a) ==
   LET ro == h[h[m].region]  bx == SetSubBox(h, m, a)
   IN ~a.sh /\ \A d \in DOMAIN h[m].n : RLeq(ro.lo[d], bx.lo[d]) /\ RLeq(bx.hi[d], ro.hi[d])

(* ---- persistence as identity steps (C09, C10, C16, C17) ------------------------------------- *)
(* a round trip returns a field on fresh objects; the formats do not store the mapping: the reader's  *)
(* Field(...) call gets the constructor default, which is the source's mapping iff that was default  *)
PersistRes(h, f) ==
   LET fo == h[f]  mo == FM(h, f)  ro == FR(h, f)
       pm == DefMap(fo.nv, fo.lab, ro.dims)
   IN AllocMF(h, ro, [s \in DOMAIN mo.sub |-> h[mo.sub[s]]], mo.names, mo.n,
              LAMBDA mid, fid : [fo EXCEPT !.mesh = mid, !.vo = fid, !.ao = fid, !.map = pm, !.mx = fo.mx /\ fo.map = pm])
MetricXYZ(r) == r.dims = <<"x", "y", "z">> /\ \A d \in DOMAIN r.units : r.units[d] = "m"

(* ---- the step function ---------------------------------------------------------------------- *)
MaskOf(bits, N) == [k \in 1 .. N |-> (bits \div (2 ^ (k - 1))) % 2 = 1]
PatArr(N, nv, p) == [k \in 1 .. N |-> [c \in 1 .. nv |-> 100 * p + 10 * k + c]]
ConstArr2(N, nv, v) == [k \in 1 .. N |-> [c \in 1 .. nv |-> v + c - 1]]
FlipAt(v, k) == [v EXCEPT ![k] = ~v[k]]

(* is the call inside this model (arguments meaningful, arithmetic bounded, metadata decided by a property)? *)
InModel(h, rts, c) ==
   /\ c.x \in DOMAIN rts
   /\ LET o == rts[c.x] IN
      CASE c.op \in GeoOps ->
              LET t == Target(h, rts, c.x, c.tg)
                  nd == RegND(OwnRegion(h, t))
              IN /\ (c.tg = "self" \/ IsF(h, o) \/ (c.tg = "region" /\ IsM(h, o)))
                 /\ (c.op # "rotate90" => ~IsF(h, t))
                 /\ (c.op = "translate" => Len(c.a.v) = nd)
                 /\ (c.op = "scale" => Len(c.a.s) = nd /\ (c.a.ref = <<>> \/ Len(c.a.ref) = nd))
                 /\ (c.op = "rotate90" => /\ c.a.a \in 1 .. nd /\ c.a.b \in 1 .. nd /\ c.a.a # c.a.b
                                          /\ (c.a.ref = <<>> \/ Len(c.a.ref) = nd)
                                          /\ (IsF(h, t) => h[t].nv = 1 \/ h[t].mx))
        [] c.op = "mkfield" -> IsM(h, o) /\ c.a.nv \in {1, Len(h[o].n)}
        [] OTHER ->
           /\ IsF(h, o)
           /\ LET fo == h[o]  n == FN(h, o)  nd == Len(n) IN
              CASE c.op \in UnaryOps -> TRUE
                [] c.op \in BinaryOps ->
                      /\ c.y \in DOMAIN rts /\ IsF(h, rts[c.y])
                      /\ LET go == h[rts[c.y]] IN
                           (* two vector fields with different labels: no property states whose labels win *)
                           /\ (fo.nv = go.nv => fo.lab = go.lab /\ fo.map = go.map)
                           /\ (SameMeshDeep(h, o, rts[c.y]) \/ ~SameBox(h, o, rts[c.y]))
                           /\ (fo.vx /\ go.vx => LET big == IF c.op = "mul" THEN 30000 ELSE 500000000 IN MaxAbs(fo.arr) <= big /\ MaxAbs(go.arr) <= big)   \* 32-bit integers in TLC
                [] c.op \in ProductOps ->
                      /\ c.y \in DOMAIN rts /\ IsF(h, rts[c.y])
                      /\ LET go == h[rts[c.y]] IN
                           /\ fo.nv = go.nv
                           /\ (SameMeshDeep(h, o, rts[c.y]) \/ ~SameBox(h, o, rts[c.y]))
                           /\ (fo.vx /\ go.vx => MaxAbs(fo.arr) <= 15000 /\ MaxAbs(go.arr) <= 15000)
                [] c.op \in LengthOps -> TRUE
                (* an even cell count puts the region centre on a face: which of the two central cells the plane goes through, *)
                (* hence which subregions come along, is decided by rounding - outside the model when there are subregions   *)
                [] c.op \in {"integrate", "mean"} -> nd >= 2 /\ c.a.d \in 1 .. nd /\ (n[c.a.d] % 2 = 1 \/ FM(h, o).sub = <<>>)
                [] c.op = "fromfield" ->
                      /\ c.y \in DOMAIN rts /\ IsF(h, rts[c.y]) /\ rts[c.y] # o
                      /\ LET g == rts[c.y] IN
                           /\ Len(FN(h, g)) = nd /\ FR(h, g).dims = FR(h, o).dims /\ FR(h, g).units = FR(h, o).units
                           /\ ~CentreOnSrcFace(h, o, g)
                [] c.op = "setsub" -> Len(c.a.a) = nd /\ Len(c.a.b) = nd /\ \A d \in 1 .. nd : 0 <= c.a.a[d] /\ c.a.a[d] <= c.a.b[d] /\ c.a.b[d] <= n[d]
                [] c.op = "mulnum" -> fo.vx => (MaxAbs(fo.arr) <= 100000000 /\ Abs(c.a.c) <= 10)
                [] c.op = "addnum" -> fo.vx => (MaxAbs(fo.arr) <= 1000000000 /\ Abs(c.a.c) <= 10)
                [] c.op = "pow2"   -> fo.vx => MaxAbs(fo.arr) <= 30000
                [] c.op = "integratecum" -> c.a.d \in 1 .. nd
                [] c.op = "q_mean" -> fo.vx /\ MaxAbs(fo.arr) <= 10000000 /\ Len(fo.arr) <= 64
                [] c.op = "q_call" -> fo.vx /\ c.a.cell \in DOMAIN fo.arr
                [] c.op = "setvdims" -> c.a.lab # <<>>
                [] c.op \in BinQueryOps -> /\ c.y \in DOMAIN rts /\ IsF(h, rts[c.y]) /\ Len(FN(h, rts[c.y])) = nd
                                           /\ (c.op \in {"q_fieldclose", "q_eq"} => fo.vx /\ h[rts[c.y]].vx)
                                           (* == compares corners exactly: two mesh objects that are equal only up to rounding *)
                                           (* are outside what the model decides (as for <<)                                  *)
                                           /\ (c.op = "q_eq" => (fo.mesh = h[rts[c.y]].mesh \/ ~SameBox(h, o, rts[c.y])))
                [] c.op = "comp" -> fo.lab # <<>> /\ c.a.c \in 1 .. fo.nv
                [] c.op = "lshift" ->
                      /\ c.y \in DOMAIN rts /\ IsF(h, rts[c.y])
                      (* << compares the meshes exactly (==), + and * with a tolerance: two mesh OBJECTS that are equal only up to *)
                      (* rounding (one of them rotated, read from a text file, ...) are outside what the model decides for <<      *)
                      /\ (fo.mesh = h[rts[c.y]].mesh \/ ~SameBox(h, o, rts[c.y]))
                      /\ fo.nv + h[rts[c.y]].nv <= 4
                [] c.op = "diff" -> c.a.d \in 1 .. nd
                [] c.op = "setvalid" -> (c.a.kind = "norm" => fo.vx) /\ (c.a.kind = "array" => Len(c.a.mask) = Len(fo.valid))
                [] c.op = "mutatevalid" -> c.a.cell \in DOMAIN fo.valid
                [] c.op = "writearray" -> c.a.cell \in DOMAIN fo.arr
                [] c.op \in UpdateOps -> TRUE
                [] c.op = "selplane" -> nd >= 2 /\ c.a.d \in 1 .. nd /\ c.a.j \in 0 .. (n[c.a.d] - 1)
                [] c.op = "selrange" -> c.a.d \in 1 .. nd /\ 0 <= c.a.j1 /\ c.a.j1 <= c.a.j2 /\ c.a.j2 < n[c.a.d]
                [] c.op = "getsub" -> c.a.s \in DOMAIN FM(h, o).sub /\ SubsWellFormed(h, fo.mesh)
                [] c.op = "getregion" -> Len(c.a.a) = nd /\ \A d \in 1 .. nd : 0 <= c.a.a[d] /\ c.a.a[d] <= c.a.b[d] /\ c.a.b[d] < n[d]
                [] c.op = "pad" -> c.a.d \in 1 .. nd /\ c.a.l + c.a.r >= 1 /\ c.a.l <= n[c.a.d] /\ c.a.r <= n[c.a.d]
                [] c.op = "resample" -> c.a.n = n
                [] c.op = "h5" -> TRUE
                (* a SCALAR field with a component label loses it in VTK and xarray (no component axis is written for one      *)
                (* component): known findings of C16 / C17 (format design), reported there - outside this model                  *)
                [] c.op = "xarray" -> FM(h, o).sub = <<>> /\ AllTrue(fo.valid) /\ (fo.nv = 1 => fo.lab = <<>>)
                [] c.op = "vtk" -> nd = 3 /\ MetricXYZ(FR(h, o)) /\ (fo.nv = 1 => fo.lab = <<>>)
                [] c.op = "ovf" -> nd = 3 /\ MetricXYZ(FR(h, o)) /\ AllTrue(fo.valid) /\ fo.nv > 1     \* C09 states the labels of vector fields only
                [] OTHER -> FALSE

(* the state after the call; only evaluated when InModel *)
Apply(h, rts, c) ==
   LET o == rts[c.x] IN
   CASE c.op \in GeoOps ->
           LET t == Target(h, rts, c.x, c.tg) IN
           IF ~GeoAccepts(h, t, c.op, c.a) THEN Rej(h, rts)
           ELSE IF c.ip THEN [heap |-> DInPlace(h, t, c.op, c.a), roots |-> rts, outcome |-> "ok"]
           ELSE LET cp == DCopying(h, t, c.op, c.a) IN Ok(cp[1], SetRoot(rts, c.dst, cp[2]))
     [] c.op = "mkfield" ->
           LET n == h[o].n  N == ProdSeq(n)  nv == c.a.nv  lab == DefLab(nv)
           IN Bound(AllocF(h, LAMBDA fid : DFld(o, nv, PatArr(N, nv, c.a.p), [k \in 1 .. N |-> TRUE], n, lab,
                                                DefMap(nv, lab, h[h[o].region].dims), TRUE, TRUE, fid)), rts, c.dst)
     [] c.op \in UnaryOps ->
           Bound(AllocF(h, LAMBDA fid : [h[o] EXCEPT !.vo = fid, !.ao = fid, !.arr = [k \in DOMAIN @ |-> [cc \in 1 .. h[o].nv |-> UnVal(c.op, @[k][cc])]]]), rts, c.dst)
     [] c.op \in BinaryOps ->
           LET p == rts[c.y]  fo == h[o]  go == h[p]  md == MetaOf(fo, go) IN
           IF ~(SameMeshDeep(h, o, p) /\ (fo.nv = go.nv \/ fo.nv = 1 \/ go.nv = 1)) THEN Rej(h, rts)
           ELSE Bound(AllocF(h, LAMBDA fid : DFld(fo.mesh, md.nv, IF fo.vx /\ go.vx THEN BinArr(c.op, fo.arr, go.arr) ELSE [k \in DOMAIN fo.arr |-> ZeroVec(md.nv)],
                                                  AndArr(fo.valid, go.valid), fo.shape, md.lab, md.map, fo.vx /\ go.vx, md.mx, fid)), rts, c.dst)
     [] c.op \in {"dot", "cross"} ->
           LET p == rts[c.y]  fo == h[o]  go == h[p]  vx == fo.vx /\ go.vx IN
           IF ~SameMeshDeep(h, o, p) \/ (c.op = "cross" /\ fo.nv # 3) THEN Rej(h, rts)
           ELSE IF c.op = "dot"
                THEN Bound(AllocF(h, LAMBDA fid : DFld(fo.mesh, 1, [k \in DOMAIN fo.arr |-> IF vx THEN <<Dot(fo.arr[k], go.arr[k])>> ELSE <<0>>],
                                                       AndArr(fo.valid, go.valid), fo.shape, <<>>, <<>>, vx, TRUE, fid)), rts, c.dst)
                (* the mapping of a cross product is not stated by any property (the library resets it to the default): mx = FALSE *)
                ELSE Bound(AllocF(h, LAMBDA fid : DFld(fo.mesh, 3, [k \in DOMAIN fo.arr |-> IF vx THEN Cross(fo.arr[k], go.arr[k]) ELSE ZeroVec(3)],
                                                       AndArr(fo.valid, go.valid), fo.shape, fo.lab, fo.map, vx, FALSE, fid)), rts, c.dst)
     [] c.op = "angle" ->
           (* radians: not integers (vx = FALSE); a scalar field without labels on the operand's mesh, validity the AND *)
           LET p == rts[c.y]  fo == h[o]  go == h[p] IN
           IF ~SameMeshDeep(h, o, p) THEN Rej(h, rts)
           ELSE Bound(AllocF(h, LAMBDA fid : DFld(fo.mesh, 1, [k \in DOMAIN fo.arr |-> <<0>>], AndArr(fo.valid, go.valid), fo.shape, <<>>, <<>>, FALSE, TRUE, fid)), rts, c.dst)
     [] c.op = "addnum" ->
           Bound(AllocF(h, LAMBDA fid : [h[o] EXCEPT !.vo = fid, !.ao = fid, !.arr = [k \in DOMAIN @ |-> [cc \in 1 .. h[o].nv |-> @[k][cc] + c.a.c]]]), rts, c.dst)
     [] c.op = "pow2" ->
           Bound(AllocF(h, LAMBDA fid : [h[o] EXCEPT !.vo = fid, !.ao = fid, !.arr = [k \in DOMAIN @ |-> [cc \in 1 .. h[o].nv |-> @[k][cc] * @[k][cc]]]]), rts, c.dst)
     [] c.op = "integratecum" ->
           (* C06: the cumulative integral lives on the field's own mesh; values (times a cell length) are not integers; all cells valid *)
           Bound(AllocF(h, LAMBDA fid : [h[o] EXCEPT !.vo = fid, !.ao = fid, !.vx = FALSE, !.arr = [k \in DOMAIN @ |-> ZeroVec(h[o].nv)],
                                                      !.valid = [k \in DOMAIN @ |-> TRUE]]), rts, c.dst)
     [] c.op = "norm" ->
           Bound(AllocF(h, LAMBDA fid : [h[o] EXCEPT !.vo = fid, !.ao = fid, !.nv = 1, !.arr = [k \in DOMAIN @ |-> <<0>>], !.lab = <<>>, !.map = <<>>, !.mx = TRUE, !.vx = FALSE]), rts, c.dst)
     [] c.op = "orientation" ->
           Bound(AllocF(h, LAMBDA fid : [h[o] EXCEPT !.vo = fid, !.ao = fid, !.arr = [k \in DOMAIN @ |-> ZeroVec(h[o].nv)], !.vx = FALSE]), rts, c.dst)
     [] c.op \in {"integrate", "mean"} -> Bound(IntegrateRes(h, o, c.a.d), rts, c.dst)
     [] c.op = "q_mean" -> [heap |-> h, roots |-> rts, outcome |-> MeanText(h[o])]
     [] c.op = "q_call" -> [heap |-> h, roots |-> rts, outcome |-> "v:" \o JoinInts(h[o].arr[c.a.cell])]
     [] c.op = "setvdims" ->
           IF Len(c.a.lab) # h[o].nv \/ ~Uniq(c.a.lab) THEN Rej(h, rts)
           ELSE [heap |-> [h EXCEPT ![o].lab = c.a.lab], roots |-> rts, outcome |-> "ok"]
     [] c.op = "fromfield" ->
           LET g == rts[c.y] IN
           IF ~(Covers(h, g, o) /\ h[o].nv = h[g].nv) THEN Rej(h, rts)
           ELSE [heap |-> [h EXCEPT ![o].arr = FromFieldArr(h, o, g), ![o].vx = h[g].vx], roots |-> rts, outcome |-> "ok"]
     [] c.op = "setsub" ->
           LET m == h[o].mesh  bx == SetSubBox(h, m, c.a)  ro == h[h[m].region]  id == MaxSet(DOMAIN h) + 1 IN
           IF ~SetSubAccepted(h, m, c.a) THEN Rej(h, rts)
           ELSE Ok([Ext(h, id, DReg(bx.lo, bx.hi, ro.units, ro.dims)) EXCEPT ![m].sub = <<id>>, ![m].names = <<"t">>], rts)
     [] c.op \in BinQueryOps ->
           (* f.mesh.allclose(g.mesh), f.allclose(g), g.mesh.region in f.mesh.region, f.mesh.is_aligned(g.mesh): on lattice   *)
           (* coordinates the tolerances of the library (1e-12 relative) decide nothing, the answers are exact                *)
           LET g == rts[c.y]
               sameDims  == FR(h, o).dims = FR(h, g).dims
               meshClose == FR(h, o).lo = FR(h, g).lo /\ FR(h, o).hi = FR(h, g).hi /\ FN(h, o) = FN(h, g)
               ans == CASE c.op = "q_meshclose"  -> meshClose
                        [] c.op = "q_fieldclose" -> meshClose /\ h[o].nv = h[g].nv /\ h[o].arr = h[g].arr
                        [] c.op = "q_regionin"   -> Covers(h, o, g)
                        [] c.op = "q_eq"         -> /\ meshClose /\ sameDims /\ FR(h, o).units = FR(h, g).units
                                                    /\ h[o].nv = h[g].nv /\ h[o].arr = h[g].arr
                        [] c.op = "q_aligned"    -> /\ \A d \in DOMAIN FN(h, o) : CellQ(h, o, d) = CellQ(h, g, d)
                                                    /\ \A d \in DOMAIN FN(h, o) : RIsInt(RDiv(RSub(FR(h, g).lo[d], FR(h, o).lo[d]), CellQ(h, o, d)))
           IN IF c.op \in {"q_meshclose", "q_fieldclose"} /\ ~sameDims THEN Rej(h, rts)
              ELSE [heap |-> h, roots |-> rts, outcome |-> IF ans THEN "true" ELSE "false"]
     [] c.op = "mulnum" ->
           Bound(AllocF(h, LAMBDA fid : [h[o] EXCEPT !.vo = fid, !.ao = fid, !.arr = [k \in DOMAIN @ |-> [cc \in 1 .. h[o].nv |-> @[k][cc] * c.a.c]]]), rts, c.dst)
     [] c.op = "comp" ->
           Bound(AllocF(h, LAMBDA fid : [h[o] EXCEPT !.vo = fid, !.ao = fid, !.nv = 1, !.arr = Component(@, c.a.c), !.lab = <<>>, !.map = <<>>, !.mx = TRUE]), rts, c.dst)
     [] c.op = "lshift" ->
           LET p == rts[c.y]  fo == h[o]  go == h[p]  lab == StackLab(fo, go) IN
           IF fo.mesh # go.mesh THEN Rej(h, rts)
           ELSE Bound(AllocF(h, LAMBDA fid : DFld(fo.mesh, fo.nv + go.nv, IF fo.vx /\ go.vx THEN Stack(fo.arr, go.arr) ELSE [k \in DOMAIN fo.arr |-> ZeroVec(fo.nv + go.nv)],
                                                  AndArr(fo.valid, go.valid), fo.shape, lab, StackMap(fo, go, FR(h, o).dims), fo.vx /\ go.vx, fo.mx /\ go.mx, fid)), rts, c.dst)
     [] c.op = "diff" ->
           Bound(AllocF(h, LAMBDA fid : [h[o] EXCEPT !.vo = fid, !.ao = fid, !.vx = FALSE, !.arr = [k \in DOMAIN @ |-> ZeroVec(h[o].nv)]]), rts, c.dst)
     [] c.op = "setvalid" ->
           LET fo == h[o]
               mask == CASE c.a.kind = "array" -> c.a.mask
                         [] c.a.kind = "none"  -> [k \in DOMAIN fo.valid |-> TRUE]
                         [] c.a.kind = "norm"  -> [k \in DOMAIN fo.valid |-> \E cc \in 1 .. fo.nv : fo.arr[k][cc] # 0]
           IN [heap |-> [h EXCEPT ![o].valid = mask, ![o].vo = o], roots |-> rts, outcome |-> "ok"]
     [] c.op = "mutatevalid" ->
           (* an in-place write into the mask array: every field whose mask is that array object sees it *)
           [heap |-> [q \in DOMAIN h |-> IF IsF(h, q) /\ h[q].vo = h[o].vo THEN [h[q] EXCEPT !.valid = FlipAt(@, c.a.cell)] ELSE h[q]],
            roots |-> rts, outcome |-> "ok"]
     [] c.op = "updateconst" ->
           [heap |-> [h EXCEPT ![o].arr = ConstArr2(Len(@), h[o].nv, c.a.c), ![o].vx = TRUE], roots |-> rts, outcome |-> "ok"]
     [] c.op = "writearray" ->
           (* field.array[cell] = vector: an in-place write into the value array - every field whose values are that array object sees it *)
           [heap |-> [q \in DOMAIN h |-> IF IsF(h, q) /\ h[q].ao = h[o].ao
                                          THEN [h[q] EXCEPT !.arr = IF h[q].vx THEN [@ EXCEPT ![c.a.cell] = [cc \in 1 .. h[q].nv |-> c.a.v + cc - 1]] ELSE @]
                                          ELSE h[q]],
            roots |-> rts, outcome |-> "ok"]
     [] c.op = "setarray" ->
           [heap |-> [h EXCEPT ![o].arr = PatArr(Len(@), h[o].nv, c.a.p), ![o].vx = TRUE], roots |-> rts, outcome |-> "ok"]
     [] c.op = "selplane"  -> Bound(SelPlaneRes(h, o, c.a.d, c.a.j), rts, c.dst)
     [] c.op = "selrange"  -> Bound(SelRangeRes(h, o, c.a.d, c.a.j1, c.a.j2), rts, c.dst)
     [] c.op = "getsub"    -> Bound(GetSubRes(h, o, c.a.s), rts, c.dst)
     [] c.op = "getregion" -> Bound(GetRegionRes(h, o, c.a.a, c.a.b), rts, c.dst)
     [] c.op = "pad"       -> Bound(PadRes(h, o, c.a.d, c.a.l, c.a.r, c.a.mode), rts, c.dst)
     [] c.op = "resample"  -> Bound(ResampleRes(h, o, c.a.n), rts, c.dst)
     [] c.op \in PersistOps -> Bound(PersistRes(h, o), rts, c.dst)

(* ---- known design-level aliasing patterns ----------------------------------------------------- *)
(* P1 / P2 are decided by the guard of C13.tla itself, instantiated on this heap: its `Last` is the   *)
(* geometric view of our last call, its `roots` names the object the call was made on.                *)
GeoView == LET c == Last IN
   [kind |-> IF c.op \in GeoOps THEN c.op ELSE "none", x |-> "t", args |-> c.a, inplace |-> c.ip, outcome |-> c.outcome]
GeoTarget == IF Last.op \in GeoOps /\ Last.ip /\ Last.outcome = "ok" THEN Target(heap, roots, Last.x, Last.tg) ELSE MaxSet(DOMAIN heap)
C13G == INSTANCE C13 WITH heap <- heap, roots <- [t |-> GeoTarget], hist <- <<GeoView>>,
                          Scenarios <- {}, TransVs <- {}, ScaleFs <- {}, RefPts <- {}, RotKs <- {}, BadKinds <- {},
                          MaxDepth <- 0, AllowAlias <- "noP1P2"
(* P3 (found by this model): field[name] / mesh[name] return a mesh whose region IS the parent's    *)
(* subregion object; an in-place step on the extracted object moves the parent's subregion            *)
AliasP3 == /\ Last.op \in GeoOps /\ Last.ip /\ Last.outcome = "ok"
           /\ LET o == GeoTarget IN
                 \E m \in MeshesOf(heap) : m # C13G!TargetMesh(heap, o) /\ SeqRange(heap[m].sub) \cap C13G!MovedRegs(heap, o) # {}
AliasGuard == AllowAlias = "all" \/ (C13G!AliasGuard /\ ~AliasP3)

(* ================================================================================================ *)
(* the clauses.  State clauses take a heap; step clauses take the state before (h, rts), the state   *)
(* after (h2, rts2) and the call c (with its outcome).                                               *)
(* ================================================================================================ *)
RegionOK(r) == /\ RegNormal(r) /\ Len(r.dims) = Len(r.lo) /\ Uniq(r.dims)
(* C13: every region has pmin < pmax with equally long unique dimension names and units *)
S_RegionNormal(h) == \A o \in DOMAIN h : IsR(h, o) => RegionOK(h[o])
(* C13: every mesh has positive integer cell counts (cell * n = edges by construction of CellR) *)
S_MeshNormal(h)   == \A o \in DOMAIN h : IsM(h, o) => MeshNormal(h, o) /\ Len(h[o].names) = Len(h[o].sub)
(* C13: every field array has shape (n..., nvdim) with a Boolean validity of shape n *)
S_FieldShapes(h)  == \A o \in DOMAIN h : IsF(h, o) => FieldShapeOK(h, o)
(* C14: subregions lie within the region, consist of whole cells, sit on the lattice, carry the mesh's units *)
S_SubregionsWellFormed(h) == \A o \in DOMAIN h : IsM(h, o) => SubsWellFormed(h, o) /\ \A s \in SeqRange(h[o].sub) : h[s].dims = MeshReg(h, o).dims
(* C08: a result's validity is its own - no validity array is shared by two fields *)
S_OwnValidity(h)  == \A f \in FieldsOf(h) : h[f].vo = f
(* the same for the values: no value array is shared by two fields (on the current tree every result owns its array) *)
S_OwnArray(h)     == \A f \in FieldsOf(h) : h[f].ao = f
S_Labels(h)       == \A f \in FieldsOf(h) : /\ (h[f].lab = <<>> \/ (Len(h[f].lab) = h[f].nv /\ Uniq(h[f].lab)))
                                            /\ (h[f].nv > 1 => h[f].lab # <<>>)
                                            /\ (h[f].map = <<>> \/ Len(h[f].map) = h[f].nv)
DF_RegionNormal == S_RegionNormal(heap)
DF_MeshNormal   == S_MeshNormal(heap)
DF_FieldShapes  == S_FieldShapes(heap)
DF_SubregionsWellFormed == S_SubregionsWellFormed(heap)
DF_OwnValidity  == S_OwnValidity(heap)
DF_OwnArray     == S_OwnArray(heap)
DF_Labels       == S_Labels(heap)
DF_RootsLive    == \A v \in DOMAIN roots : roots[v] \in DOMAIN heap

OkStep(c) == c.outcome = "ok"
Res(h2, rts2, c) == h2[rts2[c.dst]]         \* the result of a field-making call
Src(h, rts, c)   == h[rts[c.x]]
(* C13 / C03: a rejected call modifies nothing *)
P_RejectUnchanged(h, rts, h2, rts2, c) == c.outcome = "reject" => h2 = h /\ rts2 = rts
(* C03: evaluation leaves every operand's values, validity, labels and mesh unmodified; C13: the copying *)
(* form leaves the original untouched (stated here for every call that returns a new object)             *)
P_OperandsUnchanged(h, rts, h2, rts2, c) ==
   (OkStep(c) /\ (c.op \in FieldMakers \/ (c.op \in GeoOps /\ ~c.ip))) => \A o \in DOMAIN h \cap DOMAIN h2 : h2[o] = h[o]
(* C08: unary operations, component access, derivatives return the operand's validity; binary operations *)
(* between fields the cell-wise AND                                                                        *)
P_ValidityRule(h, rts, h2, rts2, c) ==
   OkStep(c) =>
      /\ (c.op \in UnaryOps \cup LengthOps \cup NumOps \cup {"comp", "diff"}) => Res(h2, rts2, c).valid = Src(h, rts, c).valid
      /\ (c.op \in BinaryOps \cup ProductOps \cup {"lshift"}) => Res(h2, rts2, c).valid = AndArr(Src(h, rts, c).valid, h[rts[c.y]].valid)
(* C08: setting validity never changes stored values and yields a Boolean array of the mesh shape; 'norm' *)
(* marks exactly the non-zero cells; C08: changing a validity afterwards never alters another field's       *)
P_SetValid(h, rts, h2, rts2, c) ==
   (OkStep(c) /\ c.op \in ValidOps) =>
      LET o == rts[c.x] IN
      /\ DOMAIN h2 = DOMAIN h /\ rts2 = rts
      /\ \A q \in DOMAIN h : q # o => h2[q] = h[q]
      /\ h2[o] = [h[o] EXCEPT !.valid = h2[o].valid, !.vo = h2[o].vo]
      /\ Len(h2[o].valid) = Len(h[o].valid)
      /\ (c.op = "setvalid" /\ c.a.kind = "norm") => \A k \in DOMAIN h2[o].valid : h2[o].valid[k] = (\E cc \in 1 .. h[o].nv : h[o].arr[k][cc] # 0)
      /\ (c.op = "setvalid" /\ c.a.kind = "none") => AllTrue(h2[o].valid)
      /\ (c.op = "mutatevalid") => h2[o].valid = FlipAt(h[o].valid, c.a.cell)
(* C02: a value update stores exactly the specification and touches nothing else (validity in particular) *)
P_Update(h, rts, h2, rts2, c) ==
   (OkStep(c) /\ c.op \in UpdateOps) =>
      LET o == rts[c.x] IN
      /\ DOMAIN h2 = DOMAIN h /\ rts2 = rts
      /\ \A q \in DOMAIN h : q # o => h2[q] = h[q]
      /\ h2[o] = [h[o] EXCEPT !.arr = h2[o].arr, !.vx = h2[o].vx]
      /\ (c.op \notin {"fromfield", "writearray"} => h2[o].vx)
      /\ (c.op = "writearray" /\ h[o].vx) => h2[o].vx /\ h2[o].arr = [h[o].arr EXCEPT ![c.a.cell] = [cc \in 1 .. h[o].nv |-> c.a.v + cc - 1]]
      /\ (c.op = "updateconst") => \A k \in DOMAIN h2[o].arr : h2[o].arr[k] = [cc \in 1 .. h[o].nv |-> c.a.c + cc - 1]
      (* C02: for a source field, the value of a source cell containing that centre *)
      /\ (c.op = "fromfield" /\ h[rts[c.y]].vx) => h2[o].vx /\ h2[o].arr = FromFieldArr(h, o, rts[c.y])
(* C03: the array is the expression evaluated cell by cell; labels and mapping of the operand with the result's components *)
P_Cellwise(h, rts, h2, rts2, c) ==
   (OkStep(c) /\ c.op \in AlgebraOps /\ Res(h2, rts2, c).vx) =>
      LET r == Res(h2, rts2, c)  s == Src(h, rts, c) IN
      /\ r.mesh = s.mesh
      /\ \A k \in DOMAIN r.arr :
            CASE c.op \in UnaryOps -> r.arr[k] = [cc \in 1 .. s.nv |-> UnVal(c.op, s.arr[k][cc])]
              [] c.op = "mulnum"   -> r.arr[k] = [cc \in 1 .. s.nv |-> s.arr[k][cc] * c.a.c]
              [] c.op = "addnum"   -> r.arr[k] = [cc \in 1 .. s.nv |-> s.arr[k][cc] + c.a.c]
              [] c.op = "pow2"     -> r.arr[k] = [cc \in 1 .. s.nv |-> s.arr[k][cc] * s.arr[k][cc]]
              [] c.op = "angle"    -> TRUE
              [] c.op = "comp"     -> r.arr[k] = <<s.arr[k][c.a.c]>>
              [] c.op = "lshift"   -> r.arr[k] = s.arr[k] \o h[rts[c.y]].arr[k]
              [] c.op = "dot"      -> r.arr[k] = <<Dot(s.arr[k], h[rts[c.y]].arr[k])>>
              [] c.op = "cross"    -> r.arr[k] = Cross(s.arr[k], h[rts[c.y]].arr[k])
              [] c.op \in LengthOps -> TRUE
              [] c.op \in BinaryOps -> \A cc \in 1 .. r.nv :
                    r.arr[k][cc] = BinVal(c.op, Bc(s.arr[k], cc, r.nv), Bc(h[rts[c.y]].arr[k], cc, r.nv))
(* C07 / C12: value and validity at any point of the result equal the source's at that same point (padding *)
(* cells follow the mode; a quarter turn carries the point and the mapped components along).  Stated through *)
(* cell centres and point lookup with exact rationals, independently of the index maps used by Apply.       *)
PadSrcIdx(mode, t, n) == IF 0 <= t /\ t < n THEN t ELSE CASE mode = "constant" -> -1 [] mode = "edge" -> Clip(t, 0, n - 1) [] mode = "wrap" -> t % n
PosAgree(so, rs, ns, go, rr, nr, c, ref) ==
   LET cs == [d \in DOMAIN ns |-> CellR(rs, ns, d)]          \* cell sizes of the source
       cr == [d \in DOMAIN nr |-> CellR(rr, nr, d)]          \* ... of the result
       xsel == IF c.op = "selplane" THEN RAdd(rs.lo[c.a.d], RMul(cs[c.a.d], <<2 * c.a.j + 1, 2>>)) ELSE RZero
       ca == IF c.op = "rotate90" /\ so.nv > 1 THEN CompAt(so, rs.dims, c.a.a) ELSE 0
       cb == IF c.op = "rotate90" /\ so.nv > 1 THEN CompAt(so, rs.dims, c.a.b) ELSE 0
   IN
   \A kk \in 1 .. ProdSeq(nr) :
      LET i  == Unflat(nr, kk - 1)
          p  == [d \in DOMAIN nr |-> RAdd(rr.lo[d], RMul(cr[d], <<2 * i[d] + 1, 2>>))]
          ps == CASE c.op = "selplane" -> FA!InsertAt(p, c.a.d, xsel)
                  [] c.op = "rotate90" -> RotPoint(p, c.a.a, c.a.b, 0 - c.a.k, ref)
                  [] OTHER -> p
          raw == [d \in DOMAIN ns |-> RFloor(RDiv(RSub(ps[d], rs.lo[d]), cs[d]))]    \* may lie outside for padding
          inside == \A d \in DOMAIN ns : 0 <= raw[d] /\ raw[d] < ns[d]
          j  == IF c.op = "pad" THEN [d \in DOMAIN ns |-> IF d = c.a.d THEN PadSrcIdx(c.a.mode, raw[d], ns[d]) ELSE raw[d]] ELSE raw
          fill == \E d \in DOMAIN ns : j[d] < 0
      IN /\ (c.op # "pad" => inside)
         /\ IF fill THEN ~go.valid[kk] /\ (so.vx => go.arr[kk] = ZeroVec(so.nv))
            ELSE /\ go.valid[kk] = At(ns, so.valid, j)
                 /\ so.vx => go.arr[kk] = (IF c.op = "rotate90" /\ so.nv > 1 THEN RotVec(At(ns, so.arr, j), ca, cb, c.a.k) ELSE At(ns, so.arr, j))
P_PositionsKept(h, rts, h2, rts2, c) ==
   (OkStep(c) /\ (c.op \in SelOps \/ (c.op = "rotate90" /\ c.tg = "self" /\ IsF(h, rts[c.x])))) =>
      LET f == rts[c.x]
          g == IF c.op = "rotate90" /\ c.ip THEN f ELSE rts2[c.dst]
          ref == IF c.op = "rotate90" THEN (IF c.a.ref = <<>> THEN RegCentre(FR(h, f)) ELSE c.a.ref) ELSE <<>>
      IN /\ PosAgree(h[f], FR(h, f), FN(h, f), h2[g], FR(h2, g), FN(h2, g), c, ref)
         /\ h2[g].nv = h[f].nv /\ h2[g].lab = h[f].lab /\ h2[g].map = h[f].map
(* C07: the result mesh is cell-aligned with the source; padding adds the requested cells; resampling keeps the region *)
P_CellAligned(h, rts, h2, rts2, c) ==
   (OkStep(c) /\ c.op \in SelOps) =>
      LET f == rts[c.x]  g == rts2[c.dst]
          rs == FR(h, f)  ns == FN(h, f)  rr == FR(h2, g)  nr == FN(h2, g)
          ax(d) == IF c.op = "selplane" /\ d >= c.a.d THEN d + 1 ELSE d          \* source axis of result axis d
      IN /\ Len(nr) = (IF c.op = "selplane" THEN Len(ns) - 1 ELSE Len(ns))
         /\ \A d \in DOMAIN nr :
               /\ c.op # "resample" => CellR(rr, nr, d) = CellR(rs, ns, ax(d))
               /\ RIsInt(RDiv(RSub(rr.lo[d], rs.lo[ax(d)]), CellR(rs, ns, ax(d))))
               /\ rr.units[d] = rs.units[ax(d)] /\ rr.dims[d] = rs.dims[ax(d)]
         /\ (c.op = "pad") => nr = [ns EXCEPT ![c.a.d] = @ + c.a.l + c.a.r]
         /\ (c.op = "resample") => rr = rs /\ nr = c.a.n
         /\ (c.op = "selrange") => nr = [ns EXCEPT ![c.a.d] = c.a.j2 - c.a.j1 + 1]
         /\ (c.op = "getsub") => rr = h[FM(h, f).sub[c.a.s]]
(* C14: selections keep exactly the subregions that overlap the selection, clipped to it *)
P_SelSubregions(h, rts, h2, rts2, c) ==
   (OkStep(c) /\ c.op = "selrange") =>
      LET f == rts[c.x]  g == rts2[c.dst]  mo == FM(h, f)  mr == FM(h2, g)  rr == FR(h2, g)  d == c.a.d IN
      /\ \A s \in DOMAIN mo.sub :
            LET so == h[mo.sub[s]]
                ov == RLess(so.lo[d], rr.hi[d]) /\ RLess(rr.lo[d], so.hi[d])
            IN IF ~ov THEN \A t \in DOMAIN mr.names : mr.names[t] # mo.names[s]
               ELSE \E t \in DOMAIN mr.names : /\ mr.names[t] = mo.names[s]
                                               /\ h2[mr.sub[t]].lo = [so.lo EXCEPT ![d] = RMax(rr.lo[d], so.lo[d])]
                                               /\ h2[mr.sub[t]].hi = [so.hi EXCEPT ![d] = RMin(rr.hi[d], so.hi[d])]
      /\ Len(mr.names) <= Len(mo.names)
(* C06: a directional integral lives on the mesh with that axis removed, with the components, labels of the source *)
P_Integrate(h, rts, h2, rts2, c) ==
   (OkStep(c) /\ c.op \in {"integrate", "mean"}) =>
      LET f == rts[c.x]  g == rts2[c.dst]  rs == FR(h, f)  rr == FR(h2, g)  d == c.a.d IN
      /\ rr.lo = RemoveAt(rs.lo, d) /\ rr.hi = RemoveAt(rs.hi, d) /\ rr.dims = RemoveAt(rs.dims, d) /\ rr.units = RemoveAt(rs.units, d)
      /\ FN(h2, g) = RemoveAt(FN(h, f), d) /\ h2[g].shape = FN(h2, g)
      /\ h2[g].nv = h[f].nv /\ h2[g].lab = h[f].lab
(* C06: the cumulative integral keeps the mesh, the components and the labels *)
P_IntegrateCum(h, rts, h2, rts2, c) ==
   (OkStep(c) /\ c.op = "integratecum") =>
      LET f == rts[c.x]  g == rts2[c.dst] IN
      /\ FR(h2, g) = FR(h, f) /\ FN(h2, g) = FN(h, f) /\ h2[g].shape = h[f].shape
      /\ h2[g].nv = h[f].nv /\ h2[g].lab = h[f].lab
(* C14: an accepted assignment leaves exactly the requested subregion, well formed; a refused one is covered by DF_RejectUnchanged *)
P_SetSub(h, rts, h2, rts2, c) ==
   (OkStep(c) /\ c.op = "setsub") =>
      LET m == h[rts[c.x]].mesh  bx == SetSubBox(h, m, c.a) IN
      /\ SetSubAccepted(h, m, c.a)
      /\ h2[m].names = <<"t">> /\ Len(h2[m].sub) = 1
      /\ h2[h2[m].sub[1]].lo = bx.lo /\ h2[h2[m].sub[1]].hi = bx.hi
      /\ h2[m].n = h[m].n /\ h2[h2[m].region] = h[h[m].region]
      /\ SubsWellFormed(h2, m)
(* renaming the components changes the labels of that field and nothing else *)
P_Relabel(h, rts, h2, rts2, c) ==
   (OkStep(c) /\ c.op = "setvdims") => /\ h2 = [h EXCEPT ![rts[c.x]].lab = c.a.lab] /\ rts2 = rts
                                       /\ Len(c.a.lab) = h[rts[c.x]].nv /\ Uniq(c.a.lab)
(* a query answers and modifies nothing *)
P_QueryPure(h, rts, h2, rts2, c) == c.op \in QueryOps => h2 = h /\ rts2 = rts
(* C10 / C09 / C16 / C17: a write + read round trip is the identity on the attributes the property lists *)
DeepSubs(h, m) == [s \in DOMAIN h[m].sub |-> [name |-> h[m].names[s], lo |-> h[h[m].sub[s]].lo, hi |-> h[h[m].sub[s]].hi]]
P_Persist(h, rts, h2, rts2, c) ==
   (OkStep(c) /\ c.op \in PersistOps) =>
      LET f == rts[c.x]  g == rts2[c.dst]  a == h[f]  b == h2[g] IN
      /\ FR(h2, g).lo = FR(h, f).lo /\ FR(h2, g).hi = FR(h, f).hi /\ FN(h2, g) = FN(h, f)
      /\ FR(h2, g).dims = FR(h, f).dims /\ FR(h2, g).units = FR(h, f).units       \* listed by C10, C17; trivial for OVF/VTK (InModel)
      /\ DeepSubs(h2, b.mesh) = DeepSubs(h, a.mesh)                                \* C10, C09 and C16 side-car; xarray: none (InModel)
      /\ b.nv = a.nv /\ b.lab = a.lab /\ b.shape = a.shape
      /\ (a.vx => b.arr = a.arr) /\ b.valid = a.valid                              \* OVF / xarray: all valid (InModel)
      /\ (b.mx => b.map = a.map)
      /\ g \notin DOMAIN h /\ b.mesh \notin DOMAIN h
(* C13: in place == copy, the in-place form returns the object itself, each step realises its affine map *)
DDeepMesh(h, m) == [n |-> h[m].n, region |-> h[h[m].region], sub |-> [j \in DOMAIN h[m].sub |-> h[h[m].sub[j]]], names |-> h[m].names]
DDeep(h, o) == CASE IsR(h, o) -> h[o]
                 [] IsM(h, o) -> DDeepMesh(h, o)
                 [] IsF(h, o) -> [mesh |-> DDeepMesh(h, h[o].mesh), f |-> [h[o] EXCEPT !.mesh = 0, !.vo = 0, !.ao = 0]]
GeoOk(c) == OkStep(c) /\ c.op \in GeoOps
P_InplaceEqualsCopy(h, rts, h2, rts2, c) ==
   GeoOk(c) => LET t == Target(h, rts, c.x, c.tg)
                   cp == DCopying(h, t, c.op, c.a)
                   after == IF c.ip THEN t ELSE rts2[c.dst]
               IN DDeep(h2, after) = DDeep(cp[1], cp[2])
P_InplaceReturnsSelf(h, rts, h2, rts2, c) == (GeoOk(c) /\ c.ip) => rts2 = rts /\ DOMAIN h2 = DOMAIN h
ImageOf(c, reg, p) == LET ref == IF c.a.ref = <<>> THEN RegCentre(reg) ELSE c.a.ref IN
                      CASE c.op = "translate" -> RVAdd(p, c.a.v)
                        [] c.op = "scale"     -> ScalePoint(p, c.a.s, ref)
                        [] c.op = "rotate90"  -> RotPoint(p, c.a.a, c.a.b, c.a.k, ref)
P_AffineExact(h, rts, h2, rts2, c) ==
   GeoOk(c) => LET t == Target(h, rts, c.x, c.tg)
                   after == IF c.ip THEN t ELSE rts2[c.dst]
                   b == OwnRegion(h, t)
                   a == OwnRegion(h2, after)
               IN /\ a.lo = RVMin(ImageOf(c, b, b.lo), ImageOf(c, b, b.hi))
                  /\ a.hi = RVMax(ImageOf(c, b, b.lo), ImageOf(c, b, b.hi))
                  /\ a.dims = b.dims
                  /\ a.units = (IF c.op = "rotate90" /\ OddK(c.a.k) THEN SwapAt(b.units, c.a.a, c.a.b) ELSE b.units)
(* C08 once more, as a step clause: after any call every field still has its own validity array *)
P_OwnValidity(h, rts, h2, rts2, c) == S_OwnValidity(h) => S_OwnValidity(h2)
StepAll(h, rts, h2, rts2, c) ==
   /\ P_RejectUnchanged(h, rts, h2, rts2, c) /\ P_OperandsUnchanged(h, rts, h2, rts2, c) /\ P_ValidityRule(h, rts, h2, rts2, c)
   /\ P_SetValid(h, rts, h2, rts2, c) /\ P_Update(h, rts, h2, rts2, c) /\ P_Cellwise(h, rts, h2, rts2, c)
   /\ P_PositionsKept(h, rts, h2, rts2, c) /\ P_CellAligned(h, rts, h2, rts2, c) /\ P_SelSubregions(h, rts, h2, rts2, c)
   /\ P_Persist(h, rts, h2, rts2, c) /\ P_InplaceEqualsCopy(h, rts, h2, rts2, c) /\ P_InplaceReturnsSelf(h, rts, h2, rts2, c)
   /\ P_AffineExact(h, rts, h2, rts2, c) /\ P_Integrate(h, rts, h2, rts2, c) /\ P_IntegrateCum(h, rts, h2, rts2, c) /\ P_SetSub(h, rts, h2, rts2, c)
   /\ P_QueryPure(h, rts, h2, rts2, c) /\ P_Relabel(h, rts, h2, rts2, c)


(* the step clauses as a set of names of those that fail: `viol` holds it for the last call, so that every   *)
(* clause is also a plain state invariant (TLC evaluates unprimed operator applications much faster)          *)
ClauseNames == {"DF_RejectUnchanged", "DF_OperandsUnchanged", "DF_ValidityRule", "DF_SetValid", "DF_Update", "DF_Cellwise",
                "DF_PositionsKept", "DF_CellAligned", "DF_SelSubregions", "DF_Persist", "DF_InplaceEqualsCopy",
                "DF_InplaceReturnsSelf", "DF_AffineExact", "DF_Integrate", "DF_SetSub", "DF_QueryPure", "DF_Relabel"}
ClauseHolds(nm, h, rts, h2, rts2, c) ==
   CASE nm = "DF_RejectUnchanged"    -> P_RejectUnchanged(h, rts, h2, rts2, c)
     [] nm = "DF_OperandsUnchanged"  -> P_OperandsUnchanged(h, rts, h2, rts2, c)
     [] nm = "DF_ValidityRule"       -> P_ValidityRule(h, rts, h2, rts2, c)
     [] nm = "DF_SetValid"           -> P_SetValid(h, rts, h2, rts2, c)
     [] nm = "DF_Update"             -> P_Update(h, rts, h2, rts2, c)
     [] nm = "DF_Cellwise"           -> P_Cellwise(h, rts, h2, rts2, c)
     [] nm = "DF_PositionsKept"      -> P_PositionsKept(h, rts, h2, rts2, c)
     [] nm = "DF_CellAligned"        -> P_CellAligned(h, rts, h2, rts2, c)
     [] nm = "DF_SelSubregions"      -> P_SelSubregions(h, rts, h2, rts2, c)
     [] nm = "DF_Persist"            -> P_Persist(h, rts, h2, rts2, c)
     [] nm = "DF_InplaceEqualsCopy"  -> P_InplaceEqualsCopy(h, rts, h2, rts2, c)
     [] nm = "DF_InplaceReturnsSelf" -> P_InplaceReturnsSelf(h, rts, h2, rts2, c)
     [] nm = "DF_AffineExact"        -> P_AffineExact(h, rts, h2, rts2, c)
     [] nm = "DF_Integrate"          -> P_Integrate(h, rts, h2, rts2, c) /\ P_IntegrateCum(h, rts, h2, rts2, c)
     [] nm = "DF_SetSub"             -> P_SetSub(h, rts, h2, rts2, c)
     [] nm = "DF_QueryPure"          -> P_QueryPure(h, rts, h2, rts2, c)
     [] nm = "DF_Relabel"            -> P_Relabel(h, rts, h2, rts2, c)
Failed(h, rts, h2, rts2, c) == {nm \in ClauseNames : ~ClauseHolds(nm, h, rts, h2, rts2, c)}

(* ---- the actions: one named action per public call ------------------------------------------- *)
En(name) == name \in Acts /\ Len(hist) <= MaxDepth
Do(c) == /\ InModel(heap, roots, c)
         /\ \E r \in {TLCEval(Apply(heap, roots, c))} :       \* evaluated once, eagerly (TLC keeps function constructors lazy)
               /\ heap' = r.heap
               /\ roots' = r.roots
               /\ hist' = Append(hist, Done(c, r.outcome))
               /\ viol' = Failed(heap, roots, r.heap, r.roots, Done(c, r.outcome))
         /\ AliasGuard'
FR0 == FieldRoots(heap, roots)
NDx(x) == Len(FN(heap, roots[x]))
GeoVars == DOMAIN roots
TgND(x, tg) == RegND(OwnRegion(heap, Target(heap, roots, x, tg)))
CopyDst(x, tg) == LET t == Target(heap, roots, x, tg) IN IF IsR(heap, t) THEN {"r"} ELSE IF IsM(heap, t) THEN {"m"} ELSE Dsts(roots, x)
Tgs(x) == IF IsF(heap, roots[x]) THEN (IF Rich THEN {"mesh", "region"} ELSE {"mesh"})
          ELSE IF IsM(heap, roots[x]) THEN (IF Rich THEN {"self", "region"} ELSE {"self"}) ELSE {"self"}
PlaneIdx(n) == IF Rich THEN 0 .. (n - 1) ELSE {n - 1}
RangeIdx(n) == IF Rich THEN {p \in (0 .. (n - 1)) \X (0 .. (n - 1)) : p[1] <= p[2] /\ p[2] - p[1] + 1 < n}
               ELSE IF n > 1 THEN {<<1, n - 1>>} ELSE {}

Translate == En("Translate") /\ \E x \in GeoVars : \E tg \in Tgs(x), v \in TransVs, ip \in BOOLEAN : \E dst \in (IF ip THEN {x} ELSE CopyDst(x, tg)) :
                Do(MkCall("translate", x, "", dst, tg, ip, [v |-> Cut(v, TgND(x, tg))]))
Scale     == En("Scale") /\ \E x \in GeoVars : \E tg \in Tgs(x), s \in ScaleFs, ip \in BOOLEAN : \E dst \in (IF ip THEN {x} ELSE CopyDst(x, tg)) :
                Do(MkCall("scale", x, "", dst, tg, ip, [s |-> Cut(s, TgND(x, tg)), ref |-> <<>>]))
AxisPairs(nd) == {p \in RotPairs : p[1] <= nd /\ p[2] <= nd /\ p[1] # p[2]}
MeshRotate90 == En("MeshRotate90") /\ \E x \in GeoVars : \E tg \in Tgs(x), k \in RotKs, ip \in BOOLEAN : \E dst \in (IF ip THEN {x} ELSE CopyDst(x, tg)) :
                \E p \in AxisPairs(TgND(x, tg)) :
                   Do(MkCall("rotate90", x, "", dst, tg, ip, [a |-> p[1], b |-> p[2], k |-> k, ref |-> <<>>]))
FieldRotate90 == En("FieldRotate90") /\ \E x \in FR0 : \E k \in RotKs, ref \in RotRefs, ip \in BOOLEAN : \E dst \in (IF ip THEN {x} ELSE Dsts(roots, x)) :
                \E p \in AxisPairs(NDx(x)) :
                   Do(MkCall("rotate90", x, "", dst, "self", ip, [a |-> p[1], b |-> p[2], k |-> k, ref |-> Cut(ref, NDx(x))]))
MkField   == En("MkField") /\ \E x \in DOMAIN roots : IsM(heap, roots[x]) /\ \E nv \in {1, Len(heap[roots[x]].n)}, dst \in Dsts(roots, "f") :
                Do(MkCall("mkfield", x, "", dst, "self", FALSE, [nv |-> nv, p |-> 3]))
Neg       == En("Neg") /\ \E x \in FR0 : \E dst \in Dsts(roots, x) : Do(MkCall("neg", x, "", dst, "self", FALSE, NoA))
(* `+f` is modelled with f = +f only: whether the library returns the operand itself (documented; known *)
(* finding of C08) or a copy is then not observable in the object graph                                 *)
Pos       == En("Pos") /\ \E x \in FR0 : Do(MkCall("pos", x, "", x, "self", FALSE, NoA))
Abs_      == En("Abs") /\ \E x \in FR0 : \E dst \in Dsts(roots, x) : Do(MkCall("abs", x, "", dst, "self", FALSE, NoA))
Add       == En("Add") /\ \E x \in FR0, y \in FR0 : \E dst \in Dsts(roots, x) : Do(MkCall("add", x, y, dst, "self", FALSE, NoA))
Mul       == En("Mul") /\ \E x \in FR0, y \in FR0 : \E dst \in Dsts(roots, x) : Do(MkCall("mul", x, y, dst, "self", FALSE, NoA))
MulNum    == En("MulNum") /\ \E x \in FR0, cc \in Nums : \E dst \in Dsts(roots, x) : Do(MkCall("mulnum", x, "", dst, "self", FALSE, [c |-> cc]))
Comp      == En("Comp") /\ \E x \in FR0 : \E cc \in 1 .. heap[roots[x]].nv, dst \in Dsts(roots, x) : Do(MkCall("comp", x, "", dst, "self", FALSE, [c |-> cc]))
Sub       == En("Sub") /\ \E x \in FR0, y \in FR0 : \E dst \in Dsts(roots, x) : Do(MkCall("sub", x, y, dst, "self", FALSE, NoA))
AddNum    == En("AddNum") /\ \E x \in FR0, cc \in Nums : \E dst \in Dsts(roots, x) : Do(MkCall("addnum", x, "", dst, "self", FALSE, [c |-> cc]))
Pow2      == En("Pow2") /\ \E x \in FR0 : \E dst \in Dsts(roots, x) : Do(MkCall("pow2", x, "", dst, "self", FALSE, NoA))
AngleP    == En("Angle") /\ \E x \in FR0, y \in FR0 : \E dst \in Dsts(roots, x) : Do(MkCall("angle", x, y, dst, "self", FALSE, NoA))
IntegrateCum == En("IntegrateCum") /\ \E x \in FR0 : \E d \in 1 .. NDx(x), dst \in Dsts(roots, x) : Do(MkCall("integratecum", x, "", dst, "self", FALSE, [d |-> d]))
DotP      == En("Dot") /\ \E x \in FR0, y \in FR0 : \E dst \in Dsts(roots, x) : Do(MkCall("dot", x, y, dst, "self", FALSE, NoA))
CrossP    == En("Cross") /\ \E x \in FR0, y \in FR0 : \E dst \in Dsts(roots, x) : Do(MkCall("cross", x, y, dst, "self", FALSE, NoA))
Norm      == En("Norm") /\ \E x \in FR0 : \E dst \in Dsts(roots, x) : Do(MkCall("norm", x, "", dst, "self", FALSE, NoA))
Orientation == En("Orientation") /\ \E x \in FR0 : \E dst \in Dsts(roots, x) : Do(MkCall("orientation", x, "", dst, "self", FALSE, NoA))
Integrate == En("Integrate") /\ \E x \in FR0 : \E d \in 1 .. NDx(x), dst \in Dsts(roots, x) : Do(MkCall("integrate", x, "", dst, "self", FALSE, [d |-> d]))
Mean      == En("Mean") /\ \E x \in FR0 : \E d \in 1 .. NDx(x), dst \in Dsts(roots, x) : Do(MkCall("mean", x, "", dst, "self", FALSE, [d |-> d]))
FromField == En("FromField") /\ \E x \in FR0, y \in FR0 : Do(MkCall("fromfield", x, y, x, "self", TRUE, NoA))
(* boxes offered to the setter: first cell .. last cell but one layer (accepted), the same shifted by half a cell and one reaching a cell beyond the mesh (refused) *)
SubBoxes(n) == {[a |-> [d \in DOMAIN n |-> 0], b |-> [d \in DOMAIN n |-> IF n[d] > 1 THEN n[d] - 2 ELSE 0], sh |-> FALSE],
                [a |-> [d \in DOMAIN n |-> 0], b |-> [d \in DOMAIN n |-> IF n[d] > 1 THEN n[d] - 2 ELSE 0], sh |-> TRUE]}
               \cup (IF Rich THEN {[a |-> [d \in DOMAIN n |-> n[d] - 1], b |-> [d \in DOMAIN n |-> n[d]], sh |-> FALSE],
                                   [a |-> [d \in DOMAIN n |-> n[d] - 1], b |-> [d \in DOMAIN n |-> n[d] - 1], sh |-> FALSE]} ELSE {})
SetSub    == En("SetSub") /\ \E x \in FR0 : \E bx \in SubBoxes(FN(heap, roots[x])) : Do(MkCall("setsub", x, "", x, "mesh", TRUE, bx))
QMeshClose  == En("QMeshClose") /\ \E x \in FR0, y \in FR0 : Do(MkCall("q_meshclose", x, y, x, "self", FALSE, NoA))
QFieldClose == En("QFieldClose") /\ \E x \in FR0, y \in FR0 : Do(MkCall("q_fieldclose", x, y, x, "self", FALSE, NoA))
QRegionIn   == En("QRegionIn") /\ \E x \in FR0, y \in FR0 : Do(MkCall("q_regionin", x, y, x, "self", FALSE, NoA))
QAligned    == En("QAligned") /\ \E x \in FR0, y \in FR0 : Do(MkCall("q_aligned", x, y, x, "self", FALSE, NoA))
QEq         == En("QEq") /\ \E x \in FR0, y \in FR0 : Do(MkCall("q_eq", x, y, x, "self", FALSE, NoA))
QMean       == En("QMean") /\ \E x \in FR0 : Do(MkCall("q_mean", x, "", x, "self", FALSE, NoA))
QCall       == En("QCall") /\ \E x \in FR0 : \E k \in (IF Rich THEN {1, Len(heap[roots[x]].arr)} ELSE {1}) : Do(MkCall("q_call", x, "", x, "self", FALSE, [cell |-> k]))
(* labels offered: fresh names, the same in another order, a repeated name and one name too many (refused) *)
LabelSets(nv) == {SubSeq(<<"a", "b", "c", "d">>, 1, nv), SubSeq(<<"d", "c", "b", "a">>, 1, nv)}
                 \cup (IF Rich THEN {[i \in 1 .. nv |-> IF i = nv /\ nv > 1 THEN "a" ELSE <<"a", "b", "c", "d">>[i]],
                                     SubSeq(<<"a", "b", "c", "d", "e">>, 1, nv + 1)} ELSE {})
SetVdims    == En("SetVdims") /\ \E x \in FR0 : \E ls \in LabelSets(heap[roots[x]].nv) : Do(MkCall("setvdims", x, "", x, "self", TRUE, [lab |-> ls]))
LShift    == En("LShift") /\ \E x \in FR0, y \in FR0 : \E dst \in Dsts(roots, x) : Do(MkCall("lshift", x, y, dst, "self", FALSE, NoA))
Diff      == En("Diff") /\ \E x \in FR0 : \E d \in 1 .. NDx(x), dst \in Dsts(roots, x) : Do(MkCall("diff", x, "", dst, "self", FALSE, [d |-> d]))
SetValidArray == En("SetValidArray") /\ \E x \in FR0, b \in Masks : Do(MkCall("setvalid", x, "", x, "self", TRUE, [kind |-> "array", mask |-> MaskOf(b, Len(heap[roots[x]].valid))]))
SetValidNorm  == En("SetValidNorm") /\ \E x \in FR0 : Do(MkCall("setvalid", x, "", x, "self", TRUE, [kind |-> "norm", mask |-> <<>>]))
SetValidNone  == En("SetValidNone") /\ \E x \in FR0 : Do(MkCall("setvalid", x, "", x, "self", TRUE, [kind |-> "none", mask |-> <<>>]))
MutateValid   == En("MutateValid") /\ \E x \in FR0 : \E k \in (IF Rich THEN {1, Len(heap[roots[x]].valid)} ELSE {1}) : Do(MkCall("mutatevalid", x, "", x, "self", TRUE, [cell |-> k]))
UpdateConst   == En("UpdateConst") /\ \E x \in FR0, cc \in Nums : Do(MkCall("updateconst", x, "", x, "self", TRUE, [c |-> cc]))
WriteArray    == En("WriteArray") /\ \E x \in FR0 : \E k \in (IF Rich THEN {1, Len(heap[roots[x]].arr)} ELSE {1}) : Do(MkCall("writearray", x, "", x, "self", TRUE, [cell |-> k, v |-> 7]))
SetArray      == En("SetArray") /\ \E x \in FR0 : Do(MkCall("setarray", x, "", x, "self", TRUE, [p |-> 5]))
SelPlane  == En("SelPlane") /\ \E x \in FR0 : \E d \in 1 .. NDx(x), dst \in Dsts(roots, x) : \E j \in PlaneIdx(FN(heap, roots[x])[d]) :
                Do(MkCall("selplane", x, "", dst, "self", FALSE, [d |-> d, j |-> j]))
SelRange  == En("SelRange") /\ \E x \in FR0 : \E d \in 1 .. NDx(x), dst \in Dsts(roots, x) : \E p \in RangeIdx(FN(heap, roots[x])[d]) :
                Do(MkCall("selrange", x, "", dst, "self", FALSE, [d |-> d, j1 |-> p[1], j2 |-> p[2]]))
GetSub    == En("GetSub") /\ \E x \in FR0 : \E s \in DOMAIN FM(heap, roots[x]).sub, dst \in Dsts(roots, x) :
                Do(MkCall("getsub", x, "", dst, "self", FALSE, [s |-> s]))
(* blocks: the first cell, the last cell, everything but the first layer of every axis *)
Blocks(n) == {<<[d \in DOMAIN n |-> IF n[d] > 1 THEN 1 ELSE 0], [d \in DOMAIN n |-> n[d] - 1]>>}
             \cup (IF Rich THEN {<<[d \in DOMAIN n |-> 0], [d \in DOMAIN n |-> 0]>>, <<[d \in DOMAIN n |-> n[d] - 1], [d \in DOMAIN n |-> n[d] - 1]>>} ELSE {})
GetRegion == En("GetRegion") /\ \E x \in FR0 : \E bl \in Blocks(FN(heap, roots[x])), dst \in Dsts(roots, x) :
                Do(MkCall("getregion", x, "", dst, "self", FALSE, [a |-> bl[1], b |-> bl[2]]))
Pad       == En("Pad") /\ \E x \in FR0 : \E d \in 1 .. NDx(x), ps \in PadSpecs, dst \in Dsts(roots, x) :
                /\ ProdSeq(FN(heap, roots[x])) <= 12
                /\ Do(MkCall("pad", x, "", dst, "self", FALSE, [d |-> d, l |-> ps[1], r |-> ps[2], mode |-> ps[3]]))
Resample  == En("Resample") /\ \E x \in FR0 : \E dst \in Dsts(roots, x) : Do(MkCall("resample", x, "", dst, "self", FALSE, [n |-> FN(heap, roots[x])]))
H5        == En("H5") /\ \E x \in FR0 : \E dst \in Dsts(roots, x) : Do(MkCall("h5", x, "", dst, "self", FALSE, NoA))
Ovf       == En("Ovf") /\ \E x \in FR0 : \E dst \in Dsts(roots, x) : Do(MkCall("ovf", x, "", dst, "self", FALSE, NoA))
Vtk       == En("Vtk") /\ \E x \in FR0 : \E dst \in Dsts(roots, x) : Do(MkCall("vtk", x, "", dst, "self", FALSE, NoA))
Xarray    == En("Xarray") /\ \E x \in FR0 : \E dst \in Dsts(roots, x) : Do(MkCall("xarray", x, "", dst, "self", FALSE, NoA))

Init == \E sc \in Scenarios :
          /\ heap = ScenarioHeap(sc).h
          /\ roots = ScenarioHeap(sc).r
          /\ hist = <<Done(MkCall("init", sc, "", "", "self", FALSE, NoA), "ok")>>
          /\ viol = {}
Next == \/ Translate \/ Scale \/ MeshRotate90 \/ FieldRotate90 \/ MkField
        \/ Neg \/ Pos \/ Abs_ \/ Add \/ Mul \/ MulNum \/ Comp \/ LShift \/ Diff
        \/ Sub \/ DotP \/ CrossP \/ Norm \/ Orientation \/ Integrate \/ FromField \/ SetSub
        \/ QMeshClose \/ QFieldClose \/ QRegionIn \/ QAligned \/ QEq \/ QMean \/ QCall \/ Mean \/ SetVdims
        \/ AddNum \/ Pow2 \/ AngleP \/ IntegrateCum
        \/ SetValidArray \/ SetValidNorm \/ SetValidNone \/ MutateValid \/ UpdateConst \/ SetArray \/ WriteArray
        \/ SelPlane \/ SelRange \/ GetSub \/ GetRegion \/ Pad \/ Resample
        \/ H5 \/ Ovf \/ Vtk \/ Xarray
Spec == Init /\ [][Next]_vars
DF_Depth == TLCGet("level") <= MaxDepth + 2

DF_RejectUnchanged    == [][P_RejectUnchanged(heap, roots, heap', roots', Last')]_vars
DF_OperandsUnchanged  == [][P_OperandsUnchanged(heap, roots, heap', roots', Last')]_vars
DF_ValidityRule       == [][P_ValidityRule(heap, roots, heap', roots', Last')]_vars
DF_SetValid           == [][P_SetValid(heap, roots, heap', roots', Last')]_vars
DF_Update             == [][P_Update(heap, roots, heap', roots', Last')]_vars
DF_Cellwise           == [][P_Cellwise(heap, roots, heap', roots', Last')]_vars
DF_PositionsKept      == [][P_PositionsKept(heap, roots, heap', roots', Last')]_vars
DF_CellAligned        == [][P_CellAligned(heap, roots, heap', roots', Last')]_vars
DF_SelSubregions      == [][P_SelSubregions(heap, roots, heap', roots', Last')]_vars
DF_Persist            == [][P_Persist(heap, roots, heap', roots', Last')]_vars
DF_InplaceEqualsCopy  == [][P_InplaceEqualsCopy(heap, roots, heap', roots', Last')]_vars
DF_InplaceReturnsSelf == [][P_InplaceReturnsSelf(heap, roots, heap', roots', Last')]_vars
DF_AffineExact        == [][P_AffineExact(heap, roots, heap', roots', Last')]_vars
DF_Integrate          == [][P_Integrate(heap, roots, heap', roots', Last') /\ P_IntegrateCum(heap, roots, heap', roots', Last')]_vars
DF_SetSub             == [][P_SetSub(heap, roots, heap', roots', Last')]_vars
DF_QueryPure          == [][P_QueryPure(heap, roots, heap', roots', Last')]_vars
DF_Relabel            == [][P_Relabel(heap, roots, heap', roots', Last')]_vars
(* the same clauses as state invariants over `viol` *)
DF_RejectUnchanged_S    == "DF_RejectUnchanged" \notin viol
DF_OperandsUnchanged_S  == "DF_OperandsUnchanged" \notin viol
DF_ValidityRule_S       == "DF_ValidityRule" \notin viol
DF_SetValid_S           == "DF_SetValid" \notin viol
DF_Update_S             == "DF_Update" \notin viol
DF_Cellwise_S           == "DF_Cellwise" \notin viol
DF_PositionsKept_S      == "DF_PositionsKept" \notin viol
DF_CellAligned_S        == "DF_CellAligned" \notin viol
DF_SelSubregions_S      == "DF_SelSubregions" \notin viol
DF_Persist_S            == "DF_Persist" \notin viol
DF_InplaceEqualsCopy_S  == "DF_InplaceEqualsCopy" \notin viol
DF_InplaceReturnsSelf_S == "DF_InplaceReturnsSelf" \notin viol
DF_AffineExact_S        == "DF_AffineExact" \notin viol
DF_Integrate_S          == "DF_Integrate" \notin viol
DF_SetSub_S             == "DF_SetSub" \notin viol
DF_QueryPure_S          == "DF_QueryPure" \notin viol
DF_Relabel_S            == "DF_Relabel" \notin viol
=============================================================================
