------------------------------ MODULE MC_C18 ------------------------------
EXTENDS C18

(* ---- meshes: 6x5x4 style (at least four cells per axis so that the "one cell inside" *)
(* class is not empty); A cubic, B anisotropic with a half-integer centre, C cubic      *)
MeshA == [lo |-> <<0, 0, 0>>,   c |-> <<2, 2, 2>>, n |-> <<6, 5, 4>>]
MeshB == [lo |-> <<-7, 3, 10>>, c |-> <<2, 1, 3>>, n |-> <<6, 5, 4>>]
MeshC == [lo |-> <<1, -2, 0>>,  c |-> <<1, 1, 1>>, n |-> <<4, 6, 5>>]
Mesh2 == [lo |-> <<0, 0>>,      c |-> <<2, 2>>,    n |-> <<4, 5>>]
Mesh1 == [lo |-> <<0>>,         c |-> <<2>>,       n |-> <<6>>]
Mesh4 == [lo |-> <<0, 0, 0, 0>>, c |-> <<2, 2, 2, 2>>, n |-> <<2, 3, 2, 2>>]

Z3 == <<0, 0, 0>>
Vec(v, map)  == [kind |-> "vec", nv |-> Len(v), v |-> v, map |-> map, a |-> Z3, b |-> 0, src |-> <<>>]
Aff(a, b)    == [kind |-> "aff", nv |-> 1, v |-> <<>>, map |-> <<>>, a |-> a, b |-> b, src |-> <<>>]
Base(s)      == 1 + s[1] + 7 * s[2] + 43 * s[3]
CellsS(me)   == [kind |-> "cells", nv |-> 1, v |-> <<>>, map |-> <<>>, a |-> Z3, b |-> 0,
                 src |-> MkArr(me.n, LAMBDA s : <<Base(s)>>)]
CellsV(me, map) == [kind |-> "cells", nv |-> 3, v |-> <<>>, map |-> map, a |-> Z3, b |-> 0,
                 src |-> MkArr(me.n, LAMBDA s : <<Base(s), -(Base(s) + 300), 2 * Base(s) + 600>>)]

Small(s)     == ((s[1] + 2 * s[2] + 3 * s[3] + s[1] * s[2] + s[2] * s[3] * s[1]) % 17) - 8
SmallS(me)   == [kind |-> "cells", nv |-> 1, v |-> <<>>, map |-> <<>>, a |-> Z3, b |-> 0,
                 src |-> MkArr(me.n, LAMBDA s : <<Small(s)>>)]
SmallV(me, map) == [kind |-> "cells", nv |-> 3, v |-> <<>>, map |-> map, a |-> Z3, b |-> 0,
                 src |-> MkArr(me.n, LAMBDA s : <<Small(s), 1 - Small(s), ((Small(s) * Small(s)) % 7) - 3>>)]
SmallCfg(me) == {<<me, SmallS(me)>>, <<me, SmallV(me, <<2, 3, 1>>)>>}
Good(me) == {<<me, Vec(<<1, 2, 3>>, <<1, 2, 3>>)>>,
             <<me, Vec(<<2, -1, 3>>, <<2, 3, 1>>)>>,
             <<me, Aff(<<2, -1, 1>>, 3)>>}
GoodMore(me) == {<<me, Vec(<<-1, 0, 2>>, <<3, 2, 1>>)>>,
                 <<me, Vec(<<1, 1, -2>>, <<1, 3, 2>>)>>,
                 <<me, Aff(<<-1, 2, 2>>, -4)>>,
                 <<me, Aff(<<0, 0, 1>>, 0)>>}
CellCfg(me)  == {<<me, CellsS(me)>>, <<me, CellsV(me, <<3, 1, 2>>)>>}
Bad == {<<MeshA, Vec(<<1, 2>>, <<1, 2>>)>>,
        <<MeshA, Vec(<<1, 2, 3, 4>>, <<1, 2, 3, 0>>)>>,
        <<MeshA, Vec(<<1, 2, 3>>, <<0, 0, 0>>)>>,
        <<MeshA, Vec(<<1, 2, 3>>, <<1, 2, 0>>)>>,
        <<MeshA, Vec(<<1, 2, 3>>, <<1, 1, 2>>)>>,
        <<MeshB, Vec(<<1, 2, 3>>, <<0, 3, 1>>)>>,
        <<Mesh2, Aff(<<1, 1, 0>>, 0)>>,
        <<Mesh2, Vec(<<1, 2, 3>>, <<1, 2, 0>>)>>,
        <<Mesh2, Vec(<<1, 2>>, <<1, 2>>)>>,
        <<Mesh1, Aff(<<1, 0, 0>>, 0)>>,
        <<Mesh4, Aff(<<1, 0, 0>>, 0)>>,
        <<Mesh4, Vec(<<1, 2, 3>>, <<1, 2, 3>>)>>}

Configs_quick    == {<<MeshA, Vec(<<1, 2, 3>>, <<1, 2, 3>>)>>, <<MeshA, Aff(<<2, -1, 1>>, 3)>>,
                      <<MeshB, Vec(<<2, -1, 3>>, <<2, 3, 1>>)>>, <<MeshB, Aff(<<-1, 2, 2>>, -4)>>}
                    \cup CellCfg(MeshA) \cup SmallCfg(MeshC) \cup Bad
Configs_thorough == Good(MeshA) \cup Good(MeshB) \cup GoodMore(MeshC)
                    \cup CellCfg(MeshA) \cup SmallCfg(MeshC) \cup SmallCfg(MeshA) \cup Bad
Gens_quick    == {"qx", "qz", "px", "pz", "ny", "tz"}
Gens_thorough == {"qx", "qz", "px", "py", "pz", "nx", "tz"}
Gens3_all     == {"qx", "pz", "py", "nx"}
AllGens == {"qx", "qy", "qz", "hx", "hy", "hz", "px", "py", "pz", "nx", "ny", "nz", "rx", "ry", "rz", "tx", "ty", "tz"}
(* the generator table is handed to the harness (how to *call* rotate for a generator) *)
ASSUME PrintT(<<"GENS", [g \in AllGens |-> [spec |-> GenSpec(g), rot |-> GenRot(g)]]>>)
PostGens_all  == {"pz"}
TNSet_quick    == {<<4, 5, 4>>}
TNSet_thorough == {<<6, 5, 4>>, <<4, 4, 4>>}
=============================================================================
