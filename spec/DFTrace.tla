------------------------------ MODULE DFTrace ------------------------------
(* Channel T for the mixed-history model: long random programs executed on the real       *)
(* library (harness/df_trace.py) are validated call by call.  Every event carries the      *)
(* call and the object heap observed after it (ids by object identity, `vo` by             *)
(* numpy.shares_memory, coordinates projected to rationals, values to integers).  TLC      *)
(* recomputes the step with DF!Apply from the state it holds, compares aspect by aspect,   *)
(* evaluates the clauses P_* / S_* of DF.tla on the OBSERVED states, and then adopts the   *)
(* observed state so that the rest of the program is still checked.  Verdicts are total.   *)
EXTENDS DF, Json, IOUtils

VARIABLES tid, l
tvars == <<heap, roots, hist, viol, tid, l>>

Traces == JsonDeserialize(IOEnv.TRACE_FILE)
Ev == Traces[tid].ev[l + 1]
Verd(c, name) == IF c THEN TRUE ELSE PrintT(<<"VERDICT", Traces[tid].id, l + 1, name>>)
RangeOf(s) == {s[j] : j \in DOMAIN s}
HeapOf(pairs) == [o \in {p[1] : p \in RangeOf(pairs)} |-> (CHOOSE p \in RangeOf(pairs) : p[1] = o)[2]]
RootsOf(pairs) == [x \in {p[1] : p \in RangeOf(pairs)} |-> (CHOOSE p \in RangeOf(pairs) : p[1] = x)[2]]

TInit == /\ tid \in 1 .. Len(Traces)
         /\ l = 0
         /\ heap = HeapOf(Traces[tid].heap0)
         /\ roots = RootsOf(Traces[tid].roots0)
         /\ hist = <<Done(MkCall("init", "T", "", "", "self", FALSE, NoA), "ok")>>
         /\ viol = {}

(* same objects, same kinds, same references, arrays of the expected lengths: the clauses can be evaluated *)
SameGraph(post, rpost, exp) ==
   /\ DOMAIN post = DOMAIN exp.heap /\ rpost = exp.roots
   /\ \A o \in DOMAIN post :
         LET p == post[o]  e == exp.heap[o] IN
         /\ p.k = e.k
         /\ (p.k = "mesh" => p.region = e.region /\ p.sub = e.sub /\ Len(p.n) = Len(e.n) /\ Len(p.names) = Len(e.names))
         /\ (p.k = "region" => Len(p.lo) = Len(e.lo) /\ Len(p.hi) = Len(e.hi) /\ Len(p.units) = Len(e.units) /\ Len(p.dims) = Len(e.dims))
         /\ (p.k = "field" => /\ p.mesh = e.mesh /\ p.nv = e.nv /\ p.shape = e.shape
                              /\ Len(p.arr) = Len(e.arr) /\ Len(p.valid) = Len(e.valid)
                              /\ \A k \in DOMAIN p.arr : Len(p.arr[k]) = p.nv)
KindCount(h, kind) == Cardinality({o \in DOMAIN h : h[o].k = kind})
LessSharing(post, rpost, exp) ==
   /\ DOMAIN rpost = DOMAIN exp.roots
   /\ KindCount(post, "field") = KindCount(exp.heap, "field")
   /\ KindCount(post, "mesh") >= KindCount(exp.heap, "mesh")
   /\ KindCount(post, "region") >= KindCount(exp.heap, "region")
   /\ Cardinality(DOMAIN post) > Cardinality(DOMAIN exp.heap)
AllObj(post, exp, P(_, _)) == \A o \in DOMAIN post : P(post[o], exp.heap[o])
(* the state adopted after the step: the observed one; the model-only flags (values / mapping constrained) from the expectation *)
Adopt(post, exp, known) ==
   [o \in DOMAIN post |->
      IF post[o].k # "field" THEN post[o]
      ELSE LET e == IF known /\ o \in DOMAIN exp.heap /\ exp.heap[o].k = "field" THEN exp.heap[o] ELSE post[o]
               vx == post[o].vx /\ e.vx
           IN [post[o] EXCEPT !.vx = vx, !.mx = e.mx, !.arr = IF vx THEN @ ELSE [k \in DOMAIN @ |-> ZeroVec(post[o].nv)]]]

TStep ==
   LET c0    == Ev.call
       c     == Done(c0, Ev.outcome)
       post  == HeapOf(Ev.post)
       rpost == RootsOf(Ev.rpost)
       inm   == InModel(heap, roots, c0)
       exp   == IF inm THEN Apply(heap, roots, c0) ELSE [heap |-> heap, roots |-> roots, outcome |-> "outside"]
       ok    == Ev.outcome = "ok"
       both  == inm /\ ok /\ exp.outcome = "ok"
       graph == both /\ SameGraph(post, rpost, exp)
       sane  == S_FieldShapes(post) /\ S_MeshNormal(post) /\ \A v \in DOMAIN rpost : rpost[v] \in DOMAIN post
   IN
   /\ (IF inm THEN TRUE ELSE PrintT(<<"OUTSIDE", Traces[tid].id, l + 1, c0.op>>))     \* calls the model says nothing about are counted
   /\ Verd(inm => (exp.outcome = Ev.outcome), IF c0.op \in QueryOps THEN "DF_Query" ELSE IF ok THEN "DF_Rejects" ELSE "DF_Accepts")
   /\ Verd(~ok => (Adopt(post, [heap |-> heap], TRUE) = heap /\ rpost = roots), "DF_RejectUnchanged")
   (* the library may share LESS than the model assumes (a result with its own mesh / region object): no property forbids  *)
   (* that - it is counted, the observed graph adopted.  Any other difference of the object graph is a verdict.           *)
   /\ LET less == both /\ ~graph /\ LessSharing(post, rpost, exp) IN
         /\ (IF less THEN PrintT(<<"LESS-SHARING", Traces[tid].id, l + 1, c0.op>>) ELSE TRUE)
         /\ Verd(both => (graph \/ less), "DF_Sharing")
   (* conformance with the step function, aspect by aspect *)
   /\ Verd(graph => AllObj(post, exp, LAMBDA p, e : p.k = "region" => p.lo = e.lo /\ p.hi = e.hi), "DF_Geometry")
   /\ Verd(graph => AllObj(post, exp, LAMBDA p, e : p.k = "region" => p.units = e.units /\ p.dims = e.dims), "DF_UnitsDims")
   /\ Verd(graph => AllObj(post, exp, LAMBDA p, e : p.k = "mesh" => p.n = e.n /\ p.names = e.names), "DF_Counts")
   /\ LET vsame == AllObj(post, exp, LAMBDA p, e : p.k = "field" => p.valid = e.valid) IN
         IF c0.op \in ValidFreeOps
         THEN (IF graph /\ ~vsame THEN PrintT(<<"VALID-FREE", Traces[tid].id, l + 1, c0.op>>) ELSE TRUE)
         ELSE Verd(graph => vsame, "DF_Validity")
   /\ Verd(graph => AllObj(post, exp, LAMBDA p, e : (p.k = "field" /\ e.vx) => p.vx /\ p.arr = e.arr), "DF_Values")
   /\ Verd(graph => AllObj(post, exp, LAMBDA p, e : p.k = "field" => p.lab = e.lab /\ (e.mx => p.map = e.map)), "DF_Labels")
   /\ Verd(graph => AllObj(post, exp, LAMBDA p, e : p.k = "field" => p.vo = e.vo), "DF_OwnValidity")
   /\ Verd(graph => AllObj(post, exp, LAMBDA p, e : p.k = "field" => p.ao = e.ao), "DF_OwnArray")
   (* the clauses of the properties on the observed states *)
   /\ (graph => LET obs == Adopt(post, exp, TRUE) IN
                \A nm \in ClauseNames : Verd(ClauseHolds(nm, heap, roots, obs, rpost, c), nm))
   /\ Verd(sane, "DF_FieldShapes")
   /\ Verd(sane => S_RegionNormal(post), "DF_RegionNormal")
   /\ Verd((sane /\ S_SubregionsWellFormed(heap)) => S_SubregionsWellFormed(post), "DF_SubregionsWellFormed")
   /\ Verd(sane => (S_OwnValidity(heap) => S_OwnValidity(post)), "DF_OwnValidity")
   /\ Verd(sane => (S_OwnArray(heap) => S_OwnArray(post)), "DF_OwnArray")
   /\ Verd(sane => S_Labels(post), "DF_LabelsWellFormed")
   /\ heap' = Adopt(post, exp, graph)
   /\ roots' = rpost
   /\ hist' = <<c>>
   /\ viol' = {}
   (* a program whose observed objects are malformed is not continued *)
   /\ l' = IF sane THEN l + 1 ELSE Len(Traces[tid].ev)

TNext == /\ l < Len(Traces[tid].ev)
         /\ TStep
         /\ UNCHANGED tid
TSpec == TInit /\ [][TNext]_tvars
=============================================================================
