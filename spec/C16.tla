-------------------------------- MODULE C16 --------------------------------
(* C16 - VTK output puts each value in the grid cell a VTK reader finds at that         *)
(* position; bin / txt / xml round trip; legacy point-data files.                       *)
(*                                                                                     *)
(* State: one 3-d field `fld` (mesh, component count, values, validity, labels,         *)
(* subregions), the file last written (`file`), the last public call (`act`) and what   *)
(* it must return (`obs`).  Arrays follow spec/Cells.tla (flat, first dimension         *)
(* fastest).  The VTK side is modelled on its own terms: a rectilinear grid is three    *)
(* vertex sequences plus cell arrays indexed by the VTK cell id                         *)
(* id = i + nx*(j + ny*k), and a VTK consumer locates a point from the vertex           *)
(* sequences alone (GridLocate).  The property ties the two views together.             *)
EXTENDS Cells, TLC

CONSTANTS Shapes,     \* set of 3-sequences: cell counts of the 3-d meshes
          CProf,      \* set of 3-sequences: cell sizes (multiples of 4 lattice units)
          LoProf,     \* set of 3-sequences: lower corners
          NVs,        \* set of component counts (subset of 1..4)
          MaskKinds,  \* subset of {"all", "none", "hole", "alt"}
          SubKinds,   \* subset of {0, 1, 2}: number of subregions
          Reprs,      \* subset of {"bin", "bin8", "txt", "xml"}
          BadShapes,  \* cell counts of meshes that are not 3-d (conversion refused)
          AltLabels   \* BOOLEAN: also use the non-default label schemes

VARIABLES fld, file, act, obs
vars == <<fld, file, act, obs>>

Rej   == [ok |-> FALSE]
Ok(v) == [ok |-> TRUE, v |-> v]

(* ---- configurations ---------------------------------------------------------------- *)
(* values: pairwise distinct over cells and components, mixed signs                      *)
ValOf(k, c)   == (5 * k + 2 * c + 1) * (IF (k + c) % 3 = 0 THEN -1 ELSE 1)
ValsOf(n, nv) == [k \in 1 .. ProdSeq(n) |-> [c \in 1 .. nv |-> ValOf(k, c)]]
MaskOf(n, kind) == [k \in 1 .. ProdSeq(n) |->
                      CASE kind = "all"  -> TRUE
                        [] kind = "none" -> FALSE
                        [] kind = "hole" -> ~(k = 2 \/ k = ProdSeq(n))
                        [] kind = "alt"  -> LET i == Unflat(n, k - 1)
                                            IN SumSeq([d \in DOMAIN n |-> d * i[d]]) % 3 # 1]
DefaultLabels(nv) == CASE nv = 1 -> <<>>
                       [] nv = 2 -> <<"x", "y">>
                       [] nv = 3 -> <<"x", "y", "z">>
                       [] nv = 4 -> <<"v0", "v1", "v2", "v3">>
AltLabelsOf(nv)   == CASE nv = 1 -> <<"s">>
                       [] nv = 2 -> <<"m_mag", "m_phase">>
                       [] nv = 3 -> <<"c", "m x", "b-component">>
                       [] nv = 4 -> <<"d", "c", "b", "a">>
LabelSchemes(nv)  == IF AltLabels THEN {DefaultLabels(nv), AltLabelsOf(nv)} ELSE {DefaultLabels(nv)}
(* subregions: whole-cell boxes of the mesh; a set of [name, lo, hi]                     *)
SubsOf(m, s) == LET first == [name |-> "a", lo |-> m.lo, hi |-> [d \in Dims(m) |-> m.lo[d] + m.c[d]]]
                    upper == [name |-> "top", lo |-> [d \in Dims(m) |-> IF d = 1 THEN Hi(m, 1) - m.c[1] ELSE m.lo[d]],
                                             hi |-> [d \in Dims(m) |-> Hi(m, d)]]
                IN CASE s = 0 -> {} [] s = 1 -> {first} [] s = 2 -> {first, upper}

Meshes3 == {[lo |-> lp, c |-> cp, n |-> nn] : nn \in Shapes, cp \in CProf, lp \in LoProf}
BadMeshes == {[lo |-> [d \in DOMAIN nn |-> 4 * d], c |-> [d \in DOMAIN nn |-> 4], n |-> nn] : nn \in BadShapes}
FieldOn(m, nv, mk, lab, s) == [mesh |-> m, nv |-> nv, vals |-> ValsOf(m.n, nv), valid |-> MaskOf(m.n, mk),
                               labels |-> lab, subs |-> SubsOf(m, s)]
InitFields == UNION {{FieldOn(m, nv, mk, lab, s) : lab \in LabelSchemes(nv), m \in Meshes3, mk \in MaskKinds, s \in SubKinds}
                     : nv \in NVs}
              \cup {FieldOn(m, 1, "all", <<>>, 0) : m \in BadMeshes}

(* ---- the VTK view --------------------------------------------------------------------- *)
(* cell id of the structured cell (i, j, k) of a grid with nx * ny * nz cells, and back *)
VtkId(nx, ny, ijk)  == ijk[1] + nx * (ijk[2] + ny * ijk[3])
VtkCell(nx, ny, id) == <<id % nx, (id \div nx) % ny, id \div (nx * ny)>>

(* what Field.to_vtk must build: vertices per axis and the cell arrays by VTK id         *)
Grid(f) ==
   LET m  == f.mesh
       N  == NCells(m)
       at(id) == At(m.n, f.vals, VtkCell(m.n[1], m.n[2], id))
   IN [xs    |-> [d \in 1 .. 3 |-> VerticesAx(m, d)],
       field |-> [t \in 1 .. N |-> at(t - 1)],
       norm2 |-> [t \in 1 .. N |-> Norm2(at(t - 1))],
       names |-> IF f.nv > 1 THEN f.labels ELSE <<>>,
       comps |-> IF f.nv > 1 THEN [c \in 1 .. f.nv |-> [t \in 1 .. N |-> at(t - 1)[c]]] ELSE <<>>,
       valid |-> [t \in 1 .. N |-> IF At(m.n, f.valid, VtkCell(m.n[1], m.n[2], t - 1)) THEN 1 ELSE 0]]

(* how a VTK consumer locates a coordinate along one axis from the vertex sequence only: *)
(* the set of admissible interval numbers (0-based); -1 = no cell.  On a vertex both      *)
(* neighbours are admissible, on the outer boundary also "no cell" (vtkRectilinearGrid:: *)
(* FindCell does not find the upper corner, pyvista's locator does).                     *)
GridLocAx(xs, x) ==
   LET nc == Len(xs) - 1
   IN IF x < xs[1] \/ x > xs[nc + 1] THEN {-1}
      ELSE {j \in 0 .. (nc - 1) : xs[j + 1] <= x /\ x <= xs[j + 2]}
           \cup (IF x = xs[1] \/ x = xs[nc + 1] THEN {-1} ELSE {})
GridLocate(g, p) ==
   LET A == [d \in 1 .. 3 |-> GridLocAx(g.xs[d], p[d])]
       nx == Len(g.xs[1]) - 1
       ny == Len(g.xs[2]) - 1
   IN {VtkId(nx, ny, <<i, j, k>>) : i \in A[1] \ {-1}, j \in A[2] \ {-1}, k \in A[3] \ {-1}}
      \cup (IF \E d \in 1 .. 3 : -1 \in A[d] THEN {-1} ELSE {})

(* per-axis probe coordinates: quarter lattice of the region plus a quarter cell outside *)
ProbesAx(m, d) == {m.lo[d] - m.c[d] \div 4, Hi(m, d) + m.c[d] \div 4}
                  \cup {m.lo[d] + (m.c[d] \div 4) * j : j \in 0 .. 4 * m.n[d]}
Probes(m) == {<<x, y, z>> : x \in ProbesAx(m, 1), y \in ProbesAx(m, 2), z \in ProbesAx(m, 3)}
OnFaceAx(m, d, x) == (x - m.lo[d]) % m.c[d] = 0

(* ---- files ---------------------------------------------------------------------------- *)
NoFile == [kind |-> "none", repr |-> "", grid |-> <<>>, labels |-> <<>>, sub |-> {}, side |-> FALSE]
(* Field.to_file('*.vtk', representation, save_subregions): the grid, the labels the      *)
(* property wants back, and the side-car file with the subregions                         *)
WriteVTK(f, r, savesub) == [kind |-> "vtk", repr |-> r, grid |-> Grid(f), labels |-> f.labels,
                            sub |-> IF savesub THEN f.subs ELSE {}, side |-> savesub /\ f.subs # {}]
(* a file of discretisedfield <= 0.61: POINT_DATA at the cell centres, x fastest          *)
LegacyFile(f) == [kind |-> "legacy", repr |-> "txt",
                  grid |-> [pts |-> [d \in 1 .. 3 |-> CentresAx(f.mesh, d)], data |-> f.vals],
                  labels |-> <<>>, sub |-> {}, side |-> FALSE]
RelOf(r)  == IF r = "txt" THEN "Dig10" ELSE "Same"
FormOf(r) == IF r = "bin8" THEN "bin" ELSE r        \* 'bin8' is accepted as an alias of 'bin'

(* Field.from_file on a file of the current layout *)
ReadVTK(fl) ==
   LET g == fl.grid
   IN [lo |-> [d \in 1 .. 3 |-> g.xs[d][1]],
       hi |-> [d \in 1 .. 3 |-> g.xs[d][Len(g.xs[d])]],
       n  |-> [d \in 1 .. 3 |-> Len(g.xs[d]) - 1],
       nv |-> Len(g.field[1]),
       vals   |-> g.field,                               \* VTK id order = first dimension fastest
       valid  |-> [t \in DOMAIN g.valid |-> g.valid[t] = 1],
       labels |-> fl.labels,
       subs   |-> fl.sub,
       rel    |-> RelOf(fl.repr)]
(* ... and on a legacy point-data file: one cell per point; along an axis with several    *)
(* points the cells are centred on them; a single point fixes no cell size (the property *)
(* is silent; the library assumes 1 nm) so that axis' extent is left open                 *)
ReadLegacy(fl) ==
   LET g == fl.grid
       ax(d) == LET P == g.pts[d]
                IN IF Len(P) > 1 THEN [known |-> TRUE, lo |-> P[1] - (P[2] - P[1]) \div 2,
                                       hi |-> P[Len(P)] + (P[2] - P[1]) \div 2]
                   ELSE [known |-> FALSE, lo |-> 0, hi |-> 0]
   IN [axes |-> [d \in 1 .. 3 |-> ax(d)],
       n  |-> [d \in 1 .. 3 |-> Len(g.pts[d])],
       nv |-> Len(g.data[1]),
       vals   |-> g.data,
       valid  |-> [t \in DOMAIN g.data |-> TRUE],
       labels |-> DefaultLabels(Len(g.data[1])),
       subs   |-> {},
       rel    |-> "Same"]

(* ---- actions --------------------------------------------------------------------------- *)
Is3D(f) == Len(f.mesh.n) = 3
Fresh   == act[1] = "new"

Init == /\ fld \in InitFields
        /\ file = NoFile
        /\ act = <<"new">>
        /\ obs = Ok([n |-> fld.mesh.n, nv |-> fld.nv])

(* Field.to_vtk(): the grid, plus - for the conformance harness - the cell of every id   *)
(* and the admissible located interval per axis and probe coordinate                      *)
ToVTK == /\ Fresh
         /\ act' = <<"to_vtk">>
         /\ obs' = IF Is3D(fld)
                   THEN Ok([grid   |-> Grid(fld),
                            cellOf |-> [t \in 1 .. NCells(fld.mesh) |-> VtkCell(fld.mesh.n[1], fld.mesh.n[2], t - 1)],
                            loc    |-> [d \in 1 .. 3 |-> [x \in ProbesAx(fld.mesh, d) |->
                                                            GridLocAx(VerticesAx(fld.mesh, d), x)]]])
                   ELSE Rej
         /\ UNCHANGED <<fld, file>>
Write == \E r \in Reprs, s \in BOOLEAN :
         /\ Fresh
         /\ (s \/ fld.subs # {})           \* save_subregions=False only matters with subregions
         /\ act' = <<"write", r, s>>
         /\ IF Is3D(fld) THEN /\ file' = WriteVTK(fld, r, s)
                              /\ obs' = Ok([rel |-> RelOf(r), form |-> FormOf(r)])
                         ELSE /\ file' = file
                              /\ obs' = Rej
         /\ UNCHANGED fld
(* an old file produced by a foreign writer (only scalar and 3-vector fields existed)     *)
LegacyWrite == /\ Fresh /\ Is3D(fld)
               /\ fld.nv \in {1, 3} /\ fld.labels = DefaultLabels(fld.nv)
               /\ fld.subs = {} /\ \A t \in DOMAIN fld.valid : fld.valid[t]
               /\ act' = <<"legacy_write">>
               /\ file' = LegacyFile(fld)
               /\ obs' = Ok([rel |-> "Same"])
               /\ UNCHANGED fld
Read == /\ act[1] \in {"write", "legacy_write"}
        /\ file.kind # "none"
        /\ act' = <<"read", file.kind, file.repr, file.side>>
        /\ obs' = IF file.kind = "vtk" THEN Ok(ReadVTK(file)) ELSE Ok(ReadLegacy(file))
        /\ UNCHANGED <<fld, file>>

Next == ToVTK \/ Write \/ LegacyWrite \/ Read
Spec == Init /\ [][Next]_vars

(* ---- the property, clause by clause ------------------------------------------------------ *)
TypeOK == /\ MeshOK(fld.mesh)
          /\ Len(fld.vals) = NCells(fld.mesh) /\ Len(fld.valid) = NCells(fld.mesh)
          /\ \A t \in DOMAIN fld.vals : Len(fld.vals[t]) = fld.nv
          /\ Len(fld.labels) \in {0, fld.nv}
          /\ \A s \in fld.subs : BoxOK(s) /\ BoxInMesh(s, fld.mesh) /\ BoxAligned(s, fld.mesh)

IsGrid == act[1] = "to_vtk" /\ obs.ok
(* the grid has the mesh vertices as coordinates *)
C16_VerticesAreCoordinates ==
   IsGrid => \A d \in 1 .. 3 : obs.v.grid.xs[d] = VerticesAx(fld.mesh, d)
(* in the cell a consumer locates at p, the arrays hold field value, components, norm and *)
(* validity of the mesh cell containing p                                                  *)
C16_ValueAtLocatedCell ==
   IsGrid =>
      LET m == fld.mesh
          g == obs.v.grid
      IN \A p \in Probes(m) :
            LET L == GridLocate(g, p)
            IN /\ L # {}
               /\ (-1 \in L) <=> (~Inside(m, p) \/ \E d \in 1 .. 3 : p[d] = m.lo[d] \/ p[d] = Hi(m, d))
               /\ (Inside(m, p) /\ ~\E d \in 1 .. 3 : OnFaceAx(m, d, p[d])) => L = {Flat(m.n, P2I(m, p))}
               /\ Inside(m, p) => Flat(m.n, P2I(m, p)) \in L
               /\ \A id \in L \ {-1} :
                     LET i == obs.v.cellOf[id + 1]
                     IN /\ InRange(m, i) /\ Flat(m.n, i) = id
                        /\ \A d \in 1 .. 3 : InClosedCellAx(m, d, i[d], p[d])
                        /\ g.field[id + 1] = At(m.n, fld.vals, i)
                        /\ g.norm2[id + 1] = Norm2(At(m.n, fld.vals, i))
                        /\ \A c \in DOMAIN g.comps : g.comps[c][id + 1] = At(m.n, fld.vals, i)[c]
                        /\ g.valid[id + 1] = (IF At(m.n, fld.valid, i) THEN 1 ELSE 0)
C16_ComponentArraysNamed ==
   IsGrid => /\ obs.v.grid.names = (IF fld.nv > 1 THEN fld.labels ELSE <<>>)
             /\ Len(obs.v.grid.comps) = Len(obs.v.grid.names)
C16_NotThreeDRefused == act[1] \in {"to_vtk", "write"} => (obs.ok <=> Is3D(fld))
(* write + read returns region, cell counts, values, validity, labels and subregions      *)
C16_RoundTrip ==
   (act[1] = "read" /\ act[2] = "vtk") =>
      LET b == obs.v
          m == fld.mesh
      IN /\ b.lo = m.lo /\ b.hi = [d \in 1 .. 3 |-> Hi(m, d)] /\ b.n = m.n
         /\ b.nv = fld.nv /\ b.vals = fld.vals /\ b.valid = fld.valid
         /\ b.labels = fld.labels
         /\ b.subs = (IF file.side THEN fld.subs ELSE {})
         /\ b.rel = (IF act[3] = "txt" THEN "Dig10" ELSE "Same")
C16_SidecarIffSubregions ==
   act[1] = "write" /\ obs.ok => (file.side <=> (act[3] /\ fld.subs # {}))
(* old point-data files: one value per cell, in the file's order *)
C16_LegacyOneValuePerCell ==
   (act[1] = "read" /\ act[2] = "legacy") =>
      LET b == obs.v
          m == fld.mesh
      IN /\ b.n = m.n /\ b.nv = fld.nv /\ Len(b.vals) = NCells(m)
         /\ \A i \in Indices(m) : At(b.n, b.vals, i) = At(m.n, fld.vals, i)
         /\ \A d \in 1 .. 3 : b.axes[d].known <=> m.n[d] > 1
         /\ \A d \in 1 .. 3 : b.axes[d].known => (b.axes[d].lo = m.lo[d] /\ b.axes[d].hi = Hi(m, d))
=============================================================================
