------------------------------ MODULE FieldAlg ------------------------------
(* Register machine for field algebra and validity (shared by C03 and C08, DESIGN 7).  *)
(*                                                                                     *)
(* A register holds a field, a number, a constant vector or a per-cell array.  Values  *)
(* are exact Gaussian rationals <<re, im, den>> (den > 0, gcd 1), so + - * / ** with   *)
(* small integer exponents, dot, cross, complex parts and the integer-closed ufuncs    *)
(* stay inside the model; norm, orientation and angle are exact where the square root  *)
(* is rational and otherwise carried as norm^2 / (sign(dot), cos^2) in `aux`.          *)
(*                                                                                     *)
(* A field register is                                                                 *)
(*   [k = "field", m = mesh [lo, c, n, dims], nv, val, vx, valid, vt, vdims, map, aux, vo] *)
(*   val    one sequence of nv values per cell, cells in the library's iteration order  *)
(*          (Cells.tla: first dimension fastest)                                        *)
(*   vx     FALSE: values are not constrained by this model (derivatives, phase, ...)   *)
(*   valid  one BOOLEAN per cell;  vt  the dtype the validity array must have ("bool")  *)
(*   vdims  component labels (<<>> = None);  map  spatial axis per label (<<>> = {})    *)
(*   vo     identity of the validity *array object* (heap reference): two registers     *)
(*          with the same vo share one mask, MutateValid writes through it             *)
(* Every result gets a fresh vo: "a result's validity is its own".                      *)
EXTENDS Cells, TLC

(* ---------------------------------------------------------------------------------- *)
(* Gaussian rationals                                                                   *)
GN(a, b, d) == LET s == IF d < 0 THEN -1 ELSE 1
                   g == GCD(GCD(Abs(a), Abs(b)), Abs(d))
               IN <<(s * a) \div g, (s * b) \div g, (s * d) \div g>>
GZ       == <<0, 0, 1>>
GI(n)    == <<n, 0, 1>>
GC(a, b) == <<a, b, 1>>
GAdd(x, y)  == GN(x[1] * y[3] + y[1] * x[3], x[2] * y[3] + y[2] * x[3], x[3] * y[3])
GNeg(x)     == <<-x[1], -x[2], x[3]>>
GSub(x, y)  == GAdd(x, GNeg(y))
GMul(x, y)  == GN(x[1] * y[1] - x[2] * y[2], x[1] * y[2] + x[2] * y[1], x[3] * y[3])
GConj(x)    == <<x[1], -x[2], x[3]>>
GInv(y)     == IF y[2] = 0 THEN GN(y[3], 0, y[1]) ELSE GN(y[1] * y[3], -(y[2] * y[3]), y[1] * y[1] + y[2] * y[2])
GDiv(x, y)  == GMul(x, GInv(y))
GIsZero(x)  == x[1] = 0 /\ x[2] = 0
GIsReal(x)  == x[2] = 0
GRe(x)      == GN(x[1], 0, x[3])
GIm(x)      == GN(x[2], 0, x[3])
GAbs2(x)    == GN(x[1] * x[1] + x[2] * x[2], 0, x[3] * x[3])
GLess(x, y) == x[1] * y[3] < y[1] * x[3]                      \* reals only
GMax(x, y)  == IF GLess(x, y) THEN y ELSE x
GMin(x, y)  == IF GLess(y, x) THEN y ELSE x
RECURSIVE GPowN(_, _)
GPowN(x, e) == IF e = 0 THEN GI(1) ELSE GMul(x, GPowN(x, e - 1))
GPow(x, e)  == IF e >= 0 THEN GPowN(x, e) ELSE GPowN(GInv(x), -e)
SzT(t)      == Max2(Max2(Abs(t[1]), Abs(t[2])), t[3])

RECURSIVE ISqrtB(_, _, _)
ISqrtB(n, lo, hi) == IF lo >= hi THEN lo
                     ELSE LET mid == (lo + hi + 1) \div 2
                          IN IF mid * mid <= n THEN ISqrtB(n, mid, hi) ELSE ISqrtB(n, lo, mid - 1)
ISqrt(n)  == ISqrtB(n, 0, Min2(n, 46340))
IsSq(n)   == ISqrt(n) * ISqrt(n) = n
GSqrtOk(t) == t[2] = 0 /\ t[1] >= 0 /\ IsSq(t[1]) /\ IsSq(t[3])
GSqrt(t)   == <<ISqrt(t[1]), 0, ISqrt(t[3])>>

(* component sequences; a scalar (length 1) broadcasts over vector components *)
GV(x, y, F(_, _)) == LET nv == Max2(Len(x), Len(y))
                     IN [c \in 1 .. nv |-> F(IF Len(x) = 1 THEN x[1] ELSE x[c], IF Len(y) = 1 THEN y[1] ELSE y[c])]
RECURSIVE GSum(_)
GSum(s)      == IF s = <<>> THEN GZ ELSE GAdd(Head(s), GSum(Tail(s)))
GDot(x, y)   == GSum(GV(x, y, GMul))
GCross(x, y) == <<GSub(GMul(x[2], y[3]), GMul(x[3], y[2])),
                  GSub(GMul(x[3], y[1]), GMul(x[1], y[3])),
                  GSub(GMul(x[1], y[2]), GMul(x[2], y[1]))>>
GNorm2(x)    == GSum([c \in 1 .. Len(x) |-> GAbs2(x[c])])

(* ---------------------------------------------------------------------------------- *)
(* registers                                                                            *)
IsField(r)  == r.k = "field"
IsNum(r)    == r.k = "num"
IsVec(r)    == r.k = "vec"
IsArr(r)    == r.k = "arr"
NCellsM(m)  == ProdSeq(m.n)
ZeroVal(N, nv) == [k \in 1 .. N |-> [c \in 1 .. nv |-> GZ]]

DefaultVdims(nv) == IF nv = 1 THEN <<>>
                    ELSE IF nv <= 3 THEN SubSeq(<<"x", "y", "z">>, 1, nv)
                    ELSE [c \in 1 .. nv |-> "v" \o ToString(c - 1)]
DefaultMap(m, nv) == IF nv > 1 /\ nv = Len(m.n) THEN m.dims ELSE <<>>

MkField(m, nv, val, vx, valid, vdims, map, aux) ==
   [k |-> "field", m |-> m, nv |-> nv, val |-> val, vx |-> vx, valid |-> valid, vt |-> "bool",
    vdims |-> vdims, map |-> map, aux |-> aux, vo |-> 0]
MkNum(t)     == [k |-> "num", val |-> t]
MkVec(s)     == [k |-> "vec", val |-> s]
MkArr2(m, nv, val) == [k |-> "arr", m |-> m, nv |-> nv, val |-> val]

(* per-cell component sequence and component count of any operand *)
OC(y, k)  == CASE y.k \in {"field", "arr"} -> y.val[k]
               [] y.k = "num" -> <<y.val>>
               [] y.k = "vec" -> y.val
ONv(y)    == CASE y.k \in {"field", "arr"} -> y.nv
               [] y.k = "num" -> 1
               [] y.k = "vec" -> Len(y.val)
Trip(y)   == CASE y.k \in {"field", "arr"} -> {y.val[k][c] : k \in DOMAIN y.val, c \in 1 .. y.nv}
               [] y.k = "num" -> {y.val}
               [] y.k = "vec" -> {y.val[c] : c \in DOMAIN y.val}
MaxOfSet(S) == CHOOSE x \in S : \A y \in S : y <= x
Sz(y)     == MaxOfSet({SzT(t) : t \in Trip(y)})
AllReal(y) == \A t \in Trip(y) : GIsReal(t)
AllInt(y)  == \A t \in Trip(y) : t[3] = 1
NoZero(y)  == \A t \in Trip(y) : ~GIsZero(t)
HasVals(y) == IF IsField(y) THEN y.vx ELSE TRUE

(* ---------------------------------------------------------------------------------- *)
(* bounds of the exact arithmetic (32-bit integers in TLC) and definedness            *)
GBin(op, a, b) == CASE op = "add" -> GAdd(a, b)
                    [] op = "sub" -> GSub(a, b)
                    [] op = "mul" -> GMul(a, b)
                    [] op = "div" -> GDiv(a, b)
                    [] op = "pow" -> GPow(a, b[1])
                    [] op = "max" -> GMax(a, b)
                    [] op = "min" -> GMin(a, b)
EWDefined(op, a, b) ==
   CASE op \in {"add", "sub", "mul"} -> Sz(a) <= 30000 /\ Sz(b) <= 30000
     [] op = "div" -> Sz(a) <= 400 /\ Sz(b) <= 1000 /\ NoZero(b)
     [] op = "pow" -> /\ Sz(a) <= 500
                      /\ \A t \in Trip(b) : t[2] = 0 /\ t[3] = 1 /\ t[1] >= -1 /\ t[1] <= 3
                      /\ (\E t \in Trip(b) : t[1] < 0) => NoZero(a)
     [] op \in {"max", "min"} -> AllReal(a) /\ AllReal(b) /\ Sz(a) <= 30000 /\ Sz(b) <= 30000
ProdDefined(a, b) == IF AllInt(a) /\ AllInt(b) THEN Sz(a) <= 10000 /\ Sz(b) <= 10000
                     ELSE Sz(a) <= 300 /\ Sz(b) <= 300 /\ Sz(a) * Sz(b) <= 300
NormDefined(a)    == IF AllInt(a) THEN Sz(a) <= 10000 ELSE Sz(a) <= 12

(* ---------------------------------------------------------------------------------- *)
(* metadata rules                                                                      *)
(* result of a call on field f that keeps / changes the component count *)
KeepMeta(f, nv) == IF nv = f.nv THEN [vdims |-> f.vdims, map |-> f.map]
                   ELSE [vdims |-> DefaultVdims(nv), map |-> <<>>]
(* element-wise operation between two fields: labels and mapping of the vector operand *)
(* (of the left one when both are vectors)                                              *)
BinMeta(x, y) == IF x.nv >= y.nv THEN [vdims |-> x.vdims, map |-> x.map]
                 ELSE [vdims |-> y.vdims, map |-> y.map]
SameLabels(x, y) == x.vdims = y.vdims /\ x.map = y.map

(* ---------------------------------------------------------------------------------- *)
(* element-wise binary operations:  a op b  in NumPy's operand order.  `self` is the   *)
(* field whose method is called (a if it is a field, otherwise b: reflected operator)  *)
SelfOf(a, b)  == IF IsField(a) THEN a ELSE b
OtherOf(a, b) == IF IsField(a) THEN b ELSE a
EWCompatible(a, b) ==
   LET s == SelfOf(a, b)  o == OtherOf(a, b)
   IN CASE IsField(o) -> s.m = o.m /\ (s.nv = o.nv \/ s.nv = 1 \/ o.nv = 1)
        [] IsNum(o)   -> TRUE
        [] IsVec(o)   -> s.nv = Len(o.val) \/ s.nv = 1
        [] IsArr(o)   -> s.m.n = o.m.n /\ (s.nv = o.nv \/ s.nv = 1)
EWVal(op, a, b) == LET N == Len(SelfOf(a, b).val)
                   IN [k \in 1 .. N |-> GV(OC(a, k), OC(b, k), LAMBDA p, q : GBin(op, p, q))]
EWValid(a, b) == IF IsField(a) /\ IsField(b) THEN AndArr(a.valid, b.valid) ELSE SelfOf(a, b).valid
EWReg(op, a, b) ==
   LET s  == SelfOf(a, b)
       nv == Max2(ONv(a), ONv(b))
       vx == HasVals(a) /\ HasVals(b)
       md == IF IsField(a) /\ IsField(b) THEN BinMeta(a, b) ELSE KeepMeta(s, nv)
   IN MkField(s.m, nv, IF vx THEN EWVal(op, a, b) ELSE ZeroVal(Len(s.val), nv), vx, EWValid(a, b),
              IF Len(md.vdims) = nv \/ nv = 1 THEN md.vdims ELSE DefaultVdims(nv),
              IF Len(md.vdims) = nv \/ nv = 1 THEN md.map ELSE <<>>, <<>>)

(* ---------------------------------------------------------------------------------- *)
(* unary operations                                                                    *)
GUn(u, t) == CASE u = "neg"  -> GNeg(t)
               [] u = "pos"  -> t
               [] u = "abs"  -> IF GIsReal(t) THEN <<Abs(t[1]), 0, t[3]>> ELSE GSqrt(GAbs2(t))
               [] u = "real" -> GRe(t)
               [] u = "imag" -> GIm(t)
               [] u = "conj" -> GConj(t)
               [] u = "square" -> GMul(t, t)
UnDefined(u, f) == CASE u = "abs" -> \A t \in Trip(f) : GIsReal(t) \/ (SzT(t) <= 10000 /\ GSqrtOk(GAbs2(t)))
                     [] u = "square" -> Sz(f) <= 30000
                     [] OTHER -> TRUE
UnReg(u, f) == LET vx == f.vx /\ UnDefined(u, f)
               IN MkField(f.m, f.nv, IF vx THEN [k \in DOMAIN f.val |-> [c \in 1 .. f.nv |-> GUn(u, f.val[k][c])]]
                                     ELSE ZeroVal(Len(f.val), f.nv),
                          vx, f.valid, f.vdims, f.map, <<>>)
(* values outside the model (phase, sin, derivatives): validity and metadata only *)
OpaqueReg(f, nv, md) == MkField(f.m, nv, ZeroVal(Len(f.val), nv), FALSE, f.valid, md.vdims, md.map, <<>>)

(* norm: sqrt(sum |x_c|^2); exact where rational, norm^2 in aux in any case *)
NormReg(f) == LET n2 == [k \in DOMAIN f.val |-> GNorm2(f.val[k])]
                  ex == f.vx /\ \A k \in DOMAIN n2 : GSqrtOk(n2[k])
              IN MkField(f.m, 1, IF ex THEN [k \in DOMAIN n2 |-> <<GSqrt(n2[k])>>] ELSE ZeroVal(Len(f.val), 1),
                         ex, f.valid, <<>>, <<>>, IF f.vx THEN n2 ELSE <<>>)
(* orientation: v / |v|, the zero vector stays *)
OrientReg(f) == LET n2 == [k \in DOMAIN f.val |-> GNorm2(f.val[k])]
                    ex == f.vx /\ \A k \in DOMAIN n2 : GSqrtOk(n2[k])
                IN MkField(f.m, f.nv,
                           IF ex THEN [k \in DOMAIN f.val |-> IF GIsZero(n2[k]) THEN [c \in 1 .. f.nv |-> GZ]
                                                              ELSE [c \in 1 .. f.nv |-> GDiv(f.val[k][c], GSqrt(n2[k]))]]
                           ELSE ZeroVal(Len(f.val), f.nv),
                           ex, f.valid, f.vdims, f.map, <<>>)

(* ---------------------------------------------------------------------------------- *)
(* dot, cross, angle.  `f` is the field whose method is called, `o` a field or vector  *)
VProdCompatible(kind, f, o) ==
   CASE IsField(o) -> f.m = o.m /\ f.nv = o.nv /\ (kind = "cross" => f.nv = 3)
     [] IsVec(o)   -> IF kind = "dot" THEN f.nv = Len(o.val) \/ f.nv = 1 \/ Len(o.val) = 1
                      ELSE f.nv = Len(o.val) /\ (kind = "cross" => f.nv = 3)
     [] IsNum(o)   -> kind = "angle" /\ f.nv = 1
     [] OTHER      -> FALSE
VPValid(f, o) == IF IsField(o) THEN AndArr(f.valid, o.valid) ELSE f.valid
DotReg(f, o) == LET vx == f.vx /\ HasVals(o)
                IN MkField(f.m, 1, IF vx THEN [k \in DOMAIN f.val |-> <<GDot(f.val[k], OC(o, k))>>] ELSE ZeroVal(Len(f.val), 1),
                           vx, VPValid(f, o), <<>>, <<>>, <<>>)
(* sign: +1 for f x o, -1 for the reflected form  o x f = -(f x o) *)
CrossReg(f, o, sign) ==
   LET vx == f.vx /\ HasVals(o)
   IN MkField(f.m, 3, IF vx THEN [k \in DOMAIN f.val |-> LET c == GCross(f.val[k], OC(o, k))
                                                         IN IF sign > 0 THEN c ELSE [j \in 1 .. 3 |-> GNeg(c[j])]]
                      ELSE ZeroVal(Len(f.val), 3),
              vx, VPValid(f, o), f.vdims, DefaultMap(f.m, 3), <<>>)
(* angle: arccos(dot / (|f| |o|)); carried as <<sign(dot), cos^2 num, cos^2 den>> per cell *)
AngleComps(o, k, nv) == IF IsNum(o) THEN <<o.val>> ELSE OC(o, k)
AngleDefined(f, o) == /\ f.vx /\ HasVals(o) /\ AllReal(f) /\ AllReal(o) /\ AllInt(f) /\ AllInt(o) /\ Sz(f) <= 60 /\ Sz(o) <= 60
                      /\ \A k \in DOMAIN f.val : ~GIsZero(GNorm2(f.val[k])) /\ ~GIsZero(GNorm2(AngleComps(o, k, f.nv)))
AngleReg(f, o) ==
   MkField(f.m, 1, ZeroVal(Len(f.val), 1), FALSE, VPValid(f, o), <<>>, <<>>,
           [k \in DOMAIN f.val |-> LET d  == GDot(f.val[k], AngleComps(o, k, f.nv))
                                       c2 == GDiv(GMul(d, d), GMul(GNorm2(f.val[k]), GNorm2(AngleComps(o, k, f.nv))))
                                   IN <<Sgn(d[1]), c2[1], c2[3]>>])

(* ---------------------------------------------------------------------------------- *)
(* stacking  a << b  and component access                                               *)
AsStackField(f, o) == CASE IsField(o) -> o
                        [] IsNum(o) -> MkField(f.m, 1, [k \in DOMAIN f.val |-> <<o.val>>], TRUE,
                                               [k \in DOMAIN f.val |-> TRUE], <<>>, <<>>, <<>>)
                        [] IsVec(o) -> MkField(f.m, Len(o.val), [k \in DOMAIN f.val |-> o.val], TRUE,
                                               [k \in DOMAIN f.val |-> TRUE], DefaultVdims(Len(o.val)),
                                               DefaultMap(f.m, Len(o.val)), <<>>)
Unique(s) == \A i, j \in DOMAIN s : i # j => s[i] # s[j]
StackFF(x, y) ==
   LET nv == x.nv + y.nv
       lab == IF x.vdims = <<>> \/ y.vdims = <<>> \/ ~Unique(x.vdims \o y.vdims) THEN DefaultVdims(nv) ELSE x.vdims \o y.vdims
       mp  == IF Len(x.map) = x.nv /\ Len(y.map) = y.nv /\ x.vdims # <<>> /\ y.vdims # <<>> /\ Unique(x.vdims \o y.vdims)
              THEN x.map \o y.map ELSE DefaultMap(x.m, nv)
       vx == x.vx /\ y.vx
   IN MkField(x.m, nv, IF vx THEN [k \in DOMAIN x.val |-> x.val[k] \o y.val[k]] ELSE ZeroVal(Len(x.val), nv),
              vx, AndArr(x.valid, y.valid), lab, mp, <<>>)
(* a << b where at least one is a field *)
StackCompatible(a, b) == IF IsField(a) /\ IsField(b) THEN a.m = b.m ELSE ~IsArr(a) /\ ~IsArr(b)
StackReg(a, b) == LET f == SelfOf(a, b) IN StackFF(AsStackField(f, a), AsStackField(f, b))
CompReg(f, c) == MkField(f.m, 1, [k \in DOMAIN f.val |-> <<f.val[k][c]>>], f.vx, f.valid, <<>>, <<>>, <<>>)
RECURSIVE StackFrom(_, _)
StackFrom(f, c) == IF c = 1 THEN CompReg(f, 1) ELSE StackFF(StackFrom(f, c - 1), CompReg(f, c))
(* f.c1 << f.c2 << ... : the library's own composition of the two primitives *)
RestackReg(f) == StackFrom(f, f.nv)

(* ---------------------------------------------------------------------------------- *)
(* NumPy ufuncs called on fields.  Validity: AND of the field inputs (C08); metadata of *)
(* the first field input.                                                               *)
UfuncFields(a, b) == IF IsField(a) /\ IsField(b) THEN <<a, b>> ELSE <<SelfOf(a, b)>>
Ufunc2Compatible(a, b) ==
   /\ (IsField(a) /\ IsField(b)) => a.m = b.m
   /\ (IsField(a) /\ IsArr(b)) => a.m.n = b.m.n
   /\ (IsArr(a) /\ IsField(b)) => a.m.n = b.m.n
   /\ ~IsVec(a) /\ ~IsVec(b)
   /\ (ONv(a) = ONv(b) \/ ONv(a) = 1 \/ ONv(b) = 1)
Ufunc2Reg(op, a, b) == LET r == EWReg(op, a, b)
                           s == SelfOf(a, b)
                           md == KeepMeta(s, r.nv)
                       IN [r EXCEPT !.vdims = md.vdims, !.map = md.map]

(* ---------------------------------------------------------------------------------- *)
(* operations that map cells: src[k] = flat source cell (1-based) of result cell k,    *)
(* 0 = a cell created by constant padding                                               *)
Gather(arr, src, padv) == [k \in DOMAIN src |-> IF src[k] = 0 THEN padv ELSE arr[src[k]]]
InsertAt(s, d, v) == [j \in 1 .. (Len(s) + 1) |-> IF j < d THEN s[j] ELSE IF j = d THEN v ELSE s[j - 1]]
DropAx(m, d) == [lo |-> RemoveAt(m.lo, d), c |-> RemoveAt(m.c, d), n |-> RemoveAt(m.n, d), dims |-> RemoveAt(m.dims, d)]
SrcOf(n2, n, F(_)) == [k \in 1 .. ProdSeq(n2) |-> LET s == F(Unflat(n2, k - 1)) IN IF s = <<>> THEN 0 ELSE Flat(n, s) + 1]

(* plane through cell j (0-based) of axis d: the axis disappears *)
SelPlaneMesh(m, d)    == DropAx(m, d)
SelPlaneSrc(m, d, j)  == SrcOf(RemoveAt(m.n, d), m.n, LAMBDA i : InsertAt(i, d, j))
(* cells j1 .. j2 of axis d *)
SelRangeMesh(m, d, j1, j2) == [m EXCEPT !.lo[d] = m.lo[d] + m.c[d] * j1, !.n[d] = j2 - j1 + 1]
SelRangeSrc(m, d, j1, j2)  == SrcOf([m.n EXCEPT ![d] = j2 - j1 + 1], m.n, LAMBDA i : [i EXCEPT ![d] = i[d] + j1])
(* block of cells a[d] .. b[d] on every axis *)
BlockMesh(m, a, b) == [m EXCEPT !.lo = [d \in DOMAIN m.n |-> m.lo[d] + m.c[d] * a[d]], !.n = [d \in DOMAIN m.n |-> b[d] - a[d] + 1]]
BlockSrc(m, a, b)  == SrcOf([d \in DOMAIN m.n |-> b[d] - a[d] + 1], m.n, LAMBDA i : [d \in DOMAIN m.n |-> i[d] + a[d]])
(* padding by l cells below and r cells above along axis d; the NumPy modes *)
PadCoord(t, n, mode) == IF 0 <= t /\ t < n THEN t
                        ELSE CASE mode = "constant"  -> -1
                               [] mode = "wrap"      -> t % n
                               [] mode = "edge"      -> IF t < 0 THEN 0 ELSE n - 1
                               [] mode = "symmetric" -> IF t < 0 THEN -t - 1 ELSE 2 * n - 1 - t
                               [] mode = "reflect"   -> IF t < 0 THEN -t ELSE 2 * n - 2 - t
PadMesh(m, d, l, r) == [m EXCEPT !.lo[d] = m.lo[d] - m.c[d] * l, !.n[d] = m.n[d] + l + r]
PadSrc(m, d, l, r, mode) == SrcOf([m.n EXCEPT ![d] = m.n[d] + l + r], m.n,
                                  LAMBDA i : LET t == PadCoord(i[d] - l, m.n[d], mode) IN IF t < 0 THEN <<>> ELSE [i EXCEPT ![d] = t])
(* resampling to n2 cells: the source cell containing the new cell centre; defined here *)
(* only when no new centre lies on a source face                                        *)
ResampleNoTie(m, n2) == \A d \in DOMAIN m.n : \A i \in 0 .. (n2[d] - 1) : ((2 * i + 1) * m.n[d]) % (2 * n2[d]) # 0
ResampleMesh(m, n2)  == [m EXCEPT !.n = n2, !.c = [d \in DOMAIN m.n |-> (m.c[d] * m.n[d]) \div n2[d]]]
ResampleSrc(m, n2)   == SrcOf(n2, m.n, LAMBDA i : [d \in DOMAIN m.n |-> ((2 * i[d] + 1) * m.n[d]) \div (2 * n2[d])])
(* quarter turns in the plane of axes (a, b): numpy.rot90(array, k, axes=(a, b)) *)
RotShape(n, a, b, k) == IF k % 2 = 1 THEN SwapAt(n, a, b) ELSE n
RECURSIVE RotSrcIdx(_, _, _, _, _)
RotSrcIdx(n, a, b, k, i) ==      \* i indexes the k-times rotated array; result indexes the original
   IF k = 0 THEN i
   ELSE LET nk1 == RotShape(n, a, b, k - 1)                 \* shape before the last quarter turn
        IN RotSrcIdx(n, a, b, k - 1, [i EXCEPT ![a] = i[b], ![b] = nk1[b] - 1 - i[a]])
RotSrc(m, a, b, k) == SrcOf(RotShape(m.n, a, b, k % 4), m.n, LAMBDA i : RotSrcIdx(m.n, a, b, k % 4, i))
RotMesh(m, a, b, k) == IF k % 2 = 0 THEN m
                       ELSE [m EXCEPT !.n = SwapAt(m.n, a, b), !.c = SwapAt(m.c, a, b),
                                      !.lo[a] = m.lo[a] + (m.c[a] * m.n[a] - m.c[b] * m.n[b]) \div 2,
                                      !.lo[b] = m.lo[b] + (m.c[b] * m.n[b] - m.c[a] * m.n[a]) \div 2]
(* the two components mapped to axes a, b turn with the plane *)
PosIn(s, v) == IF \E j \in DOMAIN s : s[j] = v THEN CHOOSE j \in DOMAIN s : s[j] = v ELSE 0
RotComps(v, ca, cb, k) == CASE k % 4 = 0 -> v
                            [] k % 4 = 1 -> [v EXCEPT ![ca] = GNeg(v[cb]), ![cb] = v[ca]]
                            [] k % 4 = 2 -> [v EXCEPT ![ca] = GNeg(v[ca]), ![cb] = GNeg(v[cb])]
                            [] k % 4 = 3 -> [v EXCEPT ![ca] = v[cb], ![cb] = GNeg(v[ca])]
RotCompatible(f, a, b) == a # b /\ (f.nv > 1 => PosIn(f.map, f.m.dims[a]) > 0 /\ PosIn(f.map, f.m.dims[b]) > 0)
MappedReg(f, m2, src) == MkField(m2, f.nv, Gather(f.val, src, [c \in 1 .. f.nv |-> GZ]), f.vx,
                                 Gather(f.valid, src, FALSE), f.vdims, f.map, <<>>)
RotReg(f, a, b, k) ==
   LET r == MappedReg(f, RotMesh(f.m, a, b, k), RotSrc(f.m, a, b, k))
   IN IF f.nv = 1 THEN r
      ELSE [r EXCEPT !.val = [j \in DOMAIN r.val |-> RotComps(r.val[j], PosIn(f.map, f.m.dims[a]), PosIn(f.map, f.m.dims[b]), k)]]

(* ---------------------------------------------------------------------------------- *)
(* differential operators: validity and shape only (values belong to C04 / C05)        *)
MappedAll(f) == f.nv = Len(f.m.n) /\ Len(f.map) = f.nv /\ \A c \in 1 .. f.nv : PosIn(f.m.dims, f.map[c]) > 0
GradReg(f)  == OpaqueReg(f, Len(f.m.n), [vdims |-> DefaultVdims(Len(f.m.n)), map |-> DefaultMap(f.m, Len(f.m.n))])
DivReg(f)   == OpaqueReg(f, 1, [vdims |-> <<>>, map |-> <<>>])
CurlReg(f)  == OpaqueReg(f, 3, [vdims |-> DefaultVdims(3), map |-> DefaultMap(f.m, 3)])
LaplaceReg(f) == OpaqueReg(f, f.nv, IF f.nv = 1 THEN [vdims |-> f.vdims, map |-> f.map]
                                    ELSE [vdims |-> DefaultVdims(f.nv), map |-> DefaultMap(f.m, f.nv)])

(* ---------------------------------------------------------------------------------- *)
(* validity setter                                                                      *)
BitAt(bits, k)      == IF k > 30 THEN FALSE ELSE (bits \div (2 ^ (k - 1))) % 2 = 1
BitsMask(bits, N)   == [k \in 1 .. N |-> BitAt(bits, k)]
NormMask(f)         == [k \in DOMAIN f.val |-> \E c \in 1 .. f.nv : ~GIsZero(f.val[k][c])]
SetValidMask(f, spec) ==
   CASE spec[1] \in {"array", "intarray", "func"} -> BitsMask(spec[2], Len(f.valid))
     [] spec[1] = "const" -> [k \in DOMAIN f.valid |-> spec[2] = 1]
     [] spec[1] = "none"  -> [k \in DOMAIN f.valid |-> TRUE]
     [] spec[1] = "norm"  -> NormMask(f)

(* ================================================================================== *)
(* the machine                                                                         *)
CONSTANTS Pool,       \* pool id -> register record (fields carry their own mask)
          InitSet,    \* set of <<sequence of <<pool id, mask bits or -1>>, [d |-> program depth, x |-> extra actions enabled]>>
          Ops,        \* names of the enabled actions
          DeepOps,    \* ... of those enabled after the first instruction
          MaskPats,   \* mask bit patterns offered to the validity setter
          PadModes, RotKs

VARIABLES init,   \* the chosen element of InitSet
          regs,   \* the register file
          prog,   \* instructions executed so far: <<op, i, j, x>>
          obs     \* what the last instruction must return / do
vars == <<init, regs, prog, obs>>

Rej == [ok |-> FALSE, live |-> FALSE]
InitReg(pm, idx) == LET r == Pool[pm[1]]
                    IN IF IsField(r) THEN [r EXCEPT !.vo = idx,
                                                    !.valid = IF pm[2] < 0 THEN r.valid ELSE BitsMask(pm[2], Len(r.valid))]
                       ELSE r
InitRegs(i)   == [j \in DOMAIN i[1] |-> InitReg(i[1][j], j)]
Init == /\ init \in InitSet
        /\ regs = InitRegs(init)
        /\ prog = <<>>
        /\ obs = [ok |-> TRUE, live |-> TRUE, r |-> 0, ch |-> {}]

(* ---- which instructions are inside the model, and what they must yield ------------- *)
UnaryOps  == {"neg", "pos", "abs", "real", "imag", "conj", "cabs", "phase", "norm", "orientation"}
EWOps     == {"add", "sub", "mul", "div", "pow"}
Ufunc1Set == {"negative", "absolute", "square", "conjugate", "sin"}
Ufunc2Set == {"add", "subtract", "multiply", "maximum", "minimum"}
UfName(u) == CASE u = "negative" -> "neg" [] u = "absolute" -> "abs" [] u = "square" -> "square" [] u = "conjugate" -> "conj"
               [] u = "add" -> "add" [] u = "subtract" -> "sub" [] u = "multiply" -> "mul" [] u = "maximum" -> "max" [] u = "minimum" -> "min"

Reg(rs, i) == rs[i]
InModel(rs, ins) ==
   LET op == ins[1]  a == rs[ins[2]]  x == ins[4]
       b  == IF ins[3] > 0 THEN rs[ins[3]] ELSE a
   IN CASE op \in {"norm", "orientation"} -> IsField(a) /\ (a.vx => NormDefined(a))
        [] op \in UnaryOps -> IsField(a)
        [] op \in EWOps -> /\ (IsField(a) \/ IsField(b)) /\ (op = "pow" => IsField(a) /\ ~IsVec(b) /\ ~IsArr(b))
                           /\ (IsArr(OtherOf(a, b)) => EWCompatible(a, b))
                           /\ (EWCompatible(a, b) /\ HasVals(a) /\ HasVals(b)) => EWDefined(op, a, b)
        [] op \in {"dot", "cross"} -> /\ (IsField(a) /\ (IsField(b) \/ IsVec(b))) \/ (IsVec(a) /\ IsField(b))
                                      /\ (VProdCompatible(op, SelfOf(a, b), OtherOf(a, b)) /\ HasVals(a) /\ HasVals(b)) => ProdDefined(a, b)
        [] op = "angle" -> /\ IsField(a) /\ (IsField(b) \/ IsVec(b) \/ (IsNum(b) /\ a.nv = 1))
                           /\ VProdCompatible("angle", a, b) => AngleDefined(a, b)
        [] op = "lshift" -> (IsField(a) \/ IsField(b)) /\ ~IsArr(a) /\ ~IsArr(b)
        [] op = "comp" -> IsField(a) /\ a.vdims # <<>> /\ x \in 1 .. a.nv
        [] op = "restack" -> IsField(a) /\ a.nv > 1
        [] op = "ufunc1" -> IsField(a) /\ (a.vx /\ x # "sin" => UnDefined(UfName(x), a))
        [] op = "ufunc2" -> /\ (IsField(a) \/ IsField(b)) /\ ~IsVec(a) /\ ~IsVec(b)
                            /\ (IsArr(a) \/ IsArr(b)) => Ufunc2Compatible(a, b)
                            /\ (Ufunc2Compatible(a, b) /\ HasVals(a) /\ HasVals(b)) => EWDefined(UfName(x), a, b)
        [] op = "diff" -> IsField(a) /\ x[1] \in DOMAIN a.m.n /\ x[2] \in {1, 2}
        [] op = "grad" -> IsField(a) /\ a.nv = 1
        [] op = "divg" -> IsField(a) /\ Len(a.m.n) >= 2 /\ MappedAll(a)
        [] op = "curl" -> IsField(a) /\ a.nv = 3 /\ Len(a.m.n) = 3 /\ MappedAll(a)
        [] op = "laplace" -> IsField(a)
        [] op = "sel" -> IsField(a) /\ Len(a.m.n) >= 2 /\ x[1] \in DOMAIN a.m.n /\ x[2] \in 0 .. (a.m.n[x[1]] - 1)
        [] op = "selrange" -> IsField(a) /\ x[1] \in DOMAIN a.m.n /\ 0 <= x[2] /\ x[2] <= x[3] /\ x[3] < a.m.n[x[1]]
        [] op = "getitem" -> IsField(a) /\ \A d \in DOMAIN a.m.n : 0 <= x[1][d] /\ x[1][d] <= x[2][d] /\ x[2][d] < a.m.n[d]
        [] op = "pad" -> /\ IsField(a) /\ x[1] \in DOMAIN a.m.n /\ x[2] + x[3] >= 1
                         /\ x[2] <= a.m.n[x[1]] - (IF x[4] = "reflect" THEN 1 ELSE 0)
                         /\ x[3] <= a.m.n[x[1]] - (IF x[4] = "reflect" THEN 1 ELSE 0)
        [] op = "resample" -> IsField(a) /\ Len(x) = Len(a.m.n) /\ ResampleNoTie(a.m, x)
                              /\ \A d \in DOMAIN x : (a.m.c[d] * a.m.n[d]) % x[d] = 0
        [] op = "rotate90" -> IsField(a) /\ x[1] \in DOMAIN a.m.n /\ x[2] \in DOMAIN a.m.n /\ RotCompatible(a, x[1], x[2])
        [] op = "h5" -> IsField(a)
        [] op = "vtk" -> IsField(a) /\ Len(a.m.n) = 3
        [] op = "set_valid" -> IsField(a) /\ (x[1] = "norm" => a.vx)
        [] op = "mutate_valid" -> IsField(a) /\ x \in DOMAIN a.valid

(* two fields with equally many components but different labels: the property wants     *)
(* a*b = b*a including labels and states no rule for the labels - outside the model     *)
LabelsDecided(rs, ins) ==
   LET op == ins[1]  a == rs[ins[2]]
       b  == IF ins[3] > 0 THEN rs[ins[3]] ELSE a
   IN (op \in {"add", "mul"} /\ IsField(a) /\ IsField(b) /\ a.nv = b.nv) => SameLabels(a, b)

Accepted(rs, ins) ==
   LET op == ins[1]  a == rs[ins[2]]
       b  == IF ins[3] > 0 THEN rs[ins[3]] ELSE a
   IN CASE op \in EWOps -> EWCompatible(a, b)
        [] op \in {"dot", "cross"} -> VProdCompatible(op, SelfOf(a, b), OtherOf(a, b))
        [] op = "angle" -> VProdCompatible("angle", a, b)
        [] op = "lshift" -> StackCompatible(a, b)
        [] op = "ufunc2" -> Ufunc2Compatible(a, b)
        [] OTHER -> TRUE

ResultReg(rs, ins) ==
   LET op == ins[1]  a == rs[ins[2]]  x == ins[4]
       b  == IF ins[3] > 0 THEN rs[ins[3]] ELSE a
   IN CASE op \in {"neg", "pos", "abs", "real", "imag", "conj"} -> UnReg(op, a)
        [] op = "cabs" -> UnReg("abs", a)
        [] op = "phase" -> OpaqueReg(a, a.nv, [vdims |-> a.vdims, map |-> a.map])
        [] op = "norm" -> NormReg(a)
        [] op = "orientation" -> OrientReg(a)
        [] op \in EWOps -> EWReg(op, a, b)
        [] op = "dot" -> DotReg(SelfOf(a, b), OtherOf(a, b))
        [] op = "cross" -> CrossReg(SelfOf(a, b), OtherOf(a, b), IF IsField(a) THEN 1 ELSE -1)
        [] op = "angle" -> AngleReg(a, b)
        [] op = "lshift" -> StackReg(a, b)
        [] op = "comp" -> CompReg(a, x)
        [] op = "restack" -> RestackReg(a)
        [] op = "ufunc1" -> IF x = "sin" THEN OpaqueReg(a, a.nv, [vdims |-> a.vdims, map |-> a.map]) ELSE UnReg(UfName(x), a)
        [] op = "ufunc2" -> Ufunc2Reg(UfName(x), a, b)
        [] op = "diff" -> OpaqueReg(a, a.nv, [vdims |-> a.vdims, map |-> a.map])
        [] op = "grad" -> GradReg(a)
        [] op = "divg" -> DivReg(a)
        [] op = "curl" -> CurlReg(a)
        [] op = "laplace" -> LaplaceReg(a)
        [] op = "sel" -> MappedReg(a, SelPlaneMesh(a.m, x[1]), SelPlaneSrc(a.m, x[1], x[2]))
        [] op = "selrange" -> MappedReg(a, SelRangeMesh(a.m, x[1], x[2], x[3]), SelRangeSrc(a.m, x[1], x[2], x[3]))
        [] op = "getitem" -> MappedReg(a, BlockMesh(a.m, x[1], x[2]), BlockSrc(a.m, x[1], x[2]))
        [] op = "pad" -> MappedReg(a, PadMesh(a.m, x[1], x[2], x[3]), PadSrc(a.m, x[1], x[2], x[3], x[4]))
        [] op = "resample" -> MappedReg(a, ResampleMesh(a.m, x), ResampleSrc(a.m, x))
        [] op = "rotate90" -> RotReg(a, x[1], x[2], x[3])
        [] op \in {"h5", "vtk"} -> [a EXCEPT !.aux = <<>>]

(* the register file after an accepted instruction; s = number of the program step      *)
FlipAt(v, k) == [v EXCEPT ![k] = ~v[k]]
Apply(rs, ins, s) ==
   CASE ins[1] = "set_valid" ->
           [rs EXCEPT ![ins[2]].valid = SetValidMask(rs[ins[2]], ins[4]), ![ins[2]].vo = 100 + s, ![ins[2]].vt = "bool"]
     [] ins[1] = "mutate_valid" ->
           [j \in DOMAIN rs |-> IF IsField(rs[j]) /\ rs[j].vo = rs[ins[2]].vo THEN [rs[j] EXCEPT !.valid = FlipAt(rs[j].valid, ins[4])]
                                ELSE rs[j]]
     [] OTHER -> Append(rs, [ResultReg(rs, ins) EXCEPT !.vo = Len(rs) + 1])
Written(rs, ins) == IF ins[1] \in {"set_valid", "mutate_valid"} THEN ins[2] ELSE Len(rs) + 1
Changed(rs, rs2) == {j \in DOMAIN rs : rs2[j] # rs[j]}

UsesLast(ins) == prog = <<>> \/ ins[2] = Len(regs) \/ ins[3] = Len(regs)
Do(ins) == /\ obs.live
           /\ Len(prog) < init[2].d
           /\ UsesLast(ins) = TRUE
           \* initial register files marked `two`: only instructions that combine the two registers
           /\ (("two" \in init[2].x /\ prog = <<>>) => (ins[3] > 0 /\ ins[3] # ins[2])) = TRUE
           /\ InModel(regs, ins) = TRUE
           /\ LabelsDecided(regs, ins) = TRUE
           /\ prog' = Append(prog, ins)
           /\ UNCHANGED init
           /\ IF Accepted(regs, ins)
              THEN LET rs2 == Apply(regs, ins, Len(prog) + 1)
                       w   == Written(regs, ins)
                   IN /\ regs' = rs2
                      /\ obs' = [ok |-> TRUE, live |-> ins[1] # "mutate_valid", r |-> w, reg |-> rs2[w], ch |-> Changed(regs, rs2),
                                  pre |-> IF w <= Len(regs) THEN regs[w] ELSE <<>>]
              ELSE regs' = regs /\ obs' = Rej

R1 == DOMAIN regs
Fields == {i \in DOMAIN regs : IsField(regs[i])}
NonFields == DOMAIN regs \ Fields
En(name) == name \in (IF prog = <<>> THEN Ops ELSE DeepOps)

(* ---- one action per public call ---------------------------------------------------- *)
Neg         == En("neg") /\ \E i \in Fields : Do(<<"neg", i, 0, <<>>>>)
Pos         == En("pos") /\ \E i \in Fields : Do(<<"pos", i, 0, <<>>>>)
Abs_        == En("abs") /\ \E i \in Fields : Do(<<"abs", i, 0, <<>>>>)
Real        == En("real") /\ \E i \in Fields : Do(<<"real", i, 0, <<>>>>)
Imag        == En("imag") /\ \E i \in Fields : Do(<<"imag", i, 0, <<>>>>)
Conjugate   == En("conj") /\ \E i \in Fields : Do(<<"conj", i, 0, <<>>>>)
CAbs        == En("cabs") /\ \E i \in Fields : Do(<<"cabs", i, 0, <<>>>>)
Phase       == En("phase") /\ \E i \in Fields : Do(<<"phase", i, 0, <<>>>>)
Norm        == En("norm") /\ \E i \in Fields : Do(<<"norm", i, 0, <<>>>>)
Orientation == En("orientation") /\ \E i \in Fields : Do(<<"orientation", i, 0, <<>>>>)
(* field on the left: __add__ ...; anything else on the left: the reflected method     *)
Add         == En("add") /\ \E i \in Fields, j \in R1 : Do(<<"add", i, j, <<>>>>)
ReflAdd        == En("add") /\ \E i \in NonFields, j \in Fields : Do(<<"add", i, j, <<>>>>)
Sub         == En("sub") /\ \E i \in Fields, j \in R1 : Do(<<"sub", i, j, <<>>>>)
ReflSub        == En("sub") /\ \E i \in NonFields, j \in Fields : Do(<<"sub", i, j, <<>>>>)
Mul         == En("mul") /\ \E i \in Fields, j \in R1 : Do(<<"mul", i, j, <<>>>>)
ReflMul        == En("mul") /\ \E i \in NonFields, j \in Fields : Do(<<"mul", i, j, <<>>>>)
TrueDiv     == En("div") /\ \E i \in Fields, j \in R1 : Do(<<"div", i, j, <<>>>>)
ReflTrueDiv    == En("div") /\ \E i \in NonFields, j \in Fields : Do(<<"div", i, j, <<>>>>)
Pow         == En("pow") /\ \E i \in Fields, j \in R1 : Do(<<"pow", i, j, <<>>>>)
MatMul      == En("dot") /\ \E i \in Fields, j \in R1 : Do(<<"dot", i, j, <<>>>>)
ReflMatMul     == En("dot") /\ \E i \in NonFields, j \in Fields : Do(<<"dot", i, j, <<>>>>)
Cross_      == En("cross") /\ \E i \in Fields, j \in R1 : Do(<<"cross", i, j, <<>>>>)
ReflCross      == En("cross") /\ \E i \in NonFields, j \in Fields : Do(<<"cross", i, j, <<>>>>)
Angle       == En("angle") /\ \E i \in Fields, j \in R1 : Do(<<"angle", i, j, <<>>>>)
LShift      == En("lshift") /\ \E i \in Fields, j \in R1 : Do(<<"lshift", i, j, <<>>>>)
ReflLShift     == En("lshift") /\ \E i \in NonFields, j \in Fields : Do(<<"lshift", i, j, <<>>>>)
Component_  == En("comp") /\ \E i \in Fields : \E c \in 1 .. regs[i].nv : Do(<<"comp", i, 0, c>>)
Restack     == En("restack") /\ \E i \in Fields : Do(<<"restack", i, 0, <<>>>>)
Ufunc1      == En("ufunc1") /\ \E i \in Fields, u \in Ufunc1Set : Do(<<"ufunc1", i, 0, u>>)
Ufunc2      == En("ufunc2") /\ \E i \in R1, j \in R1, u \in Ufunc2Set : Do(<<"ufunc2", i, j, u>>)
Diff        == En("diff") /\ \E i \in Fields : \E d \in DOMAIN regs[i].m.n, o \in {1, 2} : Do(<<"diff", i, 0, <<d, o>>>>)
Grad        == En("grad") /\ \E i \in Fields : Do(<<"grad", i, 0, <<>>>>)
Div_        == En("divg") /\ \E i \in Fields : Do(<<"divg", i, 0, <<>>>>)
Curl        == En("curl") /\ \E i \in Fields : Do(<<"curl", i, 0, <<>>>>)
Laplace     == En("laplace") /\ \E i \in Fields : Do(<<"laplace", i, 0, <<>>>>)
Sel         == En("sel") /\ \E i \in Fields : \E d \in DOMAIN regs[i].m.n : \E j \in 0 .. (regs[i].m.n[d] - 1) : Do(<<"sel", i, 0, <<d, j>>>>)
SelRange    == En("selrange") /\ \E i \in Fields : \E d \in DOMAIN regs[i].m.n :
                  \E j1, j2 \in 0 .. (regs[i].m.n[d] - 1) : Do(<<"selrange", i, 0, <<d, j1, j2>>>>)
(* blocks that are the full range on all axes but one, and the corner blocks *)
Blocks(n) == {<<[e \in DOMAIN n |-> IF e = d THEN j1 ELSE 0], [e \in DOMAIN n |-> IF e = d THEN j2 ELSE n[e] - 1]>> :
                 d \in DOMAIN n, j1 \in 0 .. (MaxSeq(n) - 1), j2 \in 0 .. (MaxSeq(n) - 1)}
             \cup {<<[e \in DOMAIN n |-> 0], [e \in DOMAIN n |-> 0]>>, <<[e \in DOMAIN n |-> n[e] - 1], [e \in DOMAIN n |-> n[e] - 1]>>,
                   <<[e \in DOMAIN n |-> IF n[e] > 1 THEN 1 ELSE 0], [e \in DOMAIN n |-> n[e] - 1]>>}
GetItem     == En("getitem") /\ \E i \in Fields : \E bl \in Blocks(regs[i].m.n) : Do(<<"getitem", i, 0, bl>>)
PadWidths   == {<<1, 0>>, <<0, 2>>, <<1, 1>>, <<2, 1>>}
Pad         == En("pad") /\ \E i \in Fields : \E d \in DOMAIN regs[i].m.n, w \in PadWidths, md \in PadModes :
                  Do(<<"pad", i, 0, <<d, w[1], w[2], md>>>>)
ResampleTargets(n) == {[d \in DOMAIN n |-> n[d] * f[d]] : f \in [DOMAIN n -> {1, 2, 3}]}
                      \cup {[d \in DOMAIN n |-> IF n[d] % 3 = 0 THEN n[d] \div 3 ELSE n[d]]}
                      \cup {[d \in DOMAIN n |-> 1]}
Resample    == En("resample") /\ \E i \in Fields : \E n2 \in ResampleTargets(regs[i].m.n) : Do(<<"resample", i, 0, n2>>)
Rotate90    == En("rotate90") /\ \E i \in Fields : \E a \in DOMAIN regs[i].m.n, b \in DOMAIN regs[i].m.n, k \in RotKs :
                  Do(<<"rotate90", i, 0, <<a, b, k>>>>)
H5RoundTrip == En("h5") /\ \E i \in Fields : Do(<<"h5", i, 0, <<>>>>)
VTKRoundTrip == En("vtk") /\ \E i \in Fields : Do(<<"vtk", i, 0, <<>>>>)
SetValidSpecs == {<<k, p>> : k \in {"array", "intarray", "func"}, p \in MaskPats}
                 \cup {<<"const", 0>>, <<"const", 1>>, <<"none", 0>>, <<"norm", 0>>}
SetValid    == En("set_valid") /\ "set_valid" \in init[2].x /\ \E i \in Fields : \E sp \in SetValidSpecs : Do(<<"set_valid", i, 0, sp>>)
(* an in-place write into the mask of the register written last *)
MutateValid == En("mutate_valid") /\ "mutate" \in init[2].x /\ prog # <<>> /\ obs.ok /\ obs.r > 0 /\ Do(<<"mutate_valid", obs.r, 0, 1>>)

Next == \/ Neg \/ Pos \/ Abs_ \/ Real \/ Imag \/ Conjugate \/ CAbs \/ Phase \/ Norm \/ Orientation
        \/ Add \/ ReflAdd \/ Sub \/ ReflSub \/ Mul \/ ReflMul \/ TrueDiv \/ ReflTrueDiv \/ Pow
        \/ MatMul \/ ReflMatMul \/ Cross_ \/ ReflCross \/ Angle \/ LShift \/ ReflLShift \/ Component_ \/ Restack
        \/ Ufunc1 \/ Ufunc2
        \/ Diff \/ Grad \/ Div_ \/ Curl \/ Laplace
        \/ Sel \/ SelRange \/ GetItem \/ Pad \/ Resample \/ Rotate90 \/ H5RoundTrip \/ VTKRoundTrip
        \/ SetValid \/ MutateValid
Spec == Init /\ [][Next]_vars

(* ---- well-formedness of every register --------------------------------------------- *)
FieldOK(f) == /\ Len(f.val) = NCellsM(f.m) /\ Len(f.valid) = NCellsM(f.m)
              /\ \A k \in DOMAIN f.val : Len(f.val[k]) = f.nv
              /\ \A t \in Trip(f) : t[3] >= 1 /\ GN(t[1], t[2], t[3]) = t
              /\ (f.vdims = <<>> \/ Len(f.vdims) = f.nv) /\ (f.map = <<>> \/ Len(f.map) = Len(f.vdims))
              /\ f.nv > 1 => Len(f.vdims) = f.nv
TypeOK == \A i \in DOMAIN regs : IsField(regs[i]) => FieldOK(regs[i])
LastIns == prog[Len(prog)]
=============================================================================
