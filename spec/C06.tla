-------------------------------- MODULE C06 --------------------------------
(* C06 - integrals and means are cell sums times cell measure, consistent across axes. *)
(*                                                                                     *)
(* State: one mesh configuration (lower corner, pairwise different integer cell sizes, *)
(* cell counts), the number of components, the id of an integer value pattern, the     *)
(* last public call (act) and what it must return (obs).  Lattice unit: any integer    *)
(* (the harness embeds one C06 unit as four quanta of harness/embed.py).               *)
(*                                                                                     *)
(* The operators of the first part are written the way Field.integrate / Field.mean    *)
(* compute (np.sum over an axis, cumsum shifted by one cell, sel() dropping one axis   *)
(* at a time); the invariants C06_* of the last part restate the property in its own   *)
(* words (sums over cells, lines, preceding cells) and are checked against them.       *)
(* All results carry an explicit denominator: 1 for integrals, 2 for the cumulative    *)
(* integral, the number of averaged cells for means.                                   *)
EXTENDS Cells, TLC

CONSTANTS MaxN,     \* <<max n in 1-D, 2-D, 3-D, 4-D>>
          CProf,    \* cell-size profiles, 4-sequences of pairwise different positive integers
          LoProf,   \* lower-corner profiles, 4-sequences
          NVs,      \* numbers of components
          Pats,     \* ids of value patterns
          Coefs,    \* pairs <<a, b>> for linear combinations
          Shifts,   \* translation vectors (4-sequences)
          Scales    \* integer factors of an in-place scaling of the field's own mesh about the origin

VARIABLES mesh, nv, pat, act, obs
vars == <<mesh, nv, pat, act, obs>>

(* ---- small helpers ----------------------------------------------------------------- *)
Prefix(s, k)      == [d \in 1 .. k |-> s[d]]
InsertAt(s, k, v) == [j \in 1 .. (Len(s) + 1) |-> IF j < k THEN s[j] ELSE IF j = k THEN v ELSE s[j - 1]]
PosOf(s, x)       == CHOOSE k \in DOMAIN s : s[k] = x
Range(s)          == {s[j] : j \in DOMAIN s}
(* balanced sum of a sequence of integers (Rat!SumSeq recurses once per element, which   *)
(* overflows the Java stack on the 100+ cell arrays of the recorded traces)             *)
RECURSIVE SumRange(_, _, _)
SumRange(s, lo, hi) == IF lo > hi THEN 0 ELSE IF lo = hi THEN s[lo]
                       ELSE SumRange(s, lo, (lo + hi) \div 2) + SumRange(s, (lo + hi) \div 2 + 1, hi)
Sum(s)            == SumRange(s, 1, Len(s))
VSum(s, nvv)      == [c \in 1 .. nvv |-> Sum([t \in DOMAIN s |-> s[t][c]])]
VAdd(x, y)        == [c \in DOMAIN x |-> x[c] + y[c]]
VScale(a, x)      == [c \in DOMAIN x |-> a * x[c]]
ScaleArr(s, a)    == [k \in DOMAIN a |-> VScale(s, a[k])]
LinArr(a, f, b, g) == [k \in DOMAIN f |-> VAdd(VScale(a, f[k]), VScale(b, g[k]))]
(* all sequences of pairwise different elements of S, of every length 1 .. |S| *)
DistinctSeqs(S)   == UNION {{s \in [1 .. k -> S] : \A i, j \in 1 .. k : i # j => s[i] # s[j]} : k \in 1 .. Cardinality(S)}
Shift(m, v)       == [m EXCEPT !.lo = [d \in Dims(m) |-> m.lo[d] + v[d]]]

(* ---- value patterns: generic small integers of both signs, no axis symmetry --------- *)
PatVal(p, k, c)   == ((3 * k * k + (5 + 2 * p) * k + 7 * c + 4 * p) % 13) - 6
PatArr(n, nvv, p) == [k \in 1 .. ProdSeq(n) |-> [c \in 1 .. nvv |-> PatVal(p, k, c)]]

(* ---- fields and results ------------------------------------------------------------- *)
(* a field: mesh, the ids of the axes it still has (positions in the original mesh),    *)
(* flat array.  The library addresses axes by *name*; ids play the role of names.      *)
Fld(m, a) == [m |-> m, ax |-> [d \in 1 .. Len(m.n) |-> d], a |-> a]
NoMesh    == [lo |-> <<>>, c |-> <<>>, n |-> <<>>]
Rej       == [ok |-> FALSE]
(* a plain array of nvdim numbers (no mesh) / a field; values are numerators over den   *)
ResArray(v, den) == [ok |-> TRUE, kind |-> "array", m |-> NoMesh, ax |-> <<>>, v |-> <<v>>, den |-> den]
ResField(f, den) == [ok |-> TRUE, kind |-> "field", m |-> f.m, ax |-> f.ax, v |-> f.a, den |-> den]

(* ---- the implementation's building blocks ------------------------------------------- *)
(* np.sum(array, axis=k): array over the cell counts without axis k *)
SumAxis(n, a, k) == MkArr(RemoveAt(n, k),
                          LAMBDA j : VSum([t \in 1 .. n[k] |-> At(n, a, InsertAt(j, k, t - 1))], NV(a)))
(* np.sum(array, axis=(0, .., ndim-1)) *)
RECURSIVE SumAllAxes(_, _)
SumAllAxes(n, a) == IF Len(n) = 0 THEN a[1] ELSE SumAllAxes(RemoveAt(n, 1), SumAxis(n, a, 1))
(* np.cumsum(array, axis=k) (inclusive) *)
CumSumAxis(n, a, k) == MkArr(n, LAMBDA i : VSum([t \in 1 .. (i[k] + 1) |-> At(n, a, [i EXCEPT ![k] = t - 1])], NV(a)))
(* Mesh.sel(name) + np.sum along that axis: one axis less *)
DropSum(f, x) == LET k == PosOf(f.ax, x)
                 IN [m |-> DropAxis(f.m, k), ax |-> RemoveAt(f.ax, k), a |-> SumAxis(f.m.n, f.a, k)]
RECURSIVE SumDirs(_, _)
SumDirs(f, xs) == IF Len(xs) = 0 THEN f ELSE SumDirs(DropSum(f, Head(xs)), Tail(xs))

(* ---- the public calls ---------------------------------------------------------------- *)
(* Field.integrate(): np.sum over all axes * mesh.dV *)
IntegrateAll(f) == ResArray(VScale(ProdSeq(f.m.c), SumAllAxes(f.m.n, f.a)), 1)
(* Field.integrate(direction): np.sum along the axis * cell[axis] on mesh.sel(direction) *)
IntegrateDir(f, x) == LET k == PosOf(f.ax, x)
                          r == DropSum(f, x)
                      IN [r EXCEPT !.a = ScaleArr(f.m.c[k], r.a)]
(* ... a one-dimensional field has no mesh left: the plain array is returned *)
IntegrateRes(f, x) == IF Len(f.ax) = 1 THEN ResArray(IntegrateDir(f, x).a[1], 1) ELSE ResField(IntegrateDir(f, x), 1)
(* Field.integrate(direction, cumulative=True): array/2, cells right of the first get    *)
(* the cumulative sum of their left neighbours, * cell[axis]; numerators over 2         *)
IntegrateCum(f, x) ==
   LET k  == PosOf(f.ax, x)
       n  == f.m.n
       cs == CumSumAxis(n, f.a, k)
   IN ResField([f EXCEPT !.a = MkArr(n, LAMBDA i :
                   VScale(f.m.c[k], IF i[k] = 0 THEN At(n, f.a, i)
                                    ELSE VAdd(At(n, f.a, i), VScale(2, At(n, cs, [i EXCEPT ![k] = i[k] - 1])))))], 2)
(* chains f.integrate(x1).integrate(x2)...: every step is a public call on the previous result *)
RECURSIVE ChainFld(_, _)
ChainFld(f, xs) == IF Len(xs) = 0 THEN f ELSE ChainFld(IntegrateDir(f, Head(xs)), Tail(xs))
Chain(f, xs) == IF Len(xs) = Len(f.ax) THEN ResArray(ChainFld(f, xs).a[1], 1) ELSE ResField(ChainFld(f, xs), 1)
(* Field.mean(): numerators over the cell count *)
MeanAll(f) == ResArray(SumAllAxes(f.m.n, f.a), ProdSeq(f.m.n))
(* Field.mean(direction | [directions]): all directions -> plain array, else a field on  *)
(* the mesh with those axes removed (one sel() per direction, in the given order)      *)
MeanDirs(f, xs) == LET r   == SumDirs(f, xs)
                       den == ProdSeq([j \in DOMAIN xs |-> f.m.n[PosOf(f.ax, xs[j])]])
                   IN IF Len(xs) = Len(f.ax) THEN ResArray(r.a[1], den) ELSE ResField(r, den)
MeanDir(f, x) == MeanDirs(f, <<x>>)

(* operations as data, for the batched actions *)
Ops(m) == {<<"all">>, <<"mean_all">>} \cup {<<o, d>> : o \in {"dir", "cum", "mean_dir"}, d \in Dims(m)}
Apply(op, f) == CASE op[1] = "all"      -> IntegrateAll(f)
                  [] op[1] = "mean_all" -> MeanAll(f)
                  [] op[1] = "dir"      -> IntegrateRes(f, op[2])
                  [] op[1] = "cum"      -> IntegrateCum(f, op[2])
                  [] op[1] = "mean_dir" -> MeanDir(f, op[2])

(* ---- configuration ------------------------------------------------------------------- *)
Meshes == UNION {{[lo |-> Prefix(lp, k), c |-> Prefix(cp, k), n |-> nn] :
                      nn \in [1 .. k -> 1 .. MaxN[k]], cp \in CProf, lp \in LoProf} : k \in 1 .. 4}
A == PatArr(mesh.n, nv, pat)          \* the field under test
B == PatArr(mesh.n, nv, pat + 1)      \* a second field for linear combinations
F == Fld(mesh, A)
G == Fld(mesh, B)
AxSeqs == DistinctSeqs(Dims(mesh))

(* queries are issued from the fresh field only: they do not change it *)
Fresh == act[1] = "new"
Init == /\ mesh \in Meshes /\ nv \in NVs /\ pat \in Pats
        /\ act = <<"new">>
        /\ obs = [a |-> A, b |-> B]

QIntegrateAll == /\ Fresh /\ act' = <<"integrate_all">>
                 /\ obs' = IntegrateAll(F)
                 /\ UNCHANGED <<mesh, nv, pat>>
QIntegrateDir == \E d \in Dims(mesh) :
                 /\ Fresh /\ act' = <<"integrate_dir", d>>
                 /\ obs' = IntegrateRes(F, d)
                 /\ UNCHANGED <<mesh, nv, pat>>
QIntegrateCum == \E d \in Dims(mesh) :
                 /\ Fresh /\ act' = <<"integrate_cum", d>>
                 /\ obs' = IntegrateCum(F, d)
                 /\ UNCHANGED <<mesh, nv, pat>>
(* every chain of directional integrals, in every order (one state holds them all) *)
QChains       == /\ Fresh /\ act' = <<"chains">>
                 /\ obs' = [xs \in AxSeqs |-> Chain(F, xs)]
                 /\ UNCHANGED <<mesh, nv, pat>>
QMeanAll      == /\ Fresh /\ act' = <<"mean_all">>
                 /\ obs' = MeanAll(F)
                 /\ UNCHANGED <<mesh, nv, pat>>
QMeanDir      == \E d \in Dims(mesh) :
                 /\ Fresh /\ act' = <<"mean_dir", d>>
                 /\ obs' = MeanDir(F, d)
                 /\ UNCHANGED <<mesh, nv, pat>>
(* mean over every list of directions, in every order *)
QMeanSeqs     == /\ Fresh /\ act' = <<"mean_seqs">>
                 /\ obs' = [xs \in AxSeqs |-> MeanDirs(F, xs)]
                 /\ UNCHANGED <<mesh, nv, pat>>
(* the same calls on a*f + b*g *)
QLinear       == \E ab \in Coefs :
                 /\ Fresh /\ act' = <<"linear", ab>>
                 /\ obs' = [op \in Ops(mesh) |-> Apply(op, Fld(mesh, LinArr(ab[1], A, ab[2], B)))]
                 /\ UNCHANGED <<mesh, nv, pat>>
(* the same calls on the same values carried by the translated mesh *)
QTranslated   == \E s \in Shifts :
                 /\ Fresh /\ act' = <<"translated", s>>
                 /\ obs' = [op \in Ops(mesh) |-> Apply(op, Fld(Shift(mesh, s), A))]
                 /\ UNCHANGED <<mesh, nv, pat>>
(* the same calls after the mesh UNDER the field has been scaled in place about the origin (a history: read, *)
(* mesh.scale(s, inplace=True), read again): the integrals must use the cell measure of the mesh as it is NOW  *)
ScaleMesh(m, s) == [m EXCEPT !.lo = [d \in Dims(m) |-> s * m.lo[d]], !.c = [d \in Dims(m) |-> s * m.c[d]]]
QRescaled     == \E s \in Scales :
                 /\ Fresh /\ act' = <<"rescaled", s>>
                 /\ obs' = [op \in Ops(mesh) |-> Apply(op, Fld(ScaleMesh(mesh, s), A))]
                 /\ UNCHANGED <<mesh, nv, pat>>
(* the same calls on a single component (f.<label>) *)
QComponent    == \E c \in 1 .. nv :
                 /\ Fresh /\ nv > 1
                 /\ act' = <<"component", c>>
                 /\ obs' = [op \in Ops(mesh) |-> Apply(op, Fld(mesh, Component(A, c)))]
                 /\ UNCHANGED <<mesh, nv, pat>>

(* a plain disjunction of named actions, so that -coverage reports each of them *)
Next == \/ QIntegrateAll \/ QIntegrateDir \/ QIntegrateCum \/ QChains
        \/ QMeanAll \/ QMeanDir \/ QMeanSeqs \/ QLinear \/ QTranslated \/ QComponent \/ QRescaled
Spec == Init /\ [][Next]_vars

(* ==== the property, clause by clause (in the property's own terms) ==================== *)
(* Every clause is a predicate over a *result* r (and the field it was computed from):   *)
(* the invariants C06_* below apply them to the specification's own results, C06Trace    *)
(* applies the same predicates to results observed on the real library.                 *)
CompsOf(a) == 1 .. NV(a)
CellSum(n, a, c) == Sum([k \in 1 .. ProdSeq(n) |-> a[k][c]])
(* sum along axis k of the line through the reduced index j *)
LineSum(n, a, j, k, c) == Sum([t \in 1 .. n[k] |-> At(n, a, InsertAt(j, k, t - 1))[c]])
(* sum of the cells preceding cell i along axis k *)
Preceding(n, a, i, k, c) == Sum([t \in 1 .. i[k] |-> At(n, a, [i EXCEPT ![k] = t - 1])[c]])
Extent(m, S) == ProdSeq([j \in 1 .. Len(S) |-> Edge(m, S[j])])
AxesOf(m)    == [d \in Dims(m) |-> d]
RedIdx(n)    == IF Len(n) = 0 THEN {<<>>} ELSE IdxBox(n)
SameShape(r, s) == /\ r.ok /\ s.ok /\ r.kind = s.kind /\ r.m = s.m /\ r.ax = s.ax /\ Len(r.v) = Len(s.v)
                   /\ \A k \in DOMAIN r.v : Len(r.v[k]) = Len(s.v[k])

(* the integral over all directions = sum of the cell values * cell volume *)
VolumeOK(r, m, a) == /\ r.ok /\ r.kind = "array" /\ r.den = 1 /\ Len(r.v) = 1 /\ Len(r.v[1]) = NV(a)
                     /\ \A c \in CompsOf(a) : r.v[1][c] = CellSum(m.n, a, c) * ProdSeq(m.c)
(* each directional integral = sum along that axis * cell length, on the mesh with that axis removed *)
(* (a one-dimensional field has no mesh left: the plain numbers)                         *)
DirectionalOK(r, m, a, d) ==
      /\ r.ok
      /\ IF ND(m) = 1
         THEN /\ r.kind = "array" /\ r.den = 1 /\ Len(r.v) = 1 /\ Len(r.v[1]) = NV(a)
              /\ \A c \in CompsOf(a) : r.v[1][c] = m.c[1] * CellSum(m.n, a, c)
         ELSE /\ r.kind = "field" /\ r.den = 1
              /\ r.m = DropAxis(m, d)
              /\ r.ax = RemoveAt(AxesOf(m), d)
              /\ Len(r.v) = ProdSeq(r.m.n)
              /\ \A j \in IdxBox(r.m.n) : /\ Len(At(r.m.n, r.v, j)) = NV(a)
                                          /\ \A c \in CompsOf(a) : At(r.m.n, r.v, j)[c] = m.c[d] * LineSum(m.n, a, j, d, c)
(* integrating direction by direction in any order gives the same number (and the same   *)
(* intermediate field for the same set of directions); tab: sequence of directions ->    *)
(* result; whole: the result of integrating over all directions at once                  *)
FubiniOK(tab, whole, m, a) ==
      /\ \A xs \in DOMAIN tab : \A ys \in DOMAIN tab : Range(xs) = Range(ys) => tab[xs] = tab[ys]
      /\ \A xs \in DOMAIN tab : Len(xs) = ND(m) => tab[xs] = whole /\ VolumeOK(tab[xs], m, a)
      /\ \A xs \in DOMAIN tab : Len(xs) = 1 => DirectionalOK(tab[xs], m, a, xs[1])
(* cumulative integral at a cell = cell length * (sum of the preceding cells + half the cell's own value) *)
CumOK(r, m, a, d) ==
      /\ r.ok /\ r.kind = "field" /\ r.den = 2 /\ r.m = m /\ r.ax = AxesOf(m) /\ Len(r.v) = ProdSeq(m.n)
      /\ \A i \in Indices(m) : /\ Len(At(m.n, r.v, i)) = NV(a)
                               /\ \A c \in CompsOf(a) :
                                     At(m.n, r.v, i)[c] = m.c[d] * (2 * Preceding(m.n, a, i, d, c) + At(m.n, a, i)[c])
(* its last entry + half the last cell = the directional integral I (numbers of a 1-D field: I.v[1]) *)
CumLastOK(r, I, m, a, d) ==
      LET nn == RemoveAt(m.n, d) IN
      /\ r.ok /\ I.ok /\ Len(r.v) = ProdSeq(m.n) /\ Len(I.v) = ProdSeq(nn)
      /\ \A j \in RedIdx(nn) : \A c \in CompsOf(a) :
            LET last == InsertAt(j, d, m.n[d] - 1)
            IN I.den * (At(m.n, r.v, last)[c] + m.c[d] * At(m.n, a, last)[c]) = r.den * At(nn, I.v, j)[c]
(* mean over all / one / several directions = integral / integrated extent *)
MeanOK(r, I, ext) == /\ SameShape(r, I)
                     /\ \A k \in DOMAIN r.v : \A c \in DOMAIN r.v[k] : r.v[k][c] * ext * I.den = I.v[k][c] * r.den
(* linear in the field: r computed from a*f + b*g, rf from f, rg from g *)
LinearOK(r, rf, rg, a, b) ==
      /\ SameShape(r, rf) /\ SameShape(r, rg) /\ r.den = rf.den /\ r.den = rg.den
      /\ \A k \in DOMAIN r.v : \A c \in DOMAIN r.v[k] : r.v[k][c] = a * rf.v[k][c] + b * rg.v[k][c]
(* independent of where the mesh sits: same numbers; the result mesh (if any) moved along *)
TranslOK(r, r0, s) ==
      /\ r.ok /\ r0.ok /\ r.kind = r0.kind /\ r.v = r0.v /\ r.den = r0.den /\ r.ax = r0.ax
      /\ r.m.n = r0.m.n /\ r.m.c = r0.m.c /\ Len(r.m.lo) = Len(r0.m.lo)
      /\ \A j \in DOMAIN r.ax : r.m.lo[j] = r0.m.lo[j] + s[r.ax[j]]
(* acts per component: r computed from component c alone, r0 from the whole field *)
CompOK(r, r0, c) ==
      /\ r.ok /\ r0.ok /\ r.kind = r0.kind /\ r.m = r0.m /\ r.ax = r0.ax /\ r.den = r0.den /\ Len(r.v) = Len(r0.v)
      /\ \A k \in DOMAIN r.v : r.v[k] = <<r0.v[k][c]>>

(* ---- the invariants of the model ---------------------------------------------------- *)
TypeOK == /\ \A d \in Dims(mesh) : mesh.n[d] >= 1 /\ mesh.c[d] >= 1
          /\ \A d, e \in Dims(mesh) : d # e => mesh.c[d] # mesh.c[e]       \* anisotropic cells
          /\ (act[1] \in {"integrate_all", "integrate_dir", "integrate_cum", "mean_all", "mean_dir"} => obs.ok)
C06_VolumeIsSum == act[1] = "integrate_all" => VolumeOK(obs, mesh, A)
C06_DirectionalOnReducedMesh == act[1] = "integrate_dir" => DirectionalOK(obs, mesh, A, act[2])
C06_OneDimScalar == (act[1] \in {"integrate_dir", "mean_dir"} /\ ND(mesh) = 1) => obs.kind = "array"
C06_Fubini == act[1] = "chains" => FubiniOK(obs, IntegrateAll(F), mesh, A) /\ DOMAIN obs = AxSeqs
C06_CumulativeHalfCell == act[1] = "integrate_cum" => CumOK(obs, mesh, A, act[2])
C06_CumLastPlusHalf == act[1] = "integrate_cum" => CumLastOK(obs, IntegrateRes(F, act[2]), mesh, A, act[2])
C06_MeanIsIntegralOverExtent ==
      /\ act[1] = "mean_all" => MeanOK(obs, IntegrateAll(F), Extent(mesh, AxesOf(mesh)))
      /\ act[1] = "mean_dir" => MeanOK(obs, IntegrateRes(F, act[2]), Edge(mesh, act[2]))
      /\ act[1] = "mean_seqs" => \A xs \in DOMAIN obs : MeanOK(obs[xs], Chain(F, xs), Extent(mesh, xs))
      /\ act[1] = "mean_seqs" => DOMAIN obs = AxSeqs
C06_Linear == act[1] = "linear" =>
      \A op \in DOMAIN obs : LinearOK(obs[op], Apply(op, F), Apply(op, G), act[2][1], act[2][2])
C06_TranslationInvariant == act[1] = "translated" =>
      \A op \in DOMAIN obs : TranslOK(obs[op], Apply(op, F), act[2])
(* after an in-place scaling every clause holds for the mesh as it is now (stale cell measures are excluded) *)
C06_AfterInplaceScale == act[1] = "rescaled" =>
      LET M2 == ScaleMesh(mesh, act[2]) IN
      /\ VolumeOK(obs[<<"all">>], M2, A)
      /\ MeanOK(obs[<<"mean_all">>], obs[<<"all">>], Extent(M2, AxesOf(M2)))
      /\ \A d \in Dims(mesh) : /\ DirectionalOK(obs[<<"dir", d>>], M2, A, d)
                               /\ CumOK(obs[<<"cum", d>>], M2, A, d)
                               /\ CumLastOK(obs[<<"cum", d>>], obs[<<"dir", d>>], M2, A, d)
                               /\ MeanOK(obs[<<"mean_dir", d>>], obs[<<"dir", d>>], Edge(M2, d))
C06_PerComponent == act[1] = "component" =>
      \A op \in DOMAIN obs : CompOK(obs[op], Apply(op, F), act[2])
=============================================================================
