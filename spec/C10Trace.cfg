SPECIFICATION TSpec
CONSTANTS
  Fields = {}
  IU = 8
CHECK_DEADLOCK FALSE
