------------------------------ MODULE C06Trace ------------------------------
(* Channel T for C06: results observed on the real library (random integer fields on   *)
(* larger meshes, projected to lattice integers over the known denominator) are checked *)
(* event by event.  The variables of C06 are bound to the *observed* values, the        *)
(* property's clause predicates (VolumeOK, DirectionalOK, FubiniOK, CumOK, CumLastOK,   *)
(* MeanOK, LinearOK, TranslOK, CompOK) are evaluated on them, and the observation is    *)
(* compared with the specification's own operators.  Verdicts are total: a disagreement *)
(* prints one VERDICT line <<"VERDICT", trace id, event, <<clause, condition>>>> and    *)
(* the trace goes on.                                                                   *)
EXTENDS C06, Json, IOUtils

VARIABLES tid, l
tvars == <<mesh, nv, pat, act, obs, tid, l>>

Traces == JsonDeserialize(IOEnv.TRACE_FILE)
T  == Traces[tid]
Ev == Traces[tid].ev[l + 1]
Verd(c, name) == IF c THEN TRUE ELSE PrintT(<<"VERDICT", Traces[tid].id, l + 1, name>>)

TA == Traces[tid].a
TB == Traces[tid].b
TF == Fld(mesh, TA)
TG == Fld(mesh, TB)
(* the observed result as a result record of C06 *)
Obs(r) == IF r.ok THEN [ok |-> TRUE, kind |-> r.kind, m |-> [lo |-> r.m.lo, c |-> r.m.c, n |-> r.m.n],
                        ax |-> r.ax, v |-> r.v, den |-> r.den]
          ELSE Rej
Good(r) == r.ok /\ r.exact

ClauseOf(op) == CASE op[1] = "all" -> "C06_VolumeIsSum"
                  [] op[1] = "dir" -> "C06_DirectionalOnReducedMesh"
                  [] op[1] = "cum" -> "C06_CumulativeHalfCell"
                  [] OTHER         -> "C06_MeanIsIntegralOverExtent"
(* the property's predicate for a single call, on an observed result *)
PropOK(op, r) == CASE op[1] = "all"      -> VolumeOK(r, mesh, TA)
                   [] op[1] = "dir"      -> DirectionalOK(r, mesh, TA, op[2])
                   [] op[1] = "cum"      -> CumOK(r, mesh, TA, op[2])
                   [] op[1] = "mean_all" -> MeanOK(r, IntegrateAll(TF), Extent(mesh, AxesOf(mesh)))
                   [] op[1] = "mean_dir" -> MeanOK(r, IntegrateRes(TF, op[2]), Edge(mesh, op[2]))
(* common verdicts about one observed result r against the specification's result e *)
Basic(r, e, cl) == /\ Verd(r.ok, <<cl, "raises">>)
                   /\ Verd(r.ok => r.kind = e.kind, <<cl, "type">>)
                   /\ Verd((r.ok /\ r.kind = e.kind) => r.exact, <<cl, "values-off-lattice">>)
                   /\ Verd((Good(r) /\ r.kind = e.kind) => Obs(r) = e, <<cl, "values">>)

TInit == /\ tid \in 1 .. Len(Traces)
         /\ l = 0
         /\ mesh = Traces[tid].mesh
         /\ nv = Traces[tid].nv
         /\ pat = 0
         /\ act = <<"new">>
         /\ obs = [a |-> Traces[tid].a, b |-> Traces[tid].b]

StepOp == /\ Ev.k = "op"
          /\ act' = Ev.op
          /\ obs' = Obs(Ev.r)
          /\ Basic(Ev.r, Apply(Ev.op, TF), ClauseOf(Ev.op))
          /\ Verd(Good(Ev.r) => PropOK(Ev.op, Obs(Ev.r)), <<ClauseOf(Ev.op), "clause">>)

StepChains == /\ Ev.k = "chains"
              /\ act' = <<"chains">>
              /\ LET J   == DOMAIN Ev.tab
                     Seqs == {Ev.tab[j][1] : j \in J}
                     RawOf(xs) == Ev.tab[CHOOSE j \in J : Ev.tab[j][1] = xs][2]
                     tab == [xs \in Seqs |-> Obs(RawOf(xs))]
                 IN /\ obs' = tab
                    /\ \A xs \in Seqs : Basic(RawOf(xs), Chain(TF, xs), "C06_Fubini")
                    /\ Basic(Ev.all, IntegrateAll(TF), "C06_VolumeIsSum")
                    /\ Verd(((\A xs \in Seqs : Good(RawOf(xs))) /\ Good(Ev.all))
                               => FubiniOK(tab, Obs(Ev.all), mesh, TA), <<"C06_Fubini", "clause">>)

StepCum == /\ Ev.k = "cum"
           /\ act' = <<"integrate_cum", Ev.d>>
           /\ obs' = Obs(Ev.r)
           /\ Basic(Ev.r, IntegrateCum(TF, Ev.d), "C06_CumulativeHalfCell")
           /\ Basic(Ev.dir, IntegrateRes(TF, Ev.d), "C06_DirectionalOnReducedMesh")
           /\ Verd(Good(Ev.r) => CumOK(Obs(Ev.r), mesh, TA, Ev.d), <<"C06_CumulativeHalfCell", "clause">>)
           /\ Verd((Good(Ev.r) /\ Good(Ev.dir)) => CumLastOK(Obs(Ev.r), Obs(Ev.dir), mesh, TA, Ev.d),
                   <<"C06_CumLastPlusHalf", "clause">>)

StepMean == /\ Ev.k = "mean"
            /\ act' = <<Ev.form, Ev.xs>>
            /\ obs' = Obs(Ev.r)
            /\ Basic(Ev.r, MeanDirs(TF, Ev.xs), "C06_MeanIsIntegralOverExtent")
            /\ Basic(Ev.int, Chain(TF, Ev.xs), "C06_Fubini")
            (* the observed mean against the *observed* integral over the same directions *)
            /\ Verd((Good(Ev.r) /\ Good(Ev.int)) => MeanOK(Obs(Ev.r), Obs(Ev.int), Extent(mesh, Ev.xs)),
                    <<"C06_MeanIsIntegralOverExtent", "clause">>)

StepLin == /\ Ev.k = "lin"
           /\ act' = <<"linear", <<Ev.a, Ev.b>>>>
           /\ obs' = Obs(Ev.r)
           /\ Basic(Ev.r, Apply(Ev.op, Fld(mesh, LinArr(Ev.a, TA, Ev.b, TB))), "C06_Linear")
           /\ Basic(Ev.rf, Apply(Ev.op, TF), ClauseOf(Ev.op))
           /\ Basic(Ev.rg, Apply(Ev.op, TG), ClauseOf(Ev.op))
           /\ Verd((Good(Ev.r) /\ Good(Ev.rf) /\ Good(Ev.rg))
                      => LinearOK(Obs(Ev.r), Obs(Ev.rf), Obs(Ev.rg), Ev.a, Ev.b), <<"C06_Linear", "clause">>)

StepTransl == /\ Ev.k = "transl"
              /\ act' = <<"translated", Ev.s>>
              /\ obs' = Obs(Ev.r)
              /\ Basic(Ev.r, Apply(Ev.op, Fld(Shift(mesh, Ev.s), TA)), "C06_TranslationInvariant")
              /\ Basic(Ev.r0, Apply(Ev.op, TF), ClauseOf(Ev.op))
              /\ Verd((Good(Ev.r) /\ Good(Ev.r0)) => TranslOK(Obs(Ev.r), Obs(Ev.r0), Ev.s),
                      <<"C06_TranslationInvariant", "clause">>)

StepComp == /\ Ev.k = "comp"
            /\ act' = <<"component", Ev.c>>
            /\ obs' = Obs(Ev.r)
            /\ Basic(Ev.r, Apply(Ev.op, Fld(mesh, Component(TA, Ev.c))), "C06_PerComponent")
            /\ Basic(Ev.r0, Apply(Ev.op, TF), ClauseOf(Ev.op))
            /\ Verd((Good(Ev.r) /\ Good(Ev.r0)) => CompOK(Obs(Ev.r), Obs(Ev.r0), Ev.c), <<"C06_PerComponent", "clause">>)

TNext == /\ l < Len(Traces[tid].ev)
         /\ (StepOp \/ StepChains \/ StepCum \/ StepMean \/ StepLin \/ StepTransl \/ StepComp)
         /\ l' = l + 1
         /\ UNCHANGED <<mesh, nv, pat, tid>>
         /\ Verd(Len(TA) = ProdSeq(mesh.n) /\ Len(TB) = ProdSeq(mesh.n) /\ NV(TA) = nv, <<"trace", "array-shape">>)
TSpec == TInit /\ [][TNext]_tvars
=============================================================================
