SPECIFICATION TSpec
CONSTANTS
  Shapes = {}
  CProf = {}
  LoProf = {}
  NVs = {}
  MaskKinds = {}
  SubKinds = {}
  Reprs = {}
  BadShapes = {}
  AltLabels = FALSE
CHECK_DEADLOCK FALSE
