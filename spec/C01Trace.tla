------------------------------ MODULE C01Trace ------------------------------
(* Channel T for C01: executions recorded from the real library (large random meshes,  *)
(* arbitrary integer probe coordinates) are checked step by step.  The variables of    *)
(* C01 are bound to the *observed* values, the property clauses are evaluated on them, *)
(* and the observation is compared with the specification's own result.  Verdicts are  *)
(* total: a disagreement prints one VERDICT line and the trace goes on.                *)
EXTENDS C01, Json, IOUtils

VARIABLES tid, l
tvars == <<mesh, moved, act, obs, tid, l>>

Traces == JsonDeserialize(IOEnv.TRACE_FILE)
T  == Traces[tid]
Ev == Traces[tid].ev[l + 1]
Verd(c, name) == IF c THEN TRUE ELSE PrintT(<<"VERDICT", Traces[tid].id, l + 1, name>>)

TInit == /\ tid \in 1 .. Len(Traces)
         /\ l = 0
         /\ mesh = Traces[tid].mesh
         /\ moved = <<>>
         /\ act = <<"new">>
         /\ obs = [n |-> Traces[tid].n, len |-> Traces[tid].len]

StepP2I == /\ Ev.k = "p2i"
           /\ act' = <<"point2index", Ev.p>>
           /\ obs' = IF Ev.ok THEN [ok |-> TRUE, idx |-> Ev.r] ELSE Rej
           /\ LET exp == P2IResult(mesh, Ev.p) IN
                /\ Verd(exp.ok = Ev.ok, "p2i-accept-iff-inside")
                /\ Verd((exp.ok /\ Ev.ok) =>
                          IF T.dy THEN Ev.r = exp.idx ELSE \A d \in Dims(mesh) : Ev.r[d] \in exp.alt[d],
                        "p2i-index")
                /\ Verd(Ev.ok => /\ InRange(mesh, Ev.r)
                                 /\ \A d \in Dims(mesh) : InClosedCellAx(mesh, d, Ev.r[d], Ev.p[d]),
                        "C01_Contains")
StepI2P == /\ Ev.k = "i2p"
           /\ act' = <<"index2point", Ev.i>>
           /\ obs' = IF Ev.ok THEN Ok(Ev.r) ELSE Rej
           /\ Verd(I2PResult(mesh, Ev.i).ok = Ev.ok, "i2p-accept-iff-in-range")
           /\ Verd(Ev.ok => Ev.exact /\ I2PResult(mesh, Ev.i) = Ok(Ev.r), "i2p-centre")
           /\ Verd(Ev.ok /\ Ev.exact => P2I(mesh, Ev.r) = Ev.i, "C01_Inverse")
           (* the library's own round trip *)
           /\ Verd(Ev.ok => Ev.back = Ev.i, "C01_Inverse-observed")
StepAxis == /\ Ev.k \in {"cells", "vertices"}
            /\ act' = <<Ev.k, Ev.d>>
            /\ obs' = Ev.r
            /\ Verd(Ev.exact, "axis-on-lattice")
            /\ Verd(Ev.exact => Ev.r = IF Ev.k = "cells" THEN CentresAx(mesh, Ev.d) ELSE VerticesAx(mesh, Ev.d),
                    "C01_AxesAgree")
StepIter == /\ Ev.k = "iterate"
            /\ act' = <<"iterate">>
            /\ obs' = Ev.r
            /\ Verd(Ev.r = IterOrder(mesh.n), "C01_Order")
StepByCell == /\ Ev.k = "by_cell"
              /\ act' = <<"by_cell", Ev.cr>>
              /\ obs' = IF Ev.ok THEN Ok(Ev.r) ELSE Rej
              /\ Verd(CellReqResult(mesh, Ev.cr) = obs', "C01_CellRequest")

TNext == /\ l < Len(Traces[tid].ev)
         /\ (StepP2I \/ StepI2P \/ StepAxis \/ StepIter \/ StepByCell)
         /\ l' = l + 1
         /\ UNCHANGED <<mesh, moved, tid>>
         /\ Verd(Traces[tid].n = mesh.n /\ Traces[tid].len = NCells(mesh), "len-and-n")
TSpec == TInit /\ [][TNext]_tvars
=============================================================================
