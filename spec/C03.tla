-------------------------------- MODULE C03 --------------------------------
(* C03 - field algebra is cell-wise NumPy algebra on one mesh; operands stay untouched. *)
(*                                                                                     *)
(* The register machine of FieldAlg.tla restricted to the algebra actions.  State:     *)
(* `regs` (fields, numbers, constant vectors, per-cell arrays), `prog` (the expression  *)
(* built so far, one instruction per public call), `obs` (what the last call must      *)
(* return).  The clauses of the property are stated below *pointwise* (per cell and     *)
(* component), independently of the array-level operators the actions are built from.   *)
EXTENDS FieldAlg

(* registers before the last instruction (C03 actions only append) *)
Pre   == IF prog # <<>> /\ obs.ok THEN SubSeq(regs, 1, Len(regs) - 1) ELSE regs
OpA   == Pre[LastIns[2]]
OpB   == IF LastIns[3] > 0 THEN Pre[LastIns[3]] ELSE OpA
(* component c of operand y in cell k under NumPy broadcasting *)
BcAt(y, k, c) == LET s == OC(y, k) IN IF Len(s) = 1 THEN s[1] ELSE s[c]
Cellwise2(op) == op \in EWOps \/ op = "ufunc2"
ScalarOp(ins) == IF ins[1] = "ufunc2" THEN UfName(ins[4]) ELSE ins[1]
Cellwise1(ins) == ins[1] \in {"neg", "pos", "abs", "real", "imag", "conj", "cabs"} \/ (ins[1] = "ufunc1" /\ ins[4] # "sin")
Unary1(ins) == CASE ins[1] = "ufunc1" -> UfName(ins[4]) [] ins[1] = "cabs" -> "abs" [] OTHER -> ins[1]

(* ---- the result is the same expression evaluated cell by cell ---------------------- *)
C03_Cellwise ==
   (prog # <<>> /\ obs.ok /\ obs.reg.vx /\ HasVals(OpA) /\ HasVals(OpB)) =>
      LET ins == LastIns  r == obs.reg  f == SelfOf(OpA, OpB)
      IN /\ Cellwise2(ins[1]) =>
              /\ r.m = f.m /\ r.nv = Max2(ONv(OpA), ONv(OpB)) /\ Len(r.val) = NCellsM(f.m)
              /\ \A k \in DOMAIN r.val : \A c \in 1 .. r.nv :
                    r.val[k][c] = GBin(ScalarOp(ins), BcAt(OpA, k, c), BcAt(OpB, k, c))
         /\ Cellwise1(ins) =>
              /\ r.m = OpA.m /\ r.nv = OpA.nv
              /\ \A k \in DOMAIN r.val : \A c \in 1 .. r.nv : r.val[k][c] = GUn(Unary1(ins), OpA.val[k][c])
         /\ ins[1] = "dot" =>
              /\ r.m = f.m /\ r.nv = 1
              /\ \A k \in DOMAIN r.val : r.val[k][1] = GSum([l \in 1 .. Max2(ONv(OpA), ONv(OpB)) |-> GMul(BcAt(OpA, k, l), BcAt(OpB, k, l))])
         /\ ins[1] = "cross" =>
              /\ r.m = f.m /\ r.nv = 3
              /\ \A k \in DOMAIN r.val : \A c \in 1 .. 3 :
                    LET p == (c % 3) + 1  q == ((c + 1) % 3) + 1
                    IN r.val[k][c] = GSub(GMul(BcAt(OpA, k, p), BcAt(OpB, k, q)), GMul(BcAt(OpA, k, q), BcAt(OpB, k, p)))
         /\ ins[1] = "lshift" =>
              /\ r.m = f.m /\ r.nv = ONv(OpA) + ONv(OpB)
              /\ \A k \in DOMAIN r.val : \A c \in 1 .. r.nv :
                    r.val[k][c] = IF c <= ONv(OpA) THEN OC(OpA, k)[c] ELSE OC(OpB, k)[c - ONv(OpA)]
         /\ ins[1] = "comp" => r.m = OpA.m /\ r.nv = 1 /\ \A k \in DOMAIN r.val : r.val[k][1] = OpA.val[k][ins[4]]
(* angle and norm are carried through their squares: cos^2 <= 1, sign of the dot product *)
C03_AngleNorm ==
   (prog # <<>> /\ obs.ok) =>
      /\ LastIns[1] = "angle" =>
            \A k \in DOMAIN obs.reg.aux : LET t == obs.reg.aux[k] IN 0 <= t[2] /\ t[2] <= t[3] /\ (t[1] = 0 <=> t[2] = 0)
      /\ (LastIns[1] = "norm" /\ obs.reg.vx) =>
            \A k \in DOMAIN obs.reg.val : GMul(obs.reg.val[k][1], obs.reg.val[k][1]) = GNorm2(OpA.val[k])

(* ---- evaluation leaves every operand untouched ------------------------------------- *)
C03_OperandsUnchangedInv == prog # <<>> => (obs.ok => obs.ch = {}) /\ \A i \in DOMAIN Pre : regs[i] = Pre[i]
C03_OperandsUnchanged    == [][\A i \in DOMAIN regs : regs'[i] = regs[i]]_vars

(* ---- a*b == b*a, a+b == b+a including labels and mapping --------------------------- *)
SameFieldAs(r, s) == r.m = s.m /\ r.nv = s.nv /\ r.val = s.val /\ r.valid = s.valid /\ r.vdims = s.vdims /\ r.map = s.map
C03_Commutes ==
   (prog # <<>> /\ LastIns[1] \in {"add", "mul"} /\ LastIns[3] > 0) =>
      LET sw == <<LastIns[1], LastIns[3], LastIns[2], LastIns[4]>>
      IN /\ Accepted(Pre, sw) = obs.ok
         /\ obs.ok => SameFieldAs(ResultReg(Pre, sw), obs.reg)

(* ---- stacking the components of a vector field reproduces it ----------------------- *)
C03_StackComponents ==
   (prog # <<>> /\ LastIns[1] = "restack") =>
      /\ obs.ok /\ obs.reg.m = OpA.m /\ obs.reg.nv = OpA.nv /\ obs.reg.val = OpA.val /\ obs.reg.valid = OpA.valid
      /\ (OpA.vdims = DefaultVdims(OpA.nv) /\ OpA.map = DefaultMap(OpA.m, OpA.nv)) => SameFieldAs(obs.reg, OpA)

(* ---- different meshes / incompatible component counts are rejected ----------------- *)
TwoFieldOps == EWOps \cup {"dot", "cross", "angle", "lshift", "ufunc2"}
Mismatch(op, a, b) ==
   \/ a.m # b.m
   \/ op \in (EWOps \cup {"ufunc2"}) /\ a.nv # b.nv /\ a.nv # 1 /\ b.nv # 1
   \/ op \in {"dot", "angle"} /\ a.nv # b.nv
   \/ op = "cross" /\ (a.nv # 3 \/ b.nv # 3)
C03_RejectMismatch ==
   (prog # <<>> /\ LastIns[1] \in TwoFieldOps /\ LastIns[3] > 0 /\ IsField(OpA) /\ IsField(OpB)) =>
      (Mismatch(LastIns[1], OpA, OpB) => ~obs.ok)
(* anything the machine rejects is a mismatch of component counts or meshes *)
C03_RejectOnlyMismatch ==
   (prog # <<>> /\ ~obs.ok) =>
      \/ IsField(OpA) /\ IsField(OpB) /\ Mismatch(LastIns[1], OpA, OpB)
      \/ \E y \in {OpA, OpB} : IsVec(y) /\ (Len(y.val) # SelfOf(OpA, OpB).nv \/ (LastIns[1] = "cross" /\ Len(y.val) # 3))
                                          /\ ~(LastIns[1] = "dot" /\ (Len(y.val) = 1 \/ SelfOf(OpA, OpB).nv = 1))

(* ---- results are fields on the operands' mesh with their own validity object ------- *)
C03_ResultWellFormed == (prog # <<>> /\ obs.ok) => FieldOK(obs.reg) /\ obs.r = Len(regs)
                                                   /\ \A i \in DOMAIN Pre : IsField(Pre[i]) => Pre[i].vo # obs.reg.vo
=============================================================================
