------------------------------ MODULE C07Core ------------------------------
(* The one-dimensional integer core of C07 for UNBOUNDED coordinates, cell sizes and counts:   *)
(* "sub-selection, padding and resampling keep every value at its physical position".  TLC      *)
(* checks the index maps of the full model on small meshes (C07.tla, FieldAlg.tla, DF.tla);       *)
(* here Apalache proves, for a mesh [lo, lo + n c] on the integer lattice with ANY lo, n >= 1,    *)
(* c >= 1, that the cell k of the result lies exactly where the source cell it takes its value    *)
(* from lies - in doubled coordinates, so that cell centres are integers.                         *)
(* The state is one arbitrary choice of mesh, request and result cell: every clause is an        *)
(* invariant of the initial states, Next stutters.                                               *)
(*   apalache-mc check --init=Init --inv=<clause> --length=0 C07Core.tla                         *)
EXTENDS Integers

VARIABLES
  \* @type: Int;
  lo,
  \* @type: Int;
  n,
  \* @type: Int;
  c,
  \* @type: Int;
  j1,
  \* @type: Int;
  j2,
  \* @type: Int;
  pl,
  \* @type: Int;
  pr,
  \* @type: Int;
  m,
  \* @type: Int;
  k

Lo2 == 2 * lo
Centre2(lo2, cell, idx) == lo2 + (2 * idx + 1) * cell
(* the index of the cell of [lo2/2, ..) with cells `cell` that contains the doubled point q2 *)
IndexIn(lo2, cell, q2) == (q2 - lo2) \div (2 * cell)

Init == /\ lo \in Int /\ n \in Int /\ c \in Int /\ j1 \in Int /\ j2 \in Int /\ pl \in Int /\ pr \in Int /\ m \in Int /\ k \in Int
        /\ n >= 1 /\ c >= 1 /\ 0 <= j1 /\ j1 <= j2 /\ j2 < n /\ pl >= 0 /\ pr >= 0 /\ m >= 1 /\ k >= 0
Next == UNCHANGED <<lo, n, c, j1, j2, pl, pr, m, k>>

(* selecting the cells j1 .. j2: the result starts at the lower face of cell j1, has j2 - j1 + 1 cells of the same size *)
SelLo2 == Lo2 + 2 * j1 * c
SelN   == j2 - j1 + 1
C07_SelectionKeepsPositions ==
   k < SelN => /\ Centre2(SelLo2, c, k) = Centre2(Lo2, c, j1 + k)            \* result cell k IS source cell j1 + k
               /\ IndexIn(Lo2, c, Centre2(SelLo2, c, k)) = j1 + k              \* found again by point lookup in the source
C07_SelectionCellAligned ==
   /\ Lo2 <= SelLo2 /\ SelLo2 + 2 * SelN * c <= Lo2 + 2 * n * c              \* inside the source region
   /\ SelLo2 - Lo2 = 2 * j1 * c /\ SelN >= 1                                 \* on the source's cell faces, at least one cell

(* padding by pl cells below and pr cells above *)
PadLo2 == Lo2 - 2 * pl * c
PadN   == n + pl + pr
C07_PaddingKeepsPositions ==
   (pl <= k /\ k < pl + n) => /\ Centre2(PadLo2, c, k) = Centre2(Lo2, c, k - pl)
                              /\ IndexIn(Lo2, c, Centre2(PadLo2, c, k)) = k - pl
C07_PaddingNewCellsOutside ==
   (k < PadN /\ (k < pl \/ k >= pl + n)) => LET q == Centre2(PadLo2, c, k) IN q < Lo2 \/ q > Lo2 + 2 * n * c

(* refining every cell into m cells (the source cell is m fine cells long: c = m * cf with cf = c here and source cell m * c) *)
(* fine mesh: lo, n * m cells of size c; source mesh: lo, n cells of size m * c                                              *)
C07_RefinementTakesContainingCell ==
   k < n * m => LET q == Centre2(Lo2, c, k) IN
                /\ IndexIn(Lo2, m * c, q) = k \div m                           \* the source cell that contains the fine centre
                /\ 0 <= k \div m /\ k \div m < n
                /\ q # Lo2 + 2 * (k \div m) * (m * c)                          \* never on a source face: no rounding can decide
=============================================================================
