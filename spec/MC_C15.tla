------------------------------ MODULE MC_C15 ------------------------------
EXTENDS C15
Prefix(s, k) == [d \in 1 .. k |-> s[d]]
ProfA == [c |-> <<4, 4, 4, 4>>,  lo |-> <<0, 0, 0, 0>>]
ProfB == [c |-> <<12, 4, 8, 8>>, lo |-> <<-8, 4, -12, 20>>]
MeshesOf(NL, Profs) == {[lo |-> Prefix(p.lo, Len(nn)), c |-> Prefix(p.c, Len(nn)), n |-> nn] : nn \in NL, p \in Profs}
MeshSet_quick    == MeshesOf({<<1>>, <<5>>, <<2, 3>>}, {ProfB}) \cup MeshesOf({<<2, 1, 2>>}, {ProfA})
MeshSet_thorough == MeshesOf({<<1>>, <<3>>, <<5>>, <<2, 3>>, <<3, 3>>, <<2, 1, 2>>, <<3, 2, 2>>}, {ProfB})
                    \cup MeshesOf({<<7>>, <<2, 2>>, <<2, 2, 2, 1>>}, {ProfA})
NV_all == {1, 2, 3, 4}
Pats_quick == {0, 2}
Pats_thorough == {0, 2}
NormKinds_all == {"const", "array", "zeros", "func"}
=============================================================================
