------------------------------ MODULE C12Core ------------------------------
(* The two-dimensional integer core of C12 for UNBOUNDED coordinates, cell sizes, cell counts  *)
(* and reference points: a quarter turn (k = 1) in the plane of two axes about any reference    *)
(* point.  TLC checks the index maps of the full model on small meshes (C12.tla, DF.tla); here   *)
(* Apalache proves that the turned centre of the source cell (i, j) IS the centre of the result  *)
(* cell (ny - 1 - j, i) of the turned region, that the result is a normal mesh, that vectors     *)
(* turn with the positions, and that two / four turns are the half turn / the identity - in      *)
(* doubled coordinates (cell centres and a reference point at a cell centre are integers).       *)
(* The state is one arbitrary choice: every clause is an invariant of the initial states.        *)
(*   apalache-mc check --init=Init --inv=<clause> --length=0 C12Core.tla                         *)
EXTENDS Integers

VARIABLES
  \* @type: Int;
  lox,
  \* @type: Int;
  loy,
  \* @type: Int;
  nx,
  \* @type: Int;
  ny,
  \* @type: Int;
  cx,
  \* @type: Int;
  cy,
  \* @type: Int;
  rx,
  \* @type: Int;
  ry,
  \* @type: Int;
  i,
  \* @type: Int;
  j,
  \* @type: Int;
  px,
  \* @type: Int;
  py,
  \* @type: Int;
  vx,
  \* @type: Int;
  vy

(* everything below in doubled coordinates; (rx, ry) is the doubled reference point *)
RotX(x, y) == rx - (y - ry)          \* (x, y) -> r + (-(y - ry), x - rx)
RotY(x, y) == ry + (x - rx)

SrcLoX == 2 * lox
SrcLoY == 2 * loy
SrcHiX == 2 * lox + 2 * nx * cx
SrcHiY == 2 * loy + 2 * ny * cy
(* the turned region: images of the corners, sorted *)
ResLoX == RotX(SrcLoX, SrcHiY)
ResHiX == RotX(SrcLoX, SrcLoY)
ResLoY == RotY(SrcLoX, SrcLoY)
ResHiY == RotY(SrcHiX, SrcLoY)
(* the turned mesh: cell counts and cell sizes of the two axes swap *)
ResNX == ny
ResNY == nx
ResCX == cy
ResCY == cx

Init == /\ lox \in Int /\ loy \in Int /\ nx \in Int /\ ny \in Int /\ cx \in Int /\ cy \in Int /\ rx \in Int /\ ry \in Int
        /\ i \in Int /\ j \in Int /\ px \in Int /\ py \in Int /\ vx \in Int /\ vy \in Int
        /\ nx >= 1 /\ ny >= 1 /\ cx >= 1 /\ cy >= 1 /\ 0 <= i /\ i < nx /\ 0 <= j /\ j < ny
Next == UNCHANGED <<lox, loy, nx, ny, cx, cy, rx, ry, i, j, px, py, vx, vy>>

(* "every region still has pmin < pmax, n >= 1 and cell * n equal to the region edges" *)
C12_ResultNormal == /\ ResLoX < ResHiX /\ ResLoY < ResHiY /\ ResNX >= 1 /\ ResNY >= 1
                    /\ ResHiX - ResLoX = 2 * ResNX * ResCX /\ ResHiY - ResLoY = 2 * ResNY * ResCY
(* values move with their cells: the turned centre of source cell (i, j) is the centre of result cell (ny - 1 - j, i) *)
C12_CellsMoveWithTheTurn ==
   LET sx == SrcLoX + (2 * i + 1) * cx   sy == SrcLoY + (2 * j + 1) * cy
       ri == ny - 1 - j                  rj == i
   IN /\ RotX(sx, sy) = ResLoX + (2 * ri + 1) * ResCX
      /\ RotY(sx, sy) = ResLoY + (2 * rj + 1) * ResCY
      /\ 0 <= ri /\ ri < ResNX /\ 0 <= rj /\ rj < ResNY
(* vectors turn with the positions: the image of p + v minus the image of p is (-vy, vx) *)
C12_VectorsTurn == /\ RotX(px + vx, py + vy) - RotX(px, py) = 0 - vy
                   /\ RotY(px + vx, py + vy) - RotY(px, py) = vx
(* two turns are the point reflection about the reference point, four turns the identity *)
C12_TwoTurnsHalfTurn == LET x1 == RotX(px, py)  y1 == RotY(px, py) IN
                        RotX(x1, y1) = 2 * rx - px /\ RotY(x1, y1) = 2 * ry - py
C12_FourTurnsIdentity == LET x1 == RotX(px, py)  y1 == RotY(px, py)
                             x2 == RotX(x1, y1)  y2 == RotY(x1, y1)
                             x3 == RotX(x2, y2)  y3 == RotY(x2, y2)
                         IN RotX(x3, y3) = px /\ RotY(x3, y3) = py
(* the reference point stays where it is *)
C12_ReferenceFixed == RotX(rx, ry) = rx /\ RotY(rx, ry) = ry
=============================================================================
