------------------------------ MODULE C07Trace ------------------------------
(* Channel T for C07: executions recorded from the real library (larger random meshes, *)
(* arbitrary integer coordinates, random masks) are checked event by event.  Each      *)
(* event carries the *observed* result: the projected result mesh, the observed map    *)
(* result cell -> source cell (recovered from the pairwise distinct values; -1 = fill, *)
(* -2 = not a source value / components mixed) and the observed validity.  The clauses *)
(* of the property are evaluated on these observations and the observations are        *)
(* compared with the specification's own operators.  Verdicts are total.               *)
EXTENDS C07, Json, IOUtils

VARIABLES tid, l
tvars == <<mesh, subs, act, obs, tid, l>>

Traces == JsonDeserialize(IOEnv.TRACE_FILE)
T  == Traces[tid]
Ev == Traces[tid].ev[l + 1]
Verd(c, name) == IF c THEN TRUE ELSE PrintT(<<"VERDICT", Traces[tid].id, l + 1, name>>)

TInit == /\ tid \in 1 .. Len(Traces)
         /\ l = 0
         /\ mesh = Traces[tid].mesh
         /\ subs = Traces[tid].subs
         /\ act = <<"new">>
         /\ obs = [n |-> Traces[tid].mesh.n]

Iota == [k \in 1 .. NCells(mesh) |-> k - 1]
BlockKinds == {"sel_centre", "sel_point", "sel_range", "getitem_box", "getitem_name"}
Exp(e) == CASE e.k = "sel_centre"   -> SelCentreRes(mesh, e.d)
            [] e.k = "sel_point"    -> SelPointRes(mesh, e.d, e.x)
            [] e.k = "sel_range"    -> SelRangeRes(mesh, e.d, e.x1, e.x2)
            [] e.k = "getitem_box"  -> GetBoxRes(mesh, e.box)
            [] e.k = "getitem_name" -> AlignedBoxRes(mesh, e.box)
(* the coordinate a plane selection was asked for *)
PlaneX(e) == IF e.k = "sel_centre" THEN CentreCoord(mesh, e.d) ELSE e.x
DropOf(e) == IF e.k \in {"sel_centre", "sel_point"} THEN e.d ELSE 0
(* admissible results: the stated one on dyadic embeddings, any combination of the      *)
(* per-axis alternatives otherwise                                                      *)
Choices(x) == IF T.dy THEN {x}
              ELSE {[x EXCEPT !.ax = ch] : ch \in SeqProd(x.alt)}
MeshMatch(r, e)  == ResMesh(mesh, r) = e.rm
MapMatch(r, e)   == ApplyBlock(mesh, r, Iota) = e.map
ValidMatch(r, e) == e.rm.n = <<>> \/ ApplyBlock(mesh, r, T.valid) = e.valid

(* the property on the observation alone: the centre of every result cell (with the     *)
(* selected coordinate re-inserted for a dropped axis) lies in the source cell whose    *)
(* value the result cell shows                                                          *)
KeptAxis(drop, d) == IF drop # 0 /\ d > drop THEN d - 1 ELSE d
ObsPointwise(e) ==
   LET rm == e.rm  drop == DropOf(e) IN
   /\ Len(e.map) = ProdSeq(rm.n)
   /\ \A k \in 1 .. ProdSeq(rm.n) :
         /\ e.map[k] >= 0 /\ e.map[k] < NCells(mesh)
         /\ LET j == Unflat(rm.n, k - 1)
                s == Unflat(mesh.n, e.map[k])
            IN \A d \in Dims(mesh) :
                  IF d = drop
                  THEN IF T.dy THEN InOwnCellAx(mesh, d, s[d], PlaneX(e)) ELSE InClosedCellAx(mesh, d, s[d], PlaneX(e))
                  ELSE LET dd == KeptAxis(drop, d) IN
                       /\ rm.c[dd] = mesh.c[d]
                       /\ P2IAx(mesh, d, rm.lo[dd] + rm.c[dd] * j[dd] + rm.c[dd] \div 2) = s[d]
                       /\ (rm.lo[dd] - mesh.lo[d]) % mesh.c[d] = 0
(* range / box clauses on the observed mesh *)
ObsExtent(e) ==
   LET rm == e.rm IN
   CASE e.k = "sel_range" ->
          LET a == Min2(e.x1, e.x2)  b == Max2(e.x1, e.x2)  d == e.d
              f == (rm.lo[d] - mesh.lo[d]) \div mesh.c[d]
          IN /\ InClosedCellAx(mesh, d, f, a) /\ InClosedCellAx(mesh, d, f + rm.n[d] - 1, b)
             /\ (T.dy => InOwnCellAx(mesh, d, f, a) /\ InOwnCellAx(mesh, d, f + rm.n[d] - 1, b))
             /\ \A o \in Dims(mesh) : o # d => rm.lo[o] = mesh.lo[o] /\ rm.n[o] = mesh.n[o]
     [] e.k = "getitem_box" ->
          \A d \in Dims(mesh) :
             LET hi == rm.lo[d] + rm.c[d] * rm.n[d] IN
             /\ rm.lo[d] <= e.box.lo[d] /\ e.box.hi[d] <= hi                       \* covers
             /\ e.box.lo[d] <= rm.lo[d] + rm.c[d] /\ hi - rm.c[d] <= e.box.hi[d]   \* minimal (touching allowed)
             /\ (T.dy => e.box.lo[d] < rm.lo[d] + rm.c[d] /\ hi - rm.c[d] < e.box.hi[d])
     [] e.k = "getitem_name" -> RegionOf(rm) = e.box
     [] OTHER -> TRUE

(* a request inside the region that the library refused: name the circumstance (the       *)
(* harness uses it as the condition class of the violation key)                          *)
SegFaces(m, d, S) == UNION {{s.lo, s.lo + m.c[d] * (s.t - s.f)} : s \in S}
RaiseName(x, e) ==
   IF e.k = "sel_range" /\ subs # <<>>
   THEN IF \E k \in DOMAIN subs : {subs[k].box.lo[e.d], subs[k].box.hi[e.d]} \cap SegFaces(mesh, e.d, x.alt[e.d]) # {}
        THEN "C07_RangeKeepsFromTo:raises-bound-on-subregion-face"
        ELSE "C07_RangeKeepsFromTo:raises-with-subregions"
   ELSE IF e.k = "getitem_box" /\ \E d \in Dims(mesh) : e.box.hi[d] = Hi(mesh, d)
        THEN "C07_SmallestCoveringBlock:raises-upper-corner-on-region-boundary"
        ELSE "inside-request-raises"
StepBlock ==
   /\ Ev.k \in BlockKinds
   /\ act' = <<Ev.k>>
   /\ obs' = Ev.rm
   /\ LET e == Ev  x == Exp(Ev) IN
        /\ Verd(x.ok = e.ok, IF x.ok THEN RaiseName(x, e) ELSE "C07_OutsideRejected")
        /\ Verd((x.ok /\ e.ok) => e.exact, "result-mesh-on-lattice")
        /\ Verd((x.ok /\ e.ok /\ e.exact) => \E r \in Choices(x) : MeshMatch(r, e), "C07_CellAligned")
        /\ Verd((x.ok /\ e.ok /\ e.exact) => \E r \in Choices(x) : MeshMatch(r, e) /\ MapMatch(r, e), "C07_PointwiseAgreement-values")
        /\ Verd((x.ok /\ e.ok /\ e.exact) => \E r \in Choices(x) : MeshMatch(r, e) /\ MapMatch(r, e) /\ ValidMatch(r, e),
                "C07_PointwiseAgreement-validity")
        /\ Verd((e.ok /\ e.exact /\ x.ok) => ObsPointwise(e), "C07_PointwiseAgreement-observed")
        /\ Verd((e.ok /\ e.exact /\ x.ok /\ e.rm.n # <<>>) => ObsExtent(e), "C07_Extent-observed")

(* pad / resample: per result cell the observed source must be admissible *)
MapCellOK(x, e, k, fillvalid) ==
   LET j == Unflat(e.n, k - 1) IN
   IF MapIsFill(x, j) THEN e.map[k] = -1 /\ e.valid[k] = fillvalid
   ELSE \E s \in MapSrcSet(mesh, x, j) : e.map[k] = Flat(mesh.n, s) /\ e.valid[k] = At(mesh.n, T.valid, s)
MapValuesOK(x, e) ==
   /\ Len(e.map) = ProdSeq(e.n)
   /\ \A k \in 1 .. ProdSeq(e.n) :
        LET j == Unflat(e.n, k - 1) IN
        IF MapIsFill(x, j) THEN e.map[k] = -1
        ELSE \E s \in MapSrcSet(mesh, x, j) : e.map[k] = Flat(mesh.n, s)
StepPad ==
   /\ Ev.k = "pad"
   /\ act' = <<"pad", Ev.mode>>
   /\ obs' = Ev.n
   /\ LET e == Ev  x == PadRes(mesh, Ev.mode, Ev.w) IN
        /\ Verd(e.ok, "pad-accepted")
        /\ Verd(e.ok => e.exact, "result-mesh-on-lattice")
        /\ Verd((e.ok /\ e.exact) => e.reg = x.reg /\ e.n = x.n, "C07_PadAddsCells")
        /\ Verd((e.ok /\ e.exact /\ e.n = x.n) => MapValuesOK(x, e), "C07_PointwiseAgreement-values")
        /\ Verd((e.ok /\ e.exact /\ e.n = x.n /\ MapValuesOK(x, e)) =>
                    \A k \in 1 .. ProdSeq(e.n) : MapCellOK(x, e, k, FALSE), "C07_PointwiseAgreement-validity")
        (* observed clause: cells of the old mesh keep their place *)
        /\ Verd((e.ok /\ e.exact /\ e.n = x.n) =>
                    \A s \in Indices(mesh) :
                       e.map[Flat(e.n, [d \in Dims(mesh) |-> s[d] + e.w[d][1]]) + 1] = Flat(mesh.n, s),
                "C07_PointwiseAgreement-observed")
StepResample ==
   /\ Ev.k = "resample"
   /\ act' = <<"resample">>
   /\ obs' = Ev.n
   /\ LET e == Ev  x == ResampleRes(mesh, Ev.t) IN
        /\ Verd(e.ok, "resample-accepted")
        /\ Verd(e.ok => e.exact, "result-mesh-on-lattice")
        /\ Verd((e.ok /\ e.exact) => e.reg = RegionOf(mesh) /\ e.n = e.t, "C07_ResampleKeepsRegion")
        /\ Verd((e.ok /\ e.exact /\ e.n = e.t) => MapValuesOK(x, e), "C07_PointwiseAgreement-values")
        /\ Verd((e.ok /\ e.exact /\ e.n = e.t /\ MapValuesOK(x, e)) =>
                    \A k \in 1 .. ProdSeq(e.n) : MapCellOK(x, e, k, FALSE), "C07_PointwiseAgreement-validity")
        (* observed clause: the centre of every result cell lies in the (closed) source cell it shows *)
        /\ Verd((e.ok /\ e.exact /\ e.n = e.t /\ Len(e.map) = ProdSeq(e.n)) =>
                    \A k \in 1 .. ProdSeq(e.n) :
                       /\ e.map[k] >= 0
                       /\ LET j == Unflat(e.n, k - 1)  s == Unflat(mesh.n, e.map[k]) IN
                          \A d \in Dims(mesh) :
                             LET cx == (2 * j[d] + 1) * Edge(mesh, d) IN
                             2 * e.n[d] * mesh.c[d] * s[d] <= cx /\ cx <= 2 * e.n[d] * mesh.c[d] * (s[d] + 1),
                "C07_PointwiseAgreement-observed")

TNext == /\ l < Len(Traces[tid].ev)
         /\ (StepBlock \/ StepPad \/ StepResample)
         /\ l' = l + 1
         /\ UNCHANGED <<mesh, subs, tid>>
TSpec == TInit /\ [][TNext]_tvars
=============================================================================
