SPECIFICATION Spec
CONSTANTS
  TexSet <- TexSet_thorough
  LenPats <- LenPats_all
  RotIdx <- RotIdx_all
  MaxSteps = 1
CHECK_DEADLOCK FALSE
INVARIANT TypeOK
INVARIANT C19_ObsIsCharge
INVARIANT C19_UniformIsZero
INVARIANT C19_BLIntegerOnWrapping
INVARIANT C19_NeighbourAngle
INVARIANT C19_HedgehogOneBlochPoint
INVARIANT C19_EmergentUniformZero
PROPERTY C19_Symmetry
