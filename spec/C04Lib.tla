------------------------------ MODULE C04Lib ------------------------------
(* Finite-difference derivatives on one grid line with explicit denominators.          *)
(*                                                                                     *)
(* A line is a sequence a[1..L] of integers with a validity sequence v[1..L].  All      *)
(* results are *numerators*: a first derivative is  num / (2h), a second derivative    *)
(* num / h^2  (h = cell length along the line), so everything stays in the integers.   *)
(*                                                                                     *)
(* Two layers:                                                                         *)
(*  1. the REFERENCE operator: a transcription of discretisedfield/operators.py        *)
(*     (_1d_diff, _split_array_on_idx, _split_diff_combine) and of the ring reading    *)
(*     of a periodic direction (Field.diff);                                           *)
(*  2. the PROPERTY: predicates over an arbitrary L x L matrix M (M[i][j] = weight of  *)
(*     the value in cell j in the result of cell i, scaled by an integer sc) - exact   *)
(*     on low-degree polynomials per run, zero on short runs and invalid cells, local  *)
(*     to runs, ring formula, commuting with cyclic shifts.  The predicates never      *)
(*     mention the reference stencil: C04.tla proves the reference operator is one     *)
(*     member of the class, C04Trace.tla evaluates them on the operator OBSERVED on    *)
(*     the real library.                                                               *)
EXTENDS Cells

RECURSIVE Pow(_, _)
Pow(b, e) == IF e = 0 THEN 1 ELSE b * Pow(b, e - 1)

Zeros(n)    == [k \in 1 .. n |-> 0]
UnitVec(n, j) == [k \in 1 .. n |-> IF k = j THEN 1 ELSE 0]
AllTrue(n)  == [k \in 1 .. n |-> TRUE]
AllValid(v) == \A j \in DOMAIN v : v[j]
Wrap(L, j)  == ((j - 1) % L) + 1                    \* 1-based position on a ring of L cells
Roll(a, s)  == [k \in DOMAIN a |-> a[Wrap(Len(a), k - s)]]      \* numpy.roll(a, s)
SeqRange(r) == {r[q] : q \in DOMAIN r}
SumOver(n, F(_)) == SumSeq([q \in 1 .. n |-> F(q)])

(* ---- layer 1: the reference operator (operators.py) -------------------------------- *)
(* _1d_diff(order, array, dx): numerators over 2*dx (order 1) resp. dx^2 (order 2)      *)
D1(order, a) ==
   LET n == Len(a) IN
   IF n < order + 1 THEN Zeros(n)
   ELSE IF order = 1 THEN
      IF n < 3 THEN [k \in 1 .. n |-> 2 * (a[2] - a[1])]            \* np.gradient, edge_order=1
      ELSE [k \in 1 .. n |->                                        \* np.gradient, edge_order=2
              IF k = 1 THEN -3 * a[1] + 4 * a[2] - a[3]
              ELSE IF k = n THEN 3 * a[n] - 4 * a[n - 1] + a[n - 2]
              ELSE a[k + 1] - a[k - 1]]
   ELSE
      IF n >= 4 THEN [k \in 1 .. n |->                              \* [1,-2,1], FinDiff ends
              IF k = 1 THEN 2 * a[1] - 5 * a[2] + 4 * a[3] - a[4]
              ELSE IF k = n THEN 2 * a[n] - 5 * a[n - 1] + 4 * a[n - 2] - a[n - 3]
              ELSE a[k - 1] - 2 * a[k] + a[k + 1]]
      ELSE [k \in 1 .. n |-> a[1] - 2 * a[2] + a[3]]                \* n = 3: the same at all cells

(* maximal runs of valid cells, each a sequence of cell positions in run order          *)
RunLenOpen(v, j) == CHOOSE n \in 1 .. (Len(v) - j + 1) :
                       /\ \A k \in 0 .. (n - 1) : v[j + k]
                       /\ (j + n > Len(v) \/ ~v[j + n])
OpenRuns(v) == {[k \in 1 .. RunLenOpen(v, j) |-> j + k - 1] :
                   j \in {j \in DOMAIN v : v[j] /\ (j = 1 \/ ~v[j - 1])}}
(* on a ring that is not fully valid: maximal *cyclic* runs in unwrapped order           *)
RunLenRing(v, j) == CHOOSE n \in 1 .. (Len(v) - 1) :
                       /\ \A k \in 0 .. (n - 1) : v[Wrap(Len(v), j + k)]
                       /\ ~v[Wrap(Len(v), j + n)]
RingRuns(v) == {[k \in 1 .. RunLenRing(v, j) |-> Wrap(Len(v), j + k - 1)] :
                   j \in {j \in DOMAIN v : v[j] /\ ~v[Wrap(Len(v), j - 1)]}}
RunOf(runs, i) == CHOOSE r \in runs : i \in SeqRange(r)
PosIn(r, i)    == CHOOSE q \in DOMAIN r : r[q] = i
CrossesSeam(r, L) == \E q \in 1 .. (Len(r) - 1) : r[q] = L /\ r[q + 1] = 1

(* _split_diff_combine generalised to a given set of runs                               *)
DiffRuns(a, v, runs, order) ==
   [i \in DOMAIN a |->
      IF ~v[i] THEN 0
      ELSE LET r == RunOf(runs, i) IN D1(order, [q \in DOMAIN r |-> a[r[q]]])[PosIn(r, i)]]
(* a ring without ends: centred differences with wrap-around, every L >= 1              *)
RingDiff(a, order) ==
   LET L == Len(a) IN
   [i \in 1 .. L |-> IF order = 1 THEN a[Wrap(L, i + 1)] - a[Wrap(L, i - 1)]
                     ELSE a[Wrap(L, i + 1)] - 2 * a[i] + a[Wrap(L, i - 1)]]

(* Field.diff along one line: v is the line's validity, r2v the restrict2valid flag,    *)
(* pbc whether the direction is periodic.  Returns numerators.                          *)
EffValid(v, r2v) == IF r2v THEN v ELSE AllTrue(Len(v))
IsRing(v, pbc, r2v)  == pbc /\ AllValid(EffValid(v, r2v))
LineRuns(v, pbc, r2v) == IF IsRing(v, pbc, r2v) THEN {}
                         ELSE IF pbc THEN RingRuns(EffValid(v, r2v)) ELSE OpenRuns(EffValid(v, r2v))
DiffLine(a, v, order, pbc, r2v) ==
   IF IsRing(v, pbc, r2v) THEN RingDiff(a, order)
   ELSE DiffRuns(a, EffValid(v, r2v), LineRuns(v, pbc, r2v), order)
(* the same operator as a matrix, extracted with unit vectors (M[i][j])                 *)
RefMatrix(v, order, pbc, r2v) ==
   LET L == Len(v)
       col == [j \in 1 .. L |-> DiffLine(UnitVec(L, j), v, order, pbc, r2v)]
   IN [i \in 1 .. L |-> [j \in 1 .. L |-> col[j][i]]]
MatVec(M, f) == [i \in DOMAIN M |-> SumOver(Len(f), LAMBDA j : M[i][j] * f[j])]

(* what Field.diff does TODAY on a periodic line (field.py: pad one cell each side with  *)
(* mode="wrap" - data and validity -, split/differentiate the padded line, crop).  Not   *)
(* part of the property: used for the informational comparison "observed = today's code" *)
(* and as the model-level witness of the seam defect (C04_d13.cfg).                      *)
PadWrap1(a) == [k \in 1 .. (Len(a) + 2) |-> a[Wrap(Len(a), k - 1)]]
CodePeriodicDiff(a, v, order) ==
   LET pa == PadWrap1(a)
       pv == PadWrap1(v)
       d  == DiffRuns(pa, pv, OpenRuns(pv), order)
   IN [i \in 1 .. Len(a) |-> d[i + 1]]
CodeMatrix(v, order, pbc, r2v) ==
   IF ~pbc THEN RefMatrix(v, order, pbc, r2v)
   ELSE LET L == Len(v)
            col == [j \in 1 .. L |-> CodePeriodicDiff(UnitVec(L, j), EffValid(v, r2v), order)]
        IN [i \in 1 .. L |-> [j \in 1 .. L |-> col[j][i]]]

(* ---- layer 2: the property, as predicates over any scaled matrix M (true = M / sc) -- *)
(* exact derivative of x^p at x = k, scaled like the numerators                         *)
ExactD(order, k, p) == IF order = 1 THEN (IF p = 0 THEN 0 ELSE 2 * p * Pow(k, p - 1))
                       ELSE (IF p < 2 THEN 0 ELSE p * (p - 1) * Pow(k, p - 2))
(* highest polynomial degree a run of n cells must differentiate exactly                *)
MaxDeg(order, n) == IF order = 1 THEN (IF n >= 3 THEN 2 ELSE 1) ELSE (IF n >= 4 THEN 3 ELSE 2)
(* the run-local coordinate q = 1..n is used as x (exactness is translation invariant,  *)
(* monomials span the polynomials)                                                      *)
PolyExactRun(M, sc, r, order) ==
   Len(r) > order =>
      \A k \in DOMAIN r : \A p \in 0 .. MaxDeg(order, Len(r)) :
         SumOver(Len(r), LAMBDA q : M[r[k]][r[q]] * Pow(q, p)) = sc * ExactD(order, k, p)
PolyExact(M, sc, runs, order)     == \A r \in runs : PolyExactRun(M, sc, r, order)
ShortRunsZero(M, runs, order) == \A r \in runs : Len(r) <= order =>
                                    \A k \in DOMAIN r : \A j \in DOMAIN M : M[r[k]][j] = 0
InvalidZero(M, v)             == \A i \in DOMAIN M : ~v[i] => \A j \in DOMAIN M : M[i][j] = 0
LocalToRuns(M, runs)          == \A r \in runs : \A k \in DOMAIN r :
                                    \A j \in DOMAIN M : j \notin SeqRange(r) => M[r[k]][j] = 0
(* the ring formula: weight of cell j in the result of cell i                           *)
RingCoef(L, order, i, j) ==
   (IF Wrap(L, i + 1) = j THEN 1 ELSE 0)
   + (IF Wrap(L, i - 1) = j THEN (IF order = 1 THEN -1 ELSE 1) ELSE 0)
   + (IF order = 2 /\ i = j THEN -2 ELSE 0)
RingExact(M, sc, order) == \A i \in DOMAIN M : \A j \in DOMAIN M :
                              M[i][j] = sc * RingCoef(Len(M), order, i, j)
(* Ms[s + 1] is the operator observed for Roll(v, s); commuting with the cyclic shift   *)
(* by s means  Ms[s+1][i+s][j+s] = Ms[1][i][j].  Rows restricted to the cells in I.     *)
ShiftRowOK(M0, Ms, s, i) == \A j \in DOMAIN M0 :
                               Ms[Wrap(Len(M0), i + s)][Wrap(Len(M0), j + s)] = M0[i][j]
ShiftCommutesOn(Ms, I(_, _)) == \A s \in 0 .. (Len(Ms) - 1) : \A i \in DOMAIN Ms[1] :
                               I(s, i) => ShiftRowOK(Ms[1], Ms[s + 1], s, i)
(* does the run of cell i (valid, ring not fully valid) cross the seam in v or after     *)
(* shifting by s ?                                                                      *)
SeamCell(v, i) == v[i] /\ ~AllValid(v) /\ CrossesSeam(RunOf(RingRuns(v), i), Len(v))
SeamPair(v, s, i) == SeamCell(v, i) \/ SeamCell(Roll(v, s), Wrap(Len(v), i + s))

(* all run clauses for one line; runs may be restricted to a subset (seam / inside)     *)
RunClauses(M, sc, v, runs, order) ==
   /\ PolyExact(M, sc, runs, order)
   /\ ShortRunsZero(M, runs, order)
   /\ LocalToRuns(M, runs)

(* ---- arrays: Field.diff along axis d of an array over cell counts n ---------------- *)
(* arr: flat array of component sequences, valid: flat BOOLEAN array; result numerators *)
DiffArr(n, arr, valid, d, order, pbc, r2v) ==
   LET nv     == Len(arr[1])
       L      == n[d]
       stride == ProdSeq([e \in 1 .. (d - 1) |-> n[e]])       \* flat distance of neighbours along d
       pos(k)  == ((k - 1) \div stride) % L                    \* index along d of flat position k
       base(k) == k - pos(k) * stride                          \* first cell of the grid line through k
       bases  == {k \in DOMAIN arr : pos(k) = 0}
       (* every grid line and component is differentiated once, on its own *)
       res    == [b \in bases |->
                    LET vl == [j \in 1 .. L |-> valid[b + (j - 1) * stride]] IN
                    [c \in 1 .. nv |-> DiffLine([j \in 1 .. L |-> arr[b + (j - 1) * stride][c]], vl, order, pbc, r2v)]]
   IN [k \in DOMAIN arr |-> [c \in 1 .. nv |-> res[base(k)][c][pos(k) + 1]]]
=============================================================================
