-------------------------------- MODULE C01 --------------------------------
(* C01 - mesh cells tile the region; index <-> coordinate maps are mutually inverse.   *)
(*                                                                                     *)
(* State: one mesh configuration, the last query (act) and what the query must return  *)
(* (obs).  Every query action is one public call of the library; the conformance       *)
(* harness rebuilds `mesh` in the real library under several float embeddings,         *)
(* performs `act` and compares with `obs` (channel R), and conversely sends results    *)
(* observed on large random meshes to C01Trace (channel T).                            *)
EXTENDS Lattice, TLC

CONSTANTS MaxN,        \* <<max n in 1-D, 2-D, 3-D, 4-D>>
          CProf,       \* set of cell-size profiles, each a 4-sequence of multiples of 4
          LoProf,      \* set of lower-corner profiles, each a 4-sequence
          CellReq,     \* candidate requested cell sizes (lattice units)
          MoveMaxDim   \* in-place moves are explored for meshes of at most this many dimensions

VARIABLES mesh,   \* the current lattice configuration
          moved,  \* <<>> or <<move, mesh before>>: the mesh object was transformed IN PLACE after all its
                  \* derived data (cells, vertices, coordinate field, iteration) had been read once
          act, obs
vars == <<mesh, moved, act, obs>>

Rej   == [ok |-> FALSE]
Ok(v) == [ok |-> TRUE, v |-> v]

Prefix(s, k) == [d \in 1 .. k |-> s[d]]
Meshes == UNION {
            {[lo |-> Prefix(lp, k), c |-> Prefix(cp, k), n |-> nn] :
                 nn \in [1 .. k -> 1 .. MaxN[k]], cp \in CProf, lp \in LoProf}
            : k \in 1 .. 4}

(* per-axis probe coordinates: a quarter cell outside, the faces, centres and quarter   *)
(* points of every cell, and a quarter cell beyond the upper corner                     *)
ProbesAx(m, d) == {m.lo[d] - m.c[d] \div 4, Hi(m, d) + m.c[d] \div 4}
                  \cup {m.lo[d] + (m.c[d] \div 4) * j : j \in 0 .. 4 * m.n[d]}
(* a fixed interior base point (quarter point of the first cell) *)
Base(m) == [d \in Dims(m) |-> m.lo[d] + m.c[d] \div 4]
(* diagonal probes: the same kind of position on every axis *)
DiagKinds == {"out_lo", "lo", "q1", "face1", "centre_last", "hi", "out_hi"}
DiagAx(m, d, kind) ==
   CASE kind = "out_lo"      -> m.lo[d] - m.c[d] \div 4
     [] kind = "lo"          -> m.lo[d]
     [] kind = "q1"          -> m.lo[d] + m.c[d] \div 4
     [] kind = "face1"       -> m.lo[d] + m.c[d]
     [] kind = "centre_last" -> Hi(m, d) - m.c[d] \div 2
     [] kind = "hi"          -> Hi(m, d)
     [] kind = "out_hi"      -> Hi(m, d) + m.c[d] \div 4

(* ---- what each public call must return --------------------------------------------- *)
I2PResult(m, i) == IF InRange(m, i) THEN Ok(Centre(m, i)) ELSE Rej
P2IResult(m, p) == IF Inside(m, p) THEN [ok |-> TRUE, idx |-> P2I(m, p), alt |-> [d \in Dims(m) |-> P2IAxAlt(m, d, p[d])]]
                   ELSE Rej
CellReqResult(m, cr) == IF \A d \in Dims(m) : cr[d] <= Edge(m, d) /\ Edge(m, d) % cr[d] = 0
                        THEN Ok([d \in Dims(m) |-> Edge(m, d) \div cr[d]]) ELSE Rej

(* ---- actions ----------------------------------------------------------------------- *)
NewObs(m) == [n |-> m.n, len |-> NCells(m)]
Init == mesh \in Meshes /\ moved = <<>> /\ act = <<"new">> /\ obs = NewObs(mesh)

(* in-place transformations that keep the mesh on the integer lattice *)
MoveKinds == {"translate", "scale2_about_pmin", "scale2_about_origin", "rot90_about_pmin"}
MoveVec == <<8, -12, 20, -4>>
ApplyMove(m, mv) ==
   CASE mv = "translate"           -> [m EXCEPT !.lo = [d \in Dims(m) |-> m.lo[d] + MoveVec[d]]]
     [] mv = "scale2_about_pmin"   -> [m EXCEPT !.c = [d \in Dims(m) |-> 2 * m.c[d]]]
     [] mv = "scale2_about_origin" -> [m EXCEPT !.c = [d \in Dims(m) |-> 2 * m.c[d]], !.lo = [d \in Dims(m) |-> 2 * m.lo[d]]]
        \* one quarter turn from axis 1 to axis 2 about pmin: (x, y) -> (x0 - (y - y0), y0 + (x - x0))
     [] mv = "rot90_about_pmin"    -> [lo |-> [m.lo EXCEPT ![1] = m.lo[1] - Edge(m, 2)],
                                      c  |-> SwapAt(m.c, 1, 2), n |-> SwapAt(m.n, 1, 2)]
CanMove(m, mv) == mv = "rot90_about_pmin" => ND(m) >= 2
Move == \E mv \in MoveKinds :
          /\ moved = <<>> /\ mesh.lo[1] = 0 /\ ND(mesh) <= MoveMaxDim /\ CanMove(mesh, mv)
          /\ mesh' = ApplyMove(mesh, mv)
          /\ moved' = <<mv, mesh>>
          /\ act' = <<"new">>
          /\ obs' = NewObs(mesh')

QIterate == /\ act' = <<"iterate">>
            /\ obs' = IterOrder(mesh.n)
            /\ UNCHANGED <<mesh, moved>>
(* every index in range and every index one step out of range along one axis *)
I2PProbes(m) == {i \in [Dims(m) -> -1 .. MaxSeq(m.n)] :
                   Cardinality({d \in Dims(m) : ~(0 <= i[d] /\ i[d] < m.n[d])}) <= 1}
QIndex2Point == /\ act' = <<"index2point">>
                /\ obs' = [i \in I2PProbes(mesh) |-> I2PResult(mesh, i)]
                /\ UNCHANGED <<mesh, moved>>
(* all probes along one axis through the base point *)
QPoint2IndexLine == \E d \in Dims(mesh) :
            /\ act' = <<"point2index_line", d>>
            /\ obs' = [x \in ProbesAx(mesh, d) |-> P2IResult(mesh, [Base(mesh) EXCEPT ![d] = x])]
            /\ UNCHANGED <<mesh, moved>>
QPoint2IndexDiag == \E k \in DiagKinds :
            /\ act' = <<"point2index_diag", k>>
               \* axis 1 takes kind k, the other axes each kind o; one probe per o
            /\ obs' = [o \in DiagKinds |->
                         LET p == [d \in Dims(mesh) |-> DiagAx(mesh, d, IF d = 1 THEN k ELSE o)]
                         IN [p |-> p, r |-> P2IResult(mesh, p)]]
            /\ UNCHANGED <<mesh, moved>>
QCells == \E d \in Dims(mesh) :
            /\ act' = <<"cells", d>>
            /\ obs' = CentresAx(mesh, d)
            /\ UNCHANGED <<mesh, moved>>
QVertices == \E d \in Dims(mesh) :
            /\ act' = <<"vertices", d>>
            /\ obs' = VerticesAx(mesh, d)
            /\ UNCHANGED <<mesh, moved>>
QCoordField == /\ act' = <<"coordinate_field">>
               /\ obs' = [i \in Indices(mesh) |-> Centre(mesh, i)]
               /\ UNCHANGED <<mesh, moved>>
CellReqs(m) == {[m.c EXCEPT ![d] = v] : d \in Dims(m), v \in CellReq} \cup {[d \in Dims(m) |-> v] : v \in CellReq}
QByCell == /\ act' = <<"by_cell">>
           /\ obs' = [cr \in CellReqs(mesh) |-> CellReqResult(mesh, cr)]
           /\ UNCHANGED <<mesh, moved>>

(* queries are issued from a fresh or freshly moved mesh only: they do not change it, so *)
(* nothing new is reachable behind a query state (deadlock checking is off)             *)
Fresh == act[1] = "new"
Queries == \/ QIterate \/ QIndex2Point \/ QPoint2IndexLine \/ QPoint2IndexDiag
           \/ QCells \/ QVertices \/ QCoordField \/ QByCell
Next == Fresh /\ (Queries \/ Move)
Spec == Init /\ [][Next]_vars

(* ---- the property, clause by clause ------------------------------------------------ *)
TypeOK == MeshOK(mesh)

(* every point of the region lies in exactly one cell under the lower-inclusive rule,  *)
(* and in at least one closed cell; the cells cover the region exactly once            *)
C01_Tiling ==
   \A d \in Dims(mesh) : \A x \in ProbesAx(mesh, d) :
      InsideAx(mesh, d, x) =>
         /\ Cardinality({i \in 0 .. (mesh.n[d] - 1) : InOwnCellAx(mesh, d, i, x)}) = 1
         /\ InOwnCellAx(mesh, d, P2IAx(mesh, d, x), x)
         /\ InClosedCellAx(mesh, d, P2IAx(mesh, d, x), x)
(* cell size * count = edge, centres are pmin + (i + 1/2) cell *)
C01_CellTimesN == \A d \in Dims(mesh) :
      /\ Hi(mesh, d) - mesh.lo[d] = mesh.c[d] * mesh.n[d]
      /\ \A i \in 0 .. (mesh.n[d] - 1) : 2 * (CentreAx(mesh, d, i) - mesh.lo[d]) = (2 * i + 1) * mesh.c[d]
C01_Inverse == act[1] = "index2point" => \A i \in DOMAIN obs : obs[i].ok => P2I(mesh, obs[i].v) = i
C01_OutsideIndexRejected == act[1] = "index2point" => \A i \in DOMAIN obs : (~obs[i].ok <=> ~InRange(mesh, i))
C01_Contains == act[1] = "point2index_line" =>
      \A x \in DOMAIN obs :
         LET d == act[2]
             r == obs[x]
         IN IF ~r.ok THEN ~InsideAx(mesh, d, x)
            ELSE /\ InsideAx(mesh, d, x)
                 /\ InRange(mesh, r.idx)
                 /\ InOwnCellAx(mesh, d, r.idx[d], x)
                 /\ \A a \in r.alt[d] : InClosedCellAx(mesh, d, a, x)
C01_DiagContains == act[1] = "point2index_diag" => \A o \in DOMAIN obs :
      IF ~obs[o].r.ok THEN ~Inside(mesh, obs[o].p)
      ELSE /\ Inside(mesh, obs[o].p) /\ InRange(mesh, obs[o].r.idx)
           /\ \A d \in Dims(mesh) : InOwnCellAx(mesh, d, obs[o].r.idx[d], obs[o].p[d])
C01_Order == act[1] = "iterate" =>
      /\ Len(obs) = NCells(mesh)
      /\ \A k \in DOMAIN obs : InRange(mesh, obs[k]) /\ Flat(mesh.n, obs[k]) = k - 1
      /\ \A k \in DOMAIN obs : k > 1 =>      \* first dimension fastest
            LET a == obs[k - 1]  b == obs[k]
            IN \E d \in Dims(mesh) : /\ b[d] = a[d] + 1
                                     /\ \A e \in Dims(mesh) : e < d => (a[e] = mesh.n[e] - 1 /\ b[e] = 0)
                                     /\ \A e \in Dims(mesh) : e > d => a[e] = b[e]
C01_AxesAgree ==
      /\ act[1] = "cells" => /\ Len(obs) = mesh.n[act[2]]
                             /\ \A j \in DOMAIN obs : obs[j] = Centre(mesh, [d \in Dims(mesh) |-> j - 1])[act[2]]
      /\ act[1] = "vertices" => /\ Len(obs) = mesh.n[act[2]] + 1
                                /\ obs[1] = mesh.lo[act[2]] /\ obs[Len(obs)] = Hi(mesh, act[2])
                                /\ \A j \in 1 .. mesh.n[act[2]] :
                                      /\ obs[j + 1] - obs[j] = mesh.c[act[2]]
                                      /\ 2 * CentreAx(mesh, act[2], j - 1) = obs[j] + obs[j + 1]
      /\ act[1] = "coordinate_field" => \A i \in DOMAIN obs : Ok(obs[i]) = I2PResult(mesh, i) /\ P2I(mesh, obs[i]) = i
C01_CellRequest == act[1] = "by_cell" => \A cr \in DOMAIN obs :
      IF ~obs[cr].ok THEN \E d \in Dims(mesh) : Edge(mesh, d) % cr[d] # 0
      ELSE \A d \in Dims(mesh) : obs[cr].v[d] * cr[d] = Edge(mesh, d) /\ obs[cr].v[d] >= 1
(* an in-place move is the documented affine map of the lattice (checked on the corner and the cell) *)
C01_MovedLattice == moved # <<>> =>
      LET mv == moved[1]  old == moved[2] IN
        /\ NCells(mesh) = NCells(old)
        /\ (mv = "translate" => mesh.c = old.c /\ mesh.n = old.n /\ \A d \in Dims(mesh) : mesh.lo[d] = old.lo[d] + MoveVec[d])
        /\ (mv \in {"scale2_about_pmin", "scale2_about_origin"} => mesh.n = old.n /\ \A d \in Dims(mesh) : Edge(mesh, d) = 2 * Edge(old, d))
        /\ (mv = "rot90_about_pmin" => /\ mesh.n = SwapAt(old.n, 1, 2) /\ Edge(mesh, 1) = Edge(old, 2) /\ Edge(mesh, 2) = Edge(old, 1)
                                        /\ Hi(mesh, 1) = old.lo[1] /\ mesh.lo[2] = old.lo[2])
=============================================================================
