-------------------------------- MODULE C01 --------------------------------
(* C01 - mesh cells tile the region; index <-> coordinate maps are mutually inverse.   *)
(*                                                                                     *)
(* State: one mesh configuration, the last query (act) and what the query must return  *)
(* (obs).  Every query action is one public call of the library; the conformance       *)
(* harness rebuilds `mesh` in the real library under several float embeddings,         *)
(* performs `act` and compares with `obs` (channel R), and conversely sends results    *)
(* observed on large random meshes to C01Trace (channel T).                            *)
EXTENDS Lattice, TLC

CONSTANTS MaxN,        \* <<max n in 1-D, 2-D, 3-D, 4-D>>
          CProf,       \* set of cell-size profiles, each a 4-sequence of multiples of 4
          LoProf,      \* set of lower-corner profiles, each a 4-sequence
          CellReq      \* candidate requested cell sizes (lattice units)

VARIABLES mesh, act, obs
vars == <<mesh, act, obs>>

Rej   == [ok |-> FALSE]
Ok(v) == [ok |-> TRUE, v |-> v]

Prefix(s, k) == [d \in 1 .. k |-> s[d]]
Meshes == UNION {
            {[lo |-> Prefix(lp, k), c |-> Prefix(cp, k), n |-> nn] :
                 nn \in [1 .. k -> 1 .. MaxN[k]], cp \in CProf, lp \in LoProf}
            : k \in 1 .. 4}

(* per-axis probe coordinates: a quarter cell outside, the faces, centres and quarter   *)
(* points of every cell, and a quarter cell beyond the upper corner                     *)
ProbesAx(m, d) == {m.lo[d] - m.c[d] \div 4, Hi(m, d) + m.c[d] \div 4}
                  \cup {m.lo[d] + (m.c[d] \div 4) * j : j \in 0 .. 4 * m.n[d]}
(* a fixed interior base point (quarter point of the first cell) *)
Base(m) == [d \in Dims(m) |-> m.lo[d] + m.c[d] \div 4]
(* diagonal probes: the same kind of position on every axis *)
DiagKinds == {"out_lo", "lo", "q1", "face1", "centre_last", "hi", "out_hi"}
DiagAx(m, d, kind) ==
   CASE kind = "out_lo"      -> m.lo[d] - m.c[d] \div 4
     [] kind = "lo"          -> m.lo[d]
     [] kind = "q1"          -> m.lo[d] + m.c[d] \div 4
     [] kind = "face1"       -> m.lo[d] + m.c[d]
     [] kind = "centre_last" -> Hi(m, d) - m.c[d] \div 2
     [] kind = "hi"          -> Hi(m, d)
     [] kind = "out_hi"      -> Hi(m, d) + m.c[d] \div 4

(* ---- what each public call must return --------------------------------------------- *)
I2PResult(m, i) == IF InRange(m, i) THEN Ok(Centre(m, i)) ELSE Rej
P2IResult(m, p) == IF Inside(m, p) THEN [ok |-> TRUE, idx |-> P2I(m, p), alt |-> [d \in Dims(m) |-> P2IAxAlt(m, d, p[d])]]
                   ELSE Rej
CellReqResult(m, cr) == IF \A d \in Dims(m) : cr[d] <= Edge(m, d) /\ Edge(m, d) % cr[d] = 0
                        THEN Ok([d \in Dims(m) |-> Edge(m, d) \div cr[d]]) ELSE Rej

(* ---- actions ----------------------------------------------------------------------- *)
Init == mesh \in Meshes /\ act = <<"new">> /\ obs = [n |-> mesh.n, len |-> NCells(mesh)]

QIterate == /\ act' = <<"iterate">>
            /\ obs' = IterOrder(mesh.n)
            /\ UNCHANGED mesh
QIndex2Point == \E i \in [Dims(mesh) -> -1 .. MaxSeq(mesh.n)] :
            /\ Cardinality({d \in Dims(mesh) : ~(0 <= i[d] /\ i[d] < mesh.n[d])}) <= 1
            /\ act' = <<"index2point", i>>
            /\ obs' = I2PResult(mesh, i)
            /\ UNCHANGED mesh
(* all probes along one axis through the base point *)
QPoint2IndexLine == \E d \in Dims(mesh) :
            /\ act' = <<"point2index_line", d>>
            /\ obs' = [x \in ProbesAx(mesh, d) |-> P2IResult(mesh, [Base(mesh) EXCEPT ![d] = x])]
            /\ UNCHANGED mesh
QPoint2IndexDiag == \E k \in DiagKinds, o \in DiagKinds :
            /\ act' = <<"point2index_diag", k, o>>
               \* axis 1 takes kind k, the other axes kind o
            /\ obs' = LET p == [d \in Dims(mesh) |-> DiagAx(mesh, d, IF d = 1 THEN k ELSE o)]
                      IN [p |-> p, r |-> P2IResult(mesh, p)]
            /\ UNCHANGED mesh
QCells == \E d \in Dims(mesh) :
            /\ act' = <<"cells", d>>
            /\ obs' = CentresAx(mesh, d)
            /\ UNCHANGED mesh
QVertices == \E d \in Dims(mesh) :
            /\ act' = <<"vertices", d>>
            /\ obs' = VerticesAx(mesh, d)
            /\ UNCHANGED mesh
QCoordField == /\ act' = <<"coordinate_field">>
               /\ obs' = [i \in Indices(mesh) |-> Centre(mesh, i)]
               /\ UNCHANGED mesh
QByCell == \E cr \in {[mesh.c EXCEPT ![d] = v] : d \in Dims(mesh), v \in CellReq}
                     \cup {[d \in Dims(mesh) |-> v] : v \in CellReq} :
            /\ act' = <<"by_cell", cr>>
            /\ obs' = CellReqResult(mesh, cr)
            /\ UNCHANGED mesh

(* queries are issued from the fresh mesh only: they do not change it, so nothing new   *)
(* is reachable behind a query state (deadlock checking is off)                        *)
Fresh == act[1] = "new"
Queries == \/ QIterate \/ QIndex2Point \/ QPoint2IndexLine \/ QPoint2IndexDiag
           \/ QCells \/ QVertices \/ QCoordField \/ QByCell
Next == Fresh /\ Queries
Spec == Init /\ [][Next]_vars

(* ---- the property, clause by clause ------------------------------------------------ *)
TypeOK == MeshOK(mesh)

(* every point of the region lies in exactly one cell under the lower-inclusive rule,  *)
(* and in at least one closed cell; the cells cover the region exactly once            *)
C01_Tiling ==
   \A d \in Dims(mesh) : \A x \in ProbesAx(mesh, d) :
      InsideAx(mesh, d, x) =>
         /\ Cardinality({i \in 0 .. (mesh.n[d] - 1) : InOwnCellAx(mesh, d, i, x)}) = 1
         /\ InOwnCellAx(mesh, d, P2IAx(mesh, d, x), x)
         /\ InClosedCellAx(mesh, d, P2IAx(mesh, d, x), x)
(* cell size * count = edge, centres are pmin + (i + 1/2) cell *)
C01_CellTimesN == \A d \in Dims(mesh) :
      /\ Hi(mesh, d) - mesh.lo[d] = mesh.c[d] * mesh.n[d]
      /\ \A i \in 0 .. (mesh.n[d] - 1) : 2 * (CentreAx(mesh, d, i) - mesh.lo[d]) = (2 * i + 1) * mesh.c[d]
C01_Inverse == act[1] = "index2point" /\ obs.ok => P2I(mesh, obs.v) = act[2]
C01_OutsideIndexRejected == act[1] = "index2point" => (~obs.ok <=> ~InRange(mesh, act[2]))
C01_Contains == act[1] = "point2index_line" =>
      \A x \in DOMAIN obs :
         LET d == act[2]
             r == obs[x]
         IN IF ~r.ok THEN ~InsideAx(mesh, d, x)
            ELSE /\ InsideAx(mesh, d, x)
                 /\ InRange(mesh, r.idx)
                 /\ InOwnCellAx(mesh, d, r.idx[d], x)
                 /\ \A a \in r.alt[d] : InClosedCellAx(mesh, d, a, x)
C01_DiagContains == act[1] = "point2index_diag" =>
      IF ~obs.r.ok THEN ~Inside(mesh, obs.p)
      ELSE /\ Inside(mesh, obs.p) /\ InRange(mesh, obs.r.idx)
           /\ \A d \in Dims(mesh) : InOwnCellAx(mesh, d, obs.r.idx[d], obs.p[d])
C01_Order == act[1] = "iterate" =>
      /\ Len(obs) = NCells(mesh)
      /\ \A k \in DOMAIN obs : InRange(mesh, obs[k]) /\ Flat(mesh.n, obs[k]) = k - 1
      /\ \A k \in DOMAIN obs : k > 1 =>      \* first dimension fastest
            LET a == obs[k - 1]  b == obs[k]
            IN \E d \in Dims(mesh) : /\ b[d] = a[d] + 1
                                     /\ \A e \in Dims(mesh) : e < d => (a[e] = mesh.n[e] - 1 /\ b[e] = 0)
                                     /\ \A e \in Dims(mesh) : e > d => a[e] = b[e]
C01_AxesAgree ==
      /\ act[1] = "cells" => /\ Len(obs) = mesh.n[act[2]]
                             /\ \A j \in DOMAIN obs : obs[j] = Centre(mesh, [d \in Dims(mesh) |-> j - 1])[act[2]]
      /\ act[1] = "vertices" => /\ Len(obs) = mesh.n[act[2]] + 1
                                /\ obs[1] = mesh.lo[act[2]] /\ obs[Len(obs)] = Hi(mesh, act[2])
                                /\ \A j \in 1 .. mesh.n[act[2]] :
                                      /\ obs[j + 1] - obs[j] = mesh.c[act[2]]
                                      /\ 2 * CentreAx(mesh, act[2], j - 1) = obs[j] + obs[j + 1]
      /\ act[1] = "coordinate_field" => \A i \in DOMAIN obs : Ok(obs[i]) = I2PResult(mesh, i) /\ P2I(mesh, obs[i]) = i
C01_CellRequest == act[1] = "by_cell" =>
      IF ~obs.ok THEN \E d \in Dims(mesh) : Edge(mesh, d) % act[2][d] # 0
      ELSE \A d \in Dims(mesh) : obs.v[d] * act[2][d] = Edge(mesh, d) /\ obs.v[d] >= 1
=============================================================================
