SPECIFICATION Spec
CONSTANTS
  Scenarios <- Scen_quick
  Acts <- ActsAll
  MaxDepth = 2
  MaxFields = 3
  AllowAlias = "guard"
  TransVs <- TransVs_def
  ScaleFs <- ScaleFs_q
  RotKs <- RotKs_q
  RotRefs <- RotRefs_q
  PadSpecs <- Pad_q
  Masks <- Masks_q
  Nums <- Nums_q
CHECK_DEADLOCK FALSE
INVARIANT DF_RegionNormal
INVARIANT DF_MeshNormal
INVARIANT DF_FieldShapes
INVARIANT DF_SubregionsWellFormed
INVARIANT DF_OwnValidity
INVARIANT DF_Labels
INVARIANT DF_RootsLive
