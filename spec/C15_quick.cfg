SPECIFICATION Spec
CONSTANTS
  MeshSet <- MeshSet_quick
  NVSet <- NV_all
  PatSet <- Pats_quick
  NormKinds <- NormKinds_all
  MaxHist = 2
  MaxQHist = 2
CHECK_DEADLOCK FALSE
INVARIANT TypeOK
INVARIANT C15_NonzeroGetLength
INVARIANT C15_DirectionKept
INVARIANT C15_ZeroStaysZero
INVARIANT C15_NormIsEuclidean
INVARIANT C15_OrientationUnitOrZero
INVARIANT C15_OrientationTimesNorm
INVARIANT C15_NoReapply
INVARIANT C15_CtorOrder
PROPERTY C15_NoneIsNoop
