SPECIFICATION Spec
CONSTANTS
  Fields <- Fields_thorough
  FaultFields <- Fault_thorough
  ZeroId = 0
  HdrCuts <- HdrCuts_all
  ExciseMax = 12
CHECK_DEADLOCK FALSE
INVARIANT TypeOK
INVARIANT C09_RoundTrip
INVARIANT C09_FileIsOVF2
INVARIANT C09_ReadsForeign
INVARIANT C09_DamagedBinaryRejected
INVARIANT C09_IntactNotDamaged
INVARIANT C09_CheckBitsAllDamage
