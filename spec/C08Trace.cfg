SPECIFICATION TSpec
CONSTANTS
  Pool = {}
  InitSet = {}
  Ops = {}
  DeepOps = {}
  MaskPats = {}
  PadModes = {}
  RotKs = {}
CHECK_DEADLOCK FALSE
