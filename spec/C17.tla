-------------------------------- MODULE C17 --------------------------------
(* C17 - xarray export/import is lossless and uses cell centres as coordinates.          *)
(*                                                                                     *)
(* State: a field `fld` (mesh of 1-4 dimensions, dimension names, units, 1-4            *)
(* components, labels, dtype, field unit, tolerance factor), the DataArray last          *)
(* produced or handed in (`xa`, an explicit record of dims / coordinates / coordinate    *)
(* units / component coordinate / attributes / data), the last public call (`act`) and  *)
(* what it must return (`obs`).  Field.from_xarray is a pure case analysis over which    *)
(* attributes are present; it is transcribed here as a decision table.  Where the        *)
(* property is silent the table follows the library and the result carries no demand    *)
(* (`dem`): the harness compares those aspects but reports them as notes only.           *)
EXTENDS Cells, TLC

CONSTANTS Configs      \* set of field configurations, see MC_C17.tla

VARIABLES fld, xa, act, obs
vars == <<fld, xa, act, obs>>

Some(v)   == [has |-> TRUE, v |-> v]
NoSeq     == [has |-> FALSE, v |-> <<>>]
NoInt     == [has |-> FALSE, v |-> 0]
NoStr     == [has |-> FALSE, v |-> ""]

DefaultTol == "1e-12"
DefaultLabels(nv) == CASE nv = 1 -> <<>>
                       [] nv = 2 -> <<"x", "y">>
                       [] nv = 3 -> <<"x", "y", "z">>
                       [] nv = 4 -> <<"v0", "v1", "v2", "v3">>
DefaultUnits(k) == [d \in 1 .. k |-> "m"]

(* values: pairwise distinct over cells and components *)
ValOf(k, c)   == (5 * k + 2 * c + 1) * (IF (k + c) % 3 = 0 THEN -1 ELSE 1)
ValsOf(n, nv) == [k \in 1 .. ProdSeq(n) |-> [c \in 1 .. nv |-> ValOf(k, c)]]

FieldOf(cf) == [mesh |-> [lo |-> cf.lo, c |-> cf.c, n |-> cf.n], dims |-> cf.dims, units |-> cf.units,
                nv |-> cf.nv, vals |-> ValsOf(cf.n, cf.nv), labels |-> cf.labels, dt |-> cf.dt,
                unit |-> cf.unit, tol |-> cf.tol]

(* ---- Field.to_xarray ------------------------------------------------------------------- *)
Export(f) ==
   LET m == f.mesh
   IN [gd     |-> f.dims,                                   \* geometric dims, in order
       vd     |-> f.nv > 1,                                 \* a trailing dim "vdims"
       coords |-> [d \in Dims(m) |-> CentresAx(m, d)],
       cu     |-> Some(f.units),                            \* units attribute of every geometric coordinate
       vc     |-> IF f.labels # <<>> THEN Some(f.labels) ELSE NoSeq,
       cell   |-> Some(m.c),
       pmin   |-> Some(m.lo),
       pmax   |-> Some([d \in Dims(m) |-> Hi(m, d)]),
       nvdim  |-> Some(f.nv),
       tol    |-> Some(f.tol),
       units  |-> f.unit,
       data   |-> f.vals,
       dt     |-> f.dt]

(* ---- what a caller may take away before importing ------------------------------------------ *)
Removable(f) == {"cell", "pmin", "pmax", "tolerance_factor", "nvdim", "cunits"}
                \cup (IF f.nv > 1 THEN {"vcoord", "vdim"} ELSE {})
Perts(f) == {<<"none">>, <<"cunits_first">>}
            \cup {<<"uneven", d>> : d \in {e \in Dims(f.mesh) : f.mesh.n[e] >= 3}}
Strip(x, S, pert) ==
   [x EXCEPT !.cell  = IF "cell" \in S THEN NoSeq ELSE @,
             !.pmin  = IF "pmin" \in S THEN NoSeq ELSE @,
             !.pmax  = IF "pmax" \in S THEN NoSeq ELSE @,
             !.tol   = IF "tolerance_factor" \in S THEN NoStr ELSE @,
             !.nvdim = IF "nvdim" \in S THEN NoInt ELSE @,
             !.cu    = IF "cunits" \in S THEN NoSeq
                       ELSE IF pert[1] = "cunits_first" THEN Some([@.v EXCEPT ![1] = "-"]) ELSE @,   \* "-" = attribute absent
             !.vc    = IF "vcoord" \in S THEN NoSeq ELSE @,
             !.vd    = IF "vdim" \in S THEN FALSE ELSE @,
             \* uneven spacing: the second centre moved up by a quarter cell
             !.coords = IF pert[1] = "uneven"
                        THEN LET cs == x.coords[pert[2]]
                             IN [x.coords EXCEPT ![pert[2]] = [cs EXCEPT ![2] = cs[2] + (cs[2] - cs[1]) \div 4]]
                        ELSE @]

(* ---- Field.from_xarray: the decision table ---------------------------------------------------- *)
Even(cs)  == \A j \in 1 .. (Len(cs) - 1) : cs[j + 1] - cs[j] = cs[2] - cs[1]
AllUnits(x) == x.cu.has /\ \A d \in DOMAIN x.cu.v : x.cu.v[d] # "-"
Reject(dem) == [ok |-> FALSE, dem |-> dem, v |-> <<>>]
Import(x) ==
   LET nd == Len(x.gd)
       D  == 1 .. nd
   IN IF ~x.nvdim.has THEN Reject({"outcome"})                               \* missing component count
      ELSE IF x.nvdim.v > 1 /\ ~x.vd THEN Reject({"outcome"})                 \* vector field without component axis
      ELSE IF \E d \in D : Len(x.coords[d]) > 1 /\ ~Even(x.coords[d]) THEN Reject({"outcome"})
      ELSE IF ~x.cell.has /\ \E d \in D : Len(x.coords[d]) = 1
           THEN Reject({})              \* no spacing to take the cell from: the property is silent, the library refuses
      ELSE
        LET cell == IF x.cell.has THEN x.cell.v ELSE [d \in D |-> x.coords[d][2] - x.coords[d][1]]
            p1   == IF x.pmin.has THEN x.pmin.v ELSE [d \in D |-> x.coords[d][1] - cell[d] \div 2]
            p2   == IF x.pmax.has THEN x.pmax.v ELSE [d \in D |-> x.coords[d][Len(x.coords[d])] + cell[d] \div 2]
        IN IF \E d \in D : (p2[d] - p1[d]) % cell[d] # 0 \/ p2[d] <= p1[d] THEN Reject({})
           ELSE [ok  |-> TRUE,
                 dem |-> {"outcome", "mesh", "dims", "nv", "values", "dtype"}
                         \cup (IF AllUnits(x) THEN {"units"} ELSE {})
                         \cup (IF x.vc.has \/ x.nvdim.v = 1 THEN {"labels"} ELSE {})
                         \cup (IF x.tol.has THEN {"tol"} ELSE {}),
                 v   |-> [lo |-> p1, hi |-> p2, c |-> cell,
                          n  |-> [d \in D |-> (p2[d] - p1[d]) \div cell[d]],
                          dims   |-> x.gd,
                          units  |-> IF AllUnits(x) THEN x.cu.v ELSE DefaultUnits(nd),
                          tol    |-> IF x.tol.has THEN x.tol.v ELSE DefaultTol,
                          nv     |-> x.nvdim.v,
                          labels |-> IF x.vc.has THEN x.vc.v ELSE DefaultLabels(x.nvdim.v),
                          dt     |-> x.dt,
                          vals   |-> x.data,
                          \* which corners come from the attributes (bitwise equal) and which are rebuilt
                          exactlo |-> x.pmin.has, exacthi |-> x.pmax.has]]

(* ---- actions ------------------------------------------------------------------------------------- *)
NoXa == [gd |-> <<>>, vd |-> FALSE, coords |-> <<>>, cu |-> NoSeq, vc |-> NoSeq, cell |-> NoSeq, pmin |-> NoSeq,
         pmax |-> NoSeq, nvdim |-> NoInt, tol |-> NoStr, units |-> "", data |-> <<>>, dt |-> ""]

Init == /\ fld \in {FieldOf(cf) : cf \in Configs}
        /\ xa = NoXa
        /\ act = <<"new">>
        /\ obs = [ok |-> TRUE, dem |-> {}, v |-> <<>>]

ToXarray == /\ act[1] = "new"
            /\ act' = <<"to_xarray">>
            /\ xa' = Export(fld)
            /\ obs' = [ok |-> TRUE, dem |-> {"coords", "cunits", "vcoord", "attrs"}, v |-> <<>>]
            /\ UNCHANGED fld
(* the exported array, with a subset of attributes removed and possibly perturbed, imported *)
FromXarray == \E S \in SUBSET Removable(fld), pert \in Perts(fld) :
            /\ act[1] = "to_xarray"
            /\ ~("cunits" \in S /\ pert[1] = "cunits_first")
            /\ act' = <<"from_xarray", S, pert>>
            /\ xa' = Strip(xa, S, pert)
            /\ obs' = Import(Strip(xa, S, pert))
            /\ UNCHANGED fld

Next == ToXarray \/ FromXarray
Spec == Init /\ [][Next]_vars

(* ---- the property, clause by clause ---------------------------------------------------------------- *)
TypeOK == /\ MeshOK(fld.mesh) /\ Len(fld.dims) = ND(fld.mesh) /\ Len(fld.units) = ND(fld.mesh)
          /\ Len(fld.vals) = NCells(fld.mesh) /\ Len(fld.labels) \in {0, fld.nv}
          /\ fld.nv > 1 => Len(fld.labels) = fld.nv

(* export: spatial coordinates are the cell centres with the region's units; the component *)
(* coordinate lists the labels; attributes carry cell, corners, count, unit, tolerance      *)
C17_CoordsAreCentres ==
   act[1] = "to_xarray" =>
      LET m == fld.mesh IN
      /\ xa.gd = fld.dims /\ xa.vd = (fld.nv > 1)
      /\ \A d \in Dims(m) : /\ Len(xa.coords[d]) = m.n[d]
                            /\ \A j \in 1 .. m.n[d] : 2 * xa.coords[d][j] = FaceAx(m, d, j - 1) + FaceAx(m, d, j)
      /\ xa.cu = Some(fld.units)
      /\ (fld.labels # <<>>) => xa.vc = Some(fld.labels)
C17_ExportAttrs ==
   act[1] = "to_xarray" =>
      /\ xa.cell = Some(fld.mesh.c) /\ xa.pmin = Some(fld.mesh.lo)
      /\ xa.pmax = Some([d \in Dims(fld.mesh) |-> Hi(fld.mesh, d)])
      /\ xa.nvdim = Some(fld.nv) /\ xa.tol = Some(fld.tol) /\ xa.units = fld.unit
      /\ xa.data = fld.vals /\ xa.dt = fld.dt

IsImport  == act[1] = "from_xarray"
Complete  == IsImport /\ act[2] = {} /\ act[3] = <<"none">>
SameMesh(v) == LET m == fld.mesh IN v.lo = m.lo /\ v.hi = [d \in Dims(m) |-> Hi(m, d)] /\ v.n = m.n /\ v.c = m.c
(* importing the exported array returns an equal field with the same labels and dtype *)
C17_Lossless ==
   Complete => /\ obs.ok
               /\ SameMesh(obs.v) /\ obs.v.dims = fld.dims /\ obs.v.units = fld.units
               /\ obs.v.nv = fld.nv /\ obs.v.vals = fld.vals
               /\ obs.v.labels = fld.labels /\ obs.v.dt = fld.dt /\ obs.v.tol = fld.tol
               /\ {"outcome", "mesh", "dims", "units", "nv", "values", "labels", "dtype"} \subseteq obs.dem
(* without the geometric attributes the mesh is rebuilt from the evenly spaced coordinates: *)
(* half a cell beyond the outermost centres                                                   *)
C17_RebuildFromCoords ==
   (IsImport /\ obs.ok) =>
      /\ \A d \in Dims(fld.mesh) :
            LET cs == xa.coords[d] IN
            /\ 2 * obs.v.lo[d] = 2 * cs[1] - obs.v.c[d]
            /\ 2 * obs.v.hi[d] = 2 * cs[Len(cs)] + obs.v.c[d]
            /\ Len(cs) > 1 => obs.v.c[d] = cs[2] - cs[1]
            /\ obs.v.n[d] = Len(cs)
      /\ SameMesh(obs.v) /\ obs.v.vals = fld.vals /\ obs.v.nv = fld.nv /\ obs.v.dt = fld.dt /\ obs.v.dims = fld.dims
      /\ {"outcome", "mesh", "values", "dtype"} \subseteq obs.dem
(* uneven spacing, a missing component count, a missing component axis of a vector field     *)
C17_Rejects ==
   IsImport =>
      LET S == act[2]
          bad == "nvdim" \in S \/ act[3][1] = "uneven" \/ ("vdim" \in S /\ fld.nv > 1)
      IN /\ bad => (~obs.ok /\ "outcome" \in obs.dem)
         /\ (~bad /\ ~obs.ok) => (obs.dem = {} /\ "cell" \in S /\ \E d \in Dims(fld.mesh) : fld.mesh.n[d] = 1)
         /\ (~bad /\ ~("cell" \in S /\ \E d \in Dims(fld.mesh) : fld.mesh.n[d] = 1)) => obs.ok
(* what is lost when optional pieces are missing: only units, labels, tolerance fall back   *)
C17_Fallbacks ==
   (IsImport /\ obs.ok) =>
      /\ obs.v.units  = (IF "cunits" \in act[2] \/ act[3][1] = "cunits_first" THEN DefaultUnits(ND(fld.mesh)) ELSE fld.units)
      /\ obs.v.labels = (IF "vcoord" \in act[2] THEN DefaultLabels(fld.nv) ELSE fld.labels)
      /\ obs.v.tol    = (IF "tolerance_factor" \in act[2] THEN DefaultTol ELSE fld.tol)
=============================================================================
