------------------------------ MODULE C13Trace ------------------------------
(* Channel T for C13 (also serves C12 and the C14 history clause): histories executed    *)
(* on the real library are validated step by step.  Each event carries the object heap   *)
(* observed before and after the call (ids assigned by object identity, coordinates      *)
(* projected to rationals), so TLC recomputes the step with the operators of Geom.tla,   *)
(* compares, evaluates the C13 clauses on the OBSERVED post-state, and then adopts the   *)
(* observed state.  Verdicts are total.                                                   *)
EXTENDS C13, Json, IOUtils

VARIABLES tid, l
tvars == <<heap, roots, hist, tid, l>>

Traces == JsonDeserialize(IOEnv.TRACE_FILE)
Ev == Traces[tid].ev[l + 1]
Verd(c, name) == IF c THEN TRUE ELSE PrintT(<<"VERDICT", Traces[tid].id, l + 1, name>>)

Range(s) == {s[j] : j \in DOMAIN s}
HeapOf(pairs) == [o \in {p[1] : p \in Range(pairs)} |-> (CHOOSE p \in Range(pairs) : p[1] = o)[2]]
RootsOf(pairs) == [x \in {p[1] : p \in Range(pairs)} |-> (CHOOSE p \in Range(pairs) : p[1] = x)[2]]

TInit == /\ tid \in 1 .. Len(Traces)
         /\ l = 0
         /\ heap = HeapOf(Traces[tid].heap0)
         /\ roots = RootsOf(Traces[tid].roots0)
         /\ hist = <<[kind |-> "init", sc |-> Traces[tid].sc]>>

RegionsNormal(h) == \A o \in DOMAIN h : h[o].k = "region" => RegNormal(h[o])
MeshesNormal(h)  == \A o \in DOMAIN h : h[o].k = "mesh" => MeshNormal(h, o)
FieldsOK(h)      == \A o \in DOMAIN h : h[o].k = "field" => FieldShapeOK(h, o)
SubsOK(h)        == \A o \in DOMAIN h : h[o].k = "mesh" => SubsWellFormed(h, o)

TStep ==
   LET pre   == HeapOf(Ev.pre)
       post  == HeapOf(Ev.post)
       rpre  == RootsOf(Ev.rpre)
       rpost == RootsOf(Ev.rpost)
       o     == rpre[Ev.x]
       st    == Step(Ev.x, Ev.kind, Ev.args, Ev.inplace, Ev.outcome)
       wellformed == Ev.kind # "malformed"
       accept == wellformed /\ Accepts(pre, o, Ev.kind, Ev.args)
       ok    == Ev.outcome = "ok"
       cp    == Copying(pre, o, Ev.kind, Ev.args)
       aliasP1 == /\ ok /\ Ev.inplace /\ Ev.kind = "rotate90" /\ OddK(Ev.args.k)
                  /\ LET m == TargetMesh(pre, o) IN
                        /\ m # 0 /\ pre[m].n[Ev.args.a] # pre[m].n[Ev.args.b]
                        /\ \E f \in DOMAIN pre : pre[f].k = "field" /\ f # o /\ pre[f].mesh = m
       aliasP2 == /\ ok /\ Ev.inplace
                  /\ \E m \in DOMAIN pre : /\ pre[m].k = "mesh" /\ m # TargetMesh(pre, o)
                                          /\ pre[m].sub # <<>> /\ pre[m].region \in MovedRegs(pre, o)
   IN
   /\ Verd(pre = heap /\ rpre = roots, "continuity")
   /\ Verd(ok <=> accept, IF accept THEN "accepts-wellformed-step" ELSE "C13_RejectBothForms")
   /\ Verd(~ok => (post = pre /\ rpost = rpre), "C13_RejectUnchanged")
   /\ Verd((ok /\ accept /\ Ev.inplace) => (post = InPlace(pre, o, Ev.kind, Ev.args) /\ rpost = rpre), "inplace-post-state")
   /\ Verd((ok /\ Ev.inplace) => Ev.retself, "C13_InplaceReturnsSelf")
   /\ Verd((ok /\ accept /\ ~Ev.inplace) => Deep(post, rpost[Ev.x]) = Deep(cp[1], cp[2]), "copy-result")
   /\ Verd((ok /\ accept) => Deep(post, rpost[Ev.x]) = Deep(cp[1], cp[2]), "C13_InplaceEqualsCopy")
   /\ Verd((ok /\ ~Ev.inplace) => \A q \in DOMAIN pre \cap DOMAIN post : post[q] = pre[q], "C13_CopyLeavesOriginal")
   (* the result of a copying step consists of new objects: one that refers to a region / mesh of the original is a     *)
   (* modification of the original waiting for the next in-place step                                                   *)
   /\ Verd((ok /\ ~Ev.inplace) => Reach(post, {rpost[Ev.x]}) \cap DOMAIN pre = {}, "C13_CopyLeavesOriginal/result-shares-objects")
   /\ Verd(RegionsNormal(post), "C13_RegionNormal")
   /\ Verd(MeshesNormal(post), "C13_MeshNormal")
   /\ Verd(FieldsOK(post) \/ ~FieldsOK(pre), IF aliasP1 THEN "C13_FieldShapes/alias-P1" ELSE "C13_FieldShapes")
   /\ Verd(SubsOK(post) \/ ~SubsOK(pre), IF aliasP2 THEN "C14_SubregionsWellFormed/alias-P2" ELSE "C14_SubregionsWellFormed")
   /\ heap' = post
   /\ roots' = rpost
   /\ hist' = Append(hist, st)

TNext == /\ l < Len(Traces[tid].ev)
         /\ TStep
         /\ l' = l + 1
         /\ UNCHANGED tid
TSpec == TInit /\ [][TNext]_tvars
=============================================================================
