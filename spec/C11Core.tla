------------------------------ MODULE C11Core ------------------------------
(* The index core of C11 for axes of ANY length: where the discrete frequencies of an axis of n  *)
(* cells sit before and after the shift that puts the zero frequency in the middle of the        *)
(* k-mesh.  TLC checks the transforms of the full model on axes of a few cells (C11.tla); here    *)
(* Apalache proves the index arithmetic for every n >= 1 - the place where odd and even lengths   *)
(* differ and where `fftshift` written for `ifftshift` goes unnoticed on even lengths.            *)
(* The state is one arbitrary choice (n, i): every clause is an invariant of the initial states.  *)
(*   apalache-mc check --init=Init --inv=<clause> --length=0 C11Core.tla                          *)
EXTENDS Integers

VARIABLES
  \* @type: Int;
  n,
  \* @type: Int;
  i

Init == n \in Int /\ i \in Int /\ n >= 1 /\ 0 <= i /\ i < n
Next == UNCHANGED <<n, i>>

Half == n \div 2
(* numpy.fft.fftshift moves the entry at index j to index (j + n div 2) mod n, ifftshift to (j + (n + 1) div 2) mod n *)
Shift(j)   == (j + Half) % n
Unshift(j) == (j + ((n + 1) \div 2)) % n
(* the frequency (in units of 1 / (n cell)) stored at index j of the unshifted transform: 0, 1, .., -2, -1 *)
Freq(j) == IF j < (n + 1) \div 2 THEN j ELSE j - n

(* the k-mesh has n cells: the frequencies -(n div 2) .. (n - 1) div 2, each exactly once *)
C11_FrequencyCount == ((n - 1) \div 2) + Half + 1 = n
C11_FrequencyRange == 0 - Half <= Freq(i) /\ Freq(i) <= (n - 1) \div 2
(* after the shift the frequencies increase with the index: the cell p of the k-mesh holds frequency p - n div 2 *)
C11_ShiftSortsFrequencies == Shift(i) = Freq(i) + Half /\ 0 <= Shift(i) /\ Shift(i) < n
(* the inverse transform undoes the shift: ifftshift(fftshift(x)) = x for odd and even n *)
C11_UnshiftInvertsShift == Unshift(Shift(i)) = i /\ Shift(Unshift(i)) = i
(* the zero frequency sits in cell n div 2 of the k-mesh, whose centre is k = 0 *)
C11_ZeroFrequencyCell == Shift(0) = Half /\ Freq(0) = 0
=============================================================================
