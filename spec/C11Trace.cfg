SPECIFICATION TSpec
CONSTANTS
  MaxN = 1
  MaxCells = 1
  CProf = {}
  LoProf = {}
  NVs = {}
  Pats = {}
  Coefs = {}
CHECK_DEADLOCK FALSE
