------------------------------ MODULE C09Core ------------------------------
(* The integer core of the OVF header of C09 for meshes of ANY size: the header states the       *)
(* geometry three times (xmin / xmax, xbase / xstepsize, xnodes) - "header fields nobody reads     *)
(* back (xbase, stepsize)" are exactly what the unit tests leave unchecked.  TLC checks the        *)
(* header of the full model on a few meshes (C09.tla); here Apalache proves for ANY lo, c >= 1,    *)
(* n >= 1 that the header the specification writes is consistent in itself (an independent reader  *)
(* may use either description), that the library's reader recovers the mesh from it, and that the  *)
(* position of a value in the data block determines its node number and component (the components  *)
(* of a node are adjacent; the x-fastest node numbering itself is the bijection of C16Core.tla).    *)
(* Doubled coordinates keep xbase = xmin + xstepsize / 2 integral.                                 *)
(*   apalache-mc check --init=Init --inv=<clause> --length=0 C09Core.tla                           *)
EXTENDS Integers

VARIABLES
  \* @type: Int;
  lo,
  \* @type: Int;
  c,
  \* @type: Int;
  nx,
  \* @type: Int;
  ny,
  \* @type: Int;
  nz,
  \* @type: Int;
  nv,
  \* @type: Int;
  i,
  \* @type: Int;
  j,
  \* @type: Int;
  k,
  \* @type: Int;
  w,
  \* @type: Int;
  q

(* the header of the x axis, doubled *)
XMin2  == 2 * lo
XMax2  == 2 * (lo + nx * c)
XBase2 == 2 * lo + c
XStep2 == 2 * c
XNodes == nx
(* position of component w of node (i, j, k) in the data block: components adjacent, then x fastest, y, z *)
Pos == w + nv * (i + nx * (j + ny * k))

Init == /\ lo \in Int /\ c \in Int /\ nx \in Int /\ ny \in Int /\ nz \in Int /\ nv \in Int
        /\ i \in Int /\ j \in Int /\ k \in Int /\ w \in Int /\ q \in Int /\ q >= 0
        /\ c >= 1 /\ nx >= 1 /\ ny >= 1 /\ nz >= 1 /\ nv >= 1
        /\ 0 <= i /\ i < nx /\ 0 <= j /\ j < ny /\ 0 <= k /\ k < nz /\ 0 <= w /\ w < nv
Next == UNCHANGED <<lo, c, nx, ny, nz, nv, i, j, k, w, q>>

(* the two descriptions of the axis agree: nodes at xbase + q xstepsize are the cell centres of [xmin, xmax] cut into xnodes cells *)
C09_HeaderConsistent == /\ XBase2 = XMin2 + XStep2 \div 2
                        /\ XMax2 = XMin2 + XNodes * XStep2
                        /\ XBase2 + i * XStep2 = 2 * lo + (2 * i + 1) * c        \* node i is the centre of cell i
(* the library's reader: region from xmin / xmax, cell from xstepsize, n = (xmax - xmin) / xstepsize *)
C09_ReaderRecoversMesh == /\ (XMax2 - XMin2) \div XStep2 = nx
                          /\ (XMax2 - XMin2) % XStep2 = 0
(* the position in the data block determines node and component *)
C09_PositionInRange == 0 <= Pos /\ Pos < nv * nx * ny * nz
(* ... in two steps: the components of node number q are adjacent (here); the node number i + nx (j + ny k) determines (i, j, k) *)
(* (spec/C16Core.tla, C16_PositionDeterminesCell - the same statement; in one formula with the components it is beyond the solver) *)
C09_ComponentsAdjacent == (w + nv * q) % nv = w /\ (w + nv * q) \div nv = q
=============================================================================
