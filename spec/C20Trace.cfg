SPECIFICATION TSpec
CONSTANTS
  Shapes = {}
  CProf = {}
  LoProf = {}
  Masks = {}
  ScaleSeq <- TraceScales
  Diagonal = TRUE
  AuxKinds = {}
  MapKinds = {}
  NameSchemes = {}
  MultOpts = {}
  PairOpts = "few"
  BadShapes = {}
CHECK_DEADLOCK FALSE
