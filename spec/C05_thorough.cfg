SPECIFICATION Spec
CONSTANTS
  TableND <- ND_all
  TableNV <- NV_all
  MeshCfgs <- Mesh_thorough
  RotCfgs <- Rot_thorough
  RotK <- RotK_thorough
CHECK_DEADLOCK FALSE
INVARIANT TypeOK
INVARIANT C05_Refusals
INVARIANT C05_PairingByMapping
INVARIANT C05_NotByPosition
INVARIANT C05_TextbookCombination
INVARIANT C05_CurlGradZero
INVARIANT C05_DivCurlZero
INVARIANT C05_PolyExactDeg2
INVARIANT C05_CommutesWithRot90
