------------------------------ MODULE C04Trace ------------------------------
(* Channel T for C04 (operator extraction).  The harness probes the real Field.diff     *)
(* with unit vectors (scaled differently on every grid line and component of the        *)
(* carrier mesh) and logs, per batch, the OBSERVED operators as integer matrices         *)
(* (entry = weight * sc; first derivative weights are numerators over 2h, second over   *)
(* h^2), the responses to random integer fields, and metadata flags.  Here the          *)
(* variables of C04 are bound to the observation, the property's predicates (C04Lib     *)
(* layer 2) are evaluated on the observed matrices - never equality with the reference  *)
(* stencil -, and the number of observed operators that coincide with the reference     *)
(* operator / with today's periodic code is printed as INFO only.                       *)
(* Verdicts are total: <<"VERDICT", trace id, event, clause, class, first mat, count>>. *)
EXTENDS C04, Json, IOUtils

VARIABLES tid, l
tvars == <<cfg, act, obs, tid, l>>

Traces == JsonDeserialize(IOEnv.TRACE_FILE)
Ev == Traces[tid].ev[l + 1]
MinOf(S) == CHOOSE x \in S : \A y \in S : x <= y
(* bad: set of mat indices (or line / orbit indices) violating the clause                *)
VerdSet(bad, clause, cls) ==
   IF bad = {} THEN TRUE
   ELSE PrintT(<<"VERDICT", Traces[tid].id, l + 1, clause, cls, MinOf(bad), Cardinality(bad)>>)

ScaleMat(A, sc) == [i \in DOMAIN A |-> [j \in DOMAIN A |-> sc * A[i][j]]]
CfgOf(e, a) == [L |-> e.L, valid |-> e.mats[a].v, order |-> e.order, pbc |-> e.pbc, r2v |-> e.r2v]
Mats(e)     == 1 .. Len(e.mats)

(* the set of <<clause, class>> pairs the observed operator of mat a violates.  On a     *)
(* periodic line that is not fully valid the runs are the maximal cyclic runs; those     *)
(* crossing the seam are reported under their own class.                                 *)
MatFails(e, a) ==
   LET c      == CfgOf(e, a)
       M      == e.mats[a].m
       ring   == Ring(c)
       runs   == IF ring THEN {} ELSE Runs(c)
       seam   == IF e.pbc THEN {r \in runs : CrossesSeam(r, c.L)} ELSE {}
       inside == runs \ seam
       clsIn  == IF e.pbc THEN "run-inside" ELSE "open"
       shape  == Len(M) = e.L /\ Len(e.mats[a].v) = e.L /\ \A i \in 1 .. e.L : Len(M[i]) = e.L
       F(ok, clause, cls) == IF ok THEN {} ELSE {<<clause, cls>>}
   IN IF ~shape THEN {<<"shape", "any">>}
      ELSE IF ring THEN F(RingExact(M, e.sc, e.order), "C04_RingIsCentredWrap", "full-ring")
      ELSE F(PolyExact(M, e.sc, inside, e.order), "C04_PolyExact", clsIn)
           \cup F(PolyExact(M, e.sc, seam, e.order), "C04_PolyExact", "run-across-seam")
           \cup F(ShortRunsZero(M, inside, e.order), "C04_ShortRunsZero", clsIn)
           \cup F(ShortRunsZero(M, seam, e.order), "C04_ShortRunsZero", "run-across-seam")
           \cup F(LocalToRuns(M, inside), "C04_Local", clsIn)
           \cup F(LocalToRuns(M, seam), "C04_Local", "run-across-seam")
           \cup F(InvalidZero(M, Eff(c)), "C04_InvalidZero", IF e.pbc THEN "periodic" ELSE "open")

(* cells whose cyclic run crosses the seam *)
SeamCells(v) == IF AllValid(v) THEN {}
                ELSE UNION {SeqRange(r) : r \in {r \in RingRuns(v) : CrossesSeam(r, Len(v))}}
(* commuting with cyclic shifts: orbit o lists the mats observed for Roll(v, s), s = 0..L-1 *)
OrbFails(e, o) ==
   LET orb   == e.orbits[o]
       L     == e.L
       v0    == Eff(CfgOf(e, orb[1]))
       okv   == Len(orb) = L /\ \A s \in 1 .. L : Eff(CfgOf(e, orb[s])) = Roll(v0, s - 1)
       sc    == [s \in 1 .. L |-> SeamCells(Roll(v0, s - 1))]
       badR  == {p \in (0 .. (L - 1)) \X (1 .. L) :
                    ~ShiftRowOK(e.mats[orb[1]].m, e.mats[orb[p[1] + 1]].m, p[1], p[2])}
       isSeam(p) == p[2] \in sc[1] \/ Wrap(L, p[2] + p[1]) \in sc[p[1] + 1]
   IN IF ~okv THEN {<<"orbit-is-rolled-validity", "any">>}
      ELSE IF AllValid(v0) THEN (IF badR = {} THEN {} ELSE {<<"C04_ShiftCommutes", "full-ring">>})
      ELSE (IF \E p \in badR : isSeam(p) THEN {<<"C04_ShiftCommutes", "run-across-seam">>} ELSE {})
           \cup (IF \E p \in badR : ~isSeam(p) THEN {<<"C04_ShiftCommutes", "run-inside">>} ELSE {})

StepDiff ==
   LET e  == Ev
       MF == [a \in Mats(e) |-> MatFails(e, a)]
       OF == [o \in 1 .. Len(e.orbits) |-> OrbFails(e, o)]
   IN
   /\ Ev.k = "diff"
   /\ cfg' = CfgOf(e, 1)
   /\ act' = <<"diff_unit">>
   /\ obs' = [m |-> e.mats[1].m, valid |-> e.mats[1].v]
   /\ \A k \in UNION {MF[a] : a \in Mats(e)} : VerdSet({a \in Mats(e) : k \in MF[a]}, k[1], k[2])
   /\ \A k \in UNION {OF[o] : o \in DOMAIN OF} : VerdSet({o \in DOMAIN OF : k \in OF[o]}, k[1], k[2])
   (* linear, and independent of the other lines / components: every response to a      *)
   (* random field equals the line's own observed matrix applied to the line's own data *)
   /\ VerdSet({k \in 1 .. Len(e.lines) : e.lines[k].g # MatVec(e.mats[e.lines[k].mi].m, e.lines[k].f)},
              "C04_Linear", "lines")
   (* mesh, labels, unit, validity kept *)
   /\ VerdSet({k \in 1 .. Len(e.meta) : ~e.meta[k].ok}, "C04_KeepsMeta", "any")
   (* informational: how many observed operators coincide with the reference operator   *)
   (* of the specification / with the transcription of today's periodic code            *)
   /\ PrintT(<<"INFO", Traces[tid].id, l + 1, Len(e.mats),
               Cardinality({a \in Mats(e) : LET RM == RefMatrix(e.mats[a].v, e.order, e.pbc, e.r2v)
                                            IN e.mats[a].m = ScaleMat(RM, e.sc)}),
               Cardinality({a \in Mats(e) : LET RM == CodeMatrix(e.mats[a].v, e.order, e.pbc, e.r2v)
                                            IN e.mats[a].m = ScaleMat(RM, e.sc)})>>)

TInit == /\ tid \in 1 .. Len(Traces)
         /\ l = 0
         /\ cfg = [L |-> 0]
         /\ act = <<"new">>
         /\ obs = [valid |-> <<>>]
TNext == /\ l < Len(Traces[tid].ev)
         /\ StepDiff
         /\ l' = l + 1
         /\ UNCHANGED tid
TSpec == TInit /\ [][TNext]_tvars
=============================================================================
