----------------------------- MODULE MC_PadOpt -----------------------------
EXTENDS PadOpt
(* cell counts: 1-3 dimensions, axes of length 1 included *)
Shapes_quick    == {<<1>>, <<4>>, <<3, 2>>, <<2, 1, 3>>}
Shapes_thorough == {<<1>>, <<2>>, <<3>>, <<5>>, <<2, 2>>, <<3, 2>>, <<1, 3>>, <<4, 1>>, <<2, 3, 2>>, <<3, 1, 2>>, <<1, 2, 4>>}
(* <<value pattern, validity pattern>>: 1 distinct / 2 repeated values; masks 1 all valid, 2 none, 3 first cell invalid, *)
(* 4 last cell invalid, 5 one invalid cell inside, 6 one valid cell inside                                              *)
CfgPats_quick    == {<<1, 1>>, <<2, 2>>, <<1, 3>>, <<2, 4>>, <<1, 5>>, <<2, 6>>}
CfgPats_thorough == ({1} \X (1 .. 6)) \cup {<<2, 2>>, <<2, 5>>, <<2, 6>>}
(* widths: 0, small, larger than every axis *)
WPairs_quick    == {<<0, 0>>, <<1, 0>>, <<0, 2>>, <<2, 1>>, <<5, 1>>, <<2, 6>>}
WPairs_thorough == {<<0, 0>>, <<1, 0>>, <<0, 1>>, <<2, 0>>, <<0, 2>>, <<1, 2>>, <<2, 1>>, <<3, 3>>, <<6, 0>>, <<0, 6>>, <<6, 2>>,
                    <<3, 6>>}
Opts_all == {Opt("constant", "default", 0, 0), Opt("constant", "scalar", 1, 1), Opt("constant", "scalar", 7, 7),
             Opt("constant", "pair", 2, 0), Opt("constant", "pair", 0, 5),
             Opt("maximum", "default", 0, 0), Opt("maximum", "stat", 1, 0), Opt("maximum", "stat", 2, 0),
             Opt("minimum", "default", 0, 0), Opt("minimum", "stat", 1, 0), Opt("minimum", "stat", 2, 0),
             Opt("mean", "default", 0, 0), Opt("mean", "stat", 1, 0), Opt("mean", "stat", 2, 0),
             Opt("median", "default", 0, 0), Opt("median", "stat", 1, 0), Opt("median", "stat", 2, 0),
             Opt("edge", "default", 0, 0), Opt("wrap", "default", 0, 0),
             Opt("reflect", "default", 0, 0), Opt("symmetric", "default", 0, 0),
             Opt("linear_ramp", "default", 0, 0), Opt("linear_ramp", "scalar", 3, 3), Opt("linear_ramp", "pair", 0, 3)}
Opts_thorough == Opts_all \cup {Opt("maximum", "stat", 3, 0), Opt("minimum", "stat", 3, 0), Opt("median", "stat", 3, 0),
                                Opt("mean", "stat", 3, 0), Opt("linear_ramp", "pair", 4, 1), Opt("reflect", "even", 0, 0),
                                Opt("symmetric", "even", 0, 0)}
=============================================================================
