------------------------------ MODULE MC_C10 ------------------------------
(* Bounds of the C10 model: families of field records over 1-4 dimensions.  One lattice  *)
(* unit is 1/8 (IU = 8), cells are 4 or 8 units (0.5 or 1.0), so subregion corners can   *)
(* be fractional on integer-cornered regions.                                            *)
EXTENDS C10

MkVals(n, nv, off, K) == [k \in 1 .. ProdSeq(n) |-> [c \in 1 .. nv |-> ((k - 1) * 7 + (c - 1) * 5 + off) % K]]
MkValid(n, pat) == [k \in 1 .. ProdSeq(n) |->
                      CASE pat = "all" -> TRUE [] pat = "none" -> FALSE [] pat = "alt" -> k % 2 = 1 [] pat = "first" -> k # 1]
(* geometry per number of dimensions: <<lo, c, n>>; the first axis has half-unit cells *)
Geo == <<  <<<<-8>>, <<4>>, <<4>>>>,
           <<<<0, 8>>, <<4, 8>>, <<4, 2>>>>,
           <<<<0, 0, -8>>, <<4, 8, 4>>, <<2, 1, 2>>>>,
           <<<<0, 8, 0, -16>>, <<4, 8, 4, 16>>, <<2, 1, 2, 1>>>>  >>
GeoOff == <<  <<<<4>>, <<4>>, <<3>>>>,                        \* corners not on integers: float-typed only
              <<<<-4, 2>>, <<4, 12>>, <<3, 2>>>>,
              <<<<1, 0, 5>>, <<8, 4, 4>>, <<2, 3, 1>>>>,
              <<<<0, 3, 0, 0>>, <<4, 4, 8, 4>>, <<2, 1, 1, 2>>>>  >>
HiG(g) == [d \in DOMAIN g[1] |-> g[1][d] + g[2][d] * g[3][d]]
(* subregion boxes relative to a geometry: frac = the first (half-unit) cell layer of axis 1, *)
(* two = the first two layers (integer corners), whole = everything                          *)
Box(g, kind) == CASE kind = "frac"  -> [lo |-> g[1], hi |-> [HiG(g) EXCEPT ![1] = g[1][1] + g[2][1]]]
                  [] kind = "two"   -> [lo |-> g[1], hi |-> [HiG(g) EXCEPT ![1] = g[1][1] + 2 * g[2][1]]]
                  [] kind = "whole" -> [lo |-> g[1], hi |-> HiG(g)]
Sub(g, name, kind, tag) == [name |-> name, lo |-> Box(g, kind).lo, hi |-> Box(g, kind).hi, tag |-> tag]
(* layouts: sequences of <<name, kind, tag>> *)
Layouts == { <<>>,
             <<<<"a", "frac", "float">>>>,
             <<<<"b", "two", "int">>>>, <<<<"b", "two", "float">>>>,
             <<<<"w", "whole", "int">>, <<"a", "frac", "float">>>>,
             <<<<"w", "whole", "float">>, <<"b", "two", "int">>>>,
             <<<<"zz", "two", "float">>, <<"w", "whole", "float">>, <<"a", "frac", "float">>>> }
LayoutsOff == { <<>>, <<<<"a", "frac", "float">>>>, <<<<"w", "whole", "float">>, <<"b", "two", "float">>>> }
SubsOf(g, lay) == [k \in DOMAIN lay |-> Sub(g, lay[k][1], lay[k][2], lay[k][3])]

DimsA == <<"x", "y", "z", "x3">>          \* (library defaults are x,y,z / x0..x3; all names are given explicitly)
DimsB == <<"a", "b", "c", "d">>
DimsC == <<"z", "len", "x", "t0">>
UnitsA == <<"m", "m", "m", "m">>
UnitsB == <<"nm", "s", "m", "T">>
Pre(s, k) == [d \in 1 .. k |-> s[d]]
Lab == [none |-> [nv |-> 1, l |-> Absent],
        s1   |-> [nv |-> 1, l |-> Present(<<"s">>)],
        n2   |-> [nv |-> 2, l |-> Absent],
        p2   |-> [nv |-> 2, l |-> Present(<<"u", "v">>)],
        n3   |-> [nv |-> 3, l |-> Absent],
        p3   |-> [nv |-> 3, l |-> Present(<<"x", "y", "z">>)],
        m3   |-> [nv |-> 3, l |-> Present(<<"m_x", "my", "k-z">>)],
        p4   |-> [nv |-> 4, l |-> Present(<<"v0", "v1", "v2", "v3">>)]]
Mk(g, rtag, lay, dims, units, tol, bc, lab, unit, kind, pat, off, sk, K) ==
   [lo |-> g[1], c |-> g[2], n |-> g[3], rtag |-> rtag, dims |-> Pre(dims, Len(g[3])), units |-> Pre(units, Len(g[3])),
    tol |-> tol, bc |-> bc, subs |-> SubsOf(g, lay), nv |-> Lab[lab].nv, labels |-> Lab[lab].l, unit |-> unit,
    kind |-> kind, vals |-> MkVals(g[3], Lab[lab].nv, off, K), valid |-> MkValid(g[3], pat), strkind |-> sk]

(* A: every int/float combination of region and subregion corners, 1-4 dimensions *)
FamTags(K) == {Mk(Geo[nd], rt, lay, DimsA, UnitsA, "1e-12", "", "p3", "A/m", "float", "all", 0, "py", K) :
                  nd \in 1 .. 4, rt \in {"int", "float"}, lay \in Layouts}
              \cup {Mk(GeoOff[nd], "float", lay, DimsA, UnitsA, "1e-12", "", "none", "A/m", "float", "alt", 2, "py", K) :
                  nd \in 1 .. 4, lay \in LayoutsOff}
(* B: region / mesh metadata *)
BCs(dims, nd) == {"", "neumann", "dirichlet"} \cup (IF dims = DimsC THEN {"z"} ELSE {dims[1]})
                 \cup (IF nd >= 2 /\ dims # DimsC THEN {dims[2], dims[2] \o dims[1]} ELSE {})
FamMeta(NDS, K) == {Mk(Geo[nd], rt, <<>>, du[1], du[2], tol, bc, "p2", None, "float", "first", 1, "py", K) :
                  nd \in NDS, rt \in {"int", "float"}, du \in {<<DimsA, UnitsA>>, <<DimsB, UnitsB>>, <<DimsC, UnitsB>>},
                  tol \in {"1e-12", "1e-9", "1e-6"}, bc \in {"", "neumann", "dirichlet"}}
                  \cup UNION {{Mk(Geo[nd], "float", <<>>, du[1], du[2], "1e-12", bc, "p2", None, "float", "first", 1, "py", K) :
                                 bc \in BCs(du[1], nd)} : nd \in 1 .. 3, du \in {<<DimsA, UnitsA>>, <<DimsB, UnitsB>>}}
(* C: field attributes: labels, unit, dtype kind, validity *)
FamField(NDS, K) == {Mk(Geo[nd], "float", <<<<"b", "two", "float">>>>, DimsA, UnitsA, "1e-12", "", lab, unit, kind, pat, 3, "py", K) :
                  nd \in NDS, lab \in DOMAIN Lab, unit \in {None, "A/m", "T"}, kind \in {"float", "complex", "int"},
                  pat \in {"all", "none", "alt", "first"}}
(* D: dimension names / units / labels handed over as numpy strings (D20) *)
FamStr(K) == {Mk(Geo[2], "float", <<>>, DimsB, UnitsB, "1e-12", "", "p2", "T", "float", "all", 4, sk, K) :
                  sk \in {"np-dims", "np-units", "np-labels"}}

Fields_quick    == FamTags(13) \cup FamMeta({2}, 13) \cup FamField({2}, 13) \cup FamStr(13)
Fields_thorough == FamTags(17) \cup FamMeta({1, 2, 3, 4}, 17) \cup FamField({1, 2, 3, 4}, 17) \cup FamStr(17)
=============================================================================
