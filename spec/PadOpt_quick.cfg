SPECIFICATION Spec
CONSTANTS
  Shapes <- Shapes_quick
  CfgPats <- CfgPats_quick
  WPairs <- WPairs_quick
  Opts <- Opts_all
CHECK_DEADLOCK FALSE
INVARIANT TypeOK
INVARIANT PadOpt_AddsCells
INVARIANT PadOpt_PaddingFollowsMode
INVARIANT PadOpt_ValidityLikeData
INVARIANT PadOpt_LinesIndependent
