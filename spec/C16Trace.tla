------------------------------ MODULE C16Trace ------------------------------
(* Channel T for C16: executions of the real library on random larger 3-d fields (grid   *)
(* built by Field.to_vtk, VTK's own FindCell at random lattice points, write/read round  *)
(* trips, legacy files) are checked event by event.  The variables of C16 are bound to   *)
(* the *observed* values; the property clauses are evaluated on them and compared with   *)
(* the specification's own operators.  Verdicts are total.                               *)
EXTENDS C16, Json, IOUtils

VARIABLES tid, l
tvars == <<fld, file, act, obs, tid, l>>

Traces == JsonDeserialize(IOEnv.TRACE_FILE)
T  == Traces[tid]
Ev == Traces[tid].ev[l + 1]
Verd(c, name) == IF c THEN TRUE ELSE PrintT(<<"VERDICT", Traces[tid].id, l + 1, name>>)
SeqToSet(s) == {s[j] : j \in DOMAIN s}

TInit == /\ tid \in 1 .. Len(Traces)
         /\ l = 0
         /\ fld = [Traces[tid].fld EXCEPT !.subs = SeqToSet(@)]
         /\ file = NoFile
         /\ act = <<"new">>
         /\ obs = Ok([n |-> Traces[tid].fld.mesh.n, nv |-> Traces[tid].fld.nv])

StepGrid ==
   /\ Ev.k = "grid"
   /\ act' = <<"to_vtk">>
   /\ obs' = Ok([grid |-> [xs |-> Ev.xs, field |-> Ev.field, norm2 |-> Ev.norm2, names |-> Ev.names,
                           comps |-> Ev.comps, valid |-> Ev.valid],
                 cellOf |-> <<>>, loc |-> <<>>])
   /\ file' = file
   /\ LET g == Grid(fld) IN
        /\ Verd(Ev.exact, "grid-on-lattice")
        /\ Verd(Ev.xs = g.xs, "C16_VerticesAreCoordinates")
        /\ Verd(Ev.field = g.field, "C16_ValueAtLocatedCell-field")
        /\ Verd(Ev.norm2 = g.norm2, "C16_ValueAtLocatedCell-norm")
        /\ Verd(Ev.names = g.names /\ Ev.comps = g.comps, "C16_ValueAtLocatedCell-comp")
        /\ Verd(Ev.valid = g.valid, "C16_ValueAtLocatedCell-valid")
StepLoc ==
   /\ Ev.k = "loc"
   /\ act' = <<"locate", Ev.p>>
   /\ obs' = Ok([id |-> Ev.id])
   /\ file' = file
   /\ LET m == fld.mesh
          L == GridLocate(Grid(fld), Ev.p)
      IN /\ Verd(Ev.id \in L, "C16_ValueAtLocatedCell-locate")
         /\ Verd(Ev.id >= 0 =>
                   LET i == VtkCell(m.n[1], m.n[2], Ev.id)
                   IN /\ InRange(m, i)
                      /\ \A d \in 1 .. 3 : InClosedCellAx(m, d, i[d], Ev.p[d])
                      /\ Ev.val = At(m.n, fld.vals, i)
                      /\ Ev.n2 = Norm2(At(m.n, fld.vals, i))
                      /\ Ev.vf = (IF At(m.n, fld.valid, i) THEN 1 ELSE 0),
                 "C16_ValueAtLocatedCell-value")
         (* the clause on the observation alone: a point strictly inside one cell is found there *)
         /\ Verd((Inside(m, Ev.p) /\ ~\E d \in 1 .. 3 : OnFaceAx(m, d, Ev.p[d])) => Ev.id = Flat(m.n, P2I(m, Ev.p)),
                 "C16_ValueAtLocatedCell-cell")
StepRT ==
   /\ Ev.k = "rt"
   /\ act' = <<"read", "vtk", Ev.repr, Ev.side>>
   /\ file' = WriteVTK(fld, Ev.repr, Ev.savesub)
   /\ LET fl  == WriteVTK(fld, Ev.repr, Ev.savesub)
          exp == ReadVTK(fl)
          b   == Ev.back
      IN /\ obs' = IF Ev.ok THEN Ok(b) ELSE Rej
         /\ Verd(Ev.form = FormOf(Ev.repr), "C16_FileForm")
         /\ Verd(Ev.side = fl.side, "C16_SidecarIffSubregions")
         /\ Verd(Ev.ok, "C16_RoundTrip-read-raises")
         /\ Verd(Ev.ok => Ev.rel = exp.rel, "rt-relation")
         /\ Verd(Ev.ok => (b.exact /\ b.lo = exp.lo /\ b.hi = exp.hi), "C16_RoundTrip-region")
         /\ Verd(Ev.ok => b.n = exp.n, "C16_RoundTrip-n")
         /\ Verd(Ev.ok => (b.nv = exp.nv /\ b.vexact /\ b.vals = exp.vals), "C16_RoundTrip-values")
         /\ Verd(Ev.ok => b.valid = exp.valid, "C16_RoundTrip-valid")
         /\ Verd(Ev.ok => b.vbool, "C16_RoundTrip-valid-dtype")
         /\ Verd(Ev.ok => b.labels = exp.labels, "C16_RoundTrip-labels")
         /\ Verd(Ev.ok => (b.sexact /\ SeqToSet(b.subs) = exp.subs), "C16_RoundTrip-subregions")
StepLegacy ==
   /\ Ev.k = "legacy"
   /\ act' = <<"read", "legacy", "txt", FALSE>>
   /\ file' = LegacyFile(fld)
   /\ LET exp == ReadLegacy(LegacyFile(fld))
          b   == Ev.back
      IN /\ obs' = IF Ev.ok THEN Ok(b) ELSE Rej
         /\ Verd(Ev.ok, "C16_LegacyOneValuePerCell-read-raises")
         /\ Verd(Ev.ok => b.n = exp.n, "C16_LegacyOneValuePerCell-n")
         /\ Verd(Ev.ok => (b.nv = exp.nv /\ b.vexact /\ b.vals = exp.vals), "C16_LegacyOneValuePerCell-values")
         /\ Verd(Ev.ok => b.pos, "C16_LegacyOneValuePerCell-position")

TNext == /\ l < Len(Traces[tid].ev)
         /\ (StepGrid \/ StepLoc \/ StepRT \/ StepLegacy)
         /\ l' = l + 1
         /\ UNCHANGED <<fld, tid>>
TSpec == TInit /\ [][TNext]_tvars
=============================================================================
