-------------------------------- MODULE C02 --------------------------------
(* C02 - a field holds exactly the value its specification assigns to every cell.      *)
(*                                                                                     *)
(* State: one mesh (lattice configuration of Lattice.tla) with an ordered list of      *)
(* subregions, a component count, the field's current value array `fld` (flat          *)
(* sequence in iteration order, one component sequence per cell, Cells.tla), the last   *)
(* public call `act` and what it must return / leave behind `obs`.                     *)
(*                                                                                     *)
(* Value specifications are records; EvalSpec is the *constructive* transcription of   *)
(* Field._as_array (reversed subregion order is modelled as "smallest listed index      *)
(* wins"); CellOK is the *declarative* statement of the property for one cell.  TLC     *)
(* checks that they agree on every configuration, the harness checks the library       *)
(* against EvalSpec (channel R) and C02Trace evaluates CellOK on observed arrays (T).  *)
(*                                                                                     *)
(* Cell values are integers.  dtype (int / float / complex / bool / unspecified) is an *)
(* embedding of the value axis chosen by the harness, exactly like the float           *)
(* embeddings of the coordinate axis.                                                  *)
EXTENDS Cells, TLC

CONSTANTS MeshSet,      \* set of meshes [lo, c, n]
          NVSet,        \* component counts
          LayoutSet,    \* set of subregion layouts (sequences of box names, see NamedBox)
          FieldKinds,   \* source-mesh kinds for field-valued specifications
          DictPats,     \* item patterns of dictionary specifications
          LineKs        \* numbers of points for line sampling

VARIABLES mesh, subs, nv, fld, act, obs
vars == <<mesh, subs, nv, fld, act, obs>>

(* ---- small helpers ------------------------------------------------------------------ *)
MinOf(K)   == CHOOSE k \in K : \A j \in K : k <= j
RECURSIVE SeqProd(_)
SeqProd(ss) == IF ss = <<>> THEN {<<>>}
               ELSE {<<x>> \o r : x \in Head(ss), r \in SeqProd(Tail(ss))}
Rej(must)  == [ok |-> FALSE, must |-> must]
OkArr(a, x) == [ok |-> TRUE, arr |-> a, extra |-> x]

Affine(a, b, p) == [c \in DOMAIN b |-> b[c] + SumSeq([d \in DOMAIN p |-> a[c][d] * p[d]])]

(* ---- value items (used per subregion and as default in dictionaries) ------------------ *)
NoneI       == [k |-> "none",  v |-> <<>>, a |-> <<>>, b |-> <<>>]
ConstI(v)   == [k |-> "const", v |-> v,    a |-> <<>>, b |-> <<>>]
FuncI(a, b) == [k |-> "func",  v |-> <<>>, a |-> a,    b |-> b]
ItemNV(it)  == IF it.k = "const" THEN Len(it.v) ELSE Len(it.b)
ItemAt(it, p) == IF it.k = "const" THEN it.v ELSE Affine(it.a, it.b, p)

(* ---- the constructive evaluation of a specification (what _as_array builds) ---------- *)
(* whole cell i of mesh m lies inside box b (boxes are aligned with the mesh)            *)
CellInBox(m, i, b) == \A d \in Dims(m) : b.lo[d] <= FaceAx(m, d, i[d]) /\ FaceAx(m, d, i[d] + 1) <= b.hi[d]

FirstSub(m, S, sp, i) ==
   LET K == {k \in DOMAIN S : sp.items[k].k # "none" /\ CentreInBox(m, i, S[k])}
   IN IF K = {} THEN 0 ELSE MinOf(K)
DictCellDefined(m, S, sp, i) == FirstSub(m, S, sp, i) # 0 \/ sp.def.k # "none"
DictCell(m, S, sp, i) ==
   LET k == FirstSub(m, S, sp, i)
   IN IF k # 0 THEN ItemAt(sp.items[k], Centre(m, i)) ELSE ItemAt(sp.def, Centre(m, i))
DictItemsOK(sp, nvv) == /\ \A k \in DOMAIN sp.items : sp.items[k].k = "none" \/ ItemNV(sp.items[k]) = nvv
                        /\ sp.def.k = "none" \/ ItemNV(sp.def) = nvv

SrcContains(src, m) == \A d \in Dims(m) : src.lo[d] <= m.lo[d] /\ Hi(m, d) <= Hi(src, d)
(* source cells whose closed box contains p: both neighbours on a face                  *)
AltIdx(src, p) == SeqProd([d \in Dims(src) |-> P2IAxAlt(src, d, p[d])])
SrcVal(sp, j)  == Affine(sp.a, sp.b, Centre(sp.src, j))

EvalSpec(m, S, nvv, sp) ==
   CASE sp.k = "const" ->
           IF sp.form = "scalar"
           THEN IF nvv = 1 \/ sp.v[1] = 0 THEN OkArr(ConstArr(m.n, [c \in 1 .. nvv |-> sp.v[1]]), {}) ELSE Rej(TRUE)
           ELSE IF Len(sp.v) = nvv THEN OkArr(ConstArr(m.n, sp.v), {}) ELSE Rej(TRUE)
     [] sp.k = "func" ->
           IF Len(sp.b) = nvv THEN OkArr(MkArr(m.n, LAMBDA i : Affine(sp.a, sp.b, Centre(m, i))), {}) ELSE Rej(TRUE)
     [] sp.k = "array" ->
           IF sp.shape = m.n \o <<nvv>> \/ (nvv = 1 /\ sp.shape = m.n) THEN OkArr(sp.arr, {}) ELSE Rej(TRUE)
     [] sp.k = "dict" ->
           IF ~DictItemsOK(sp, nvv) THEN Rej(TRUE)
           ELSE IF \E q \in 1 .. NCells(m) : ~DictCellDefined(m, S, sp, Unflat(m.n, q - 1)) THEN Rej(FALSE)
           ELSE OkArr(MkArr(m.n, LAMBDA i : DictCell(m, S, sp, i)), {})
     [] sp.k = "field" ->
           IF Len(sp.b) # nvv THEN Rej(TRUE)
           ELSE IF ~SrcContains(sp.src, m) THEN Rej(FALSE)
           ELSE OkArr(MkArr(m.n, LAMBDA i : SrcVal(sp, P2I(sp.src, Centre(m, i)))),
                      UNION {{<<q, SrcVal(sp, j)>> :
                                  j \in AltIdx(sp.src, Centre(m, Unflat(m.n, q - 1)))
                                        \ {P2I(sp.src, Centre(m, Unflat(m.n, q - 1)))}}
                             : q \in 1 .. NCells(m)})
     [] sp.k = "type" -> Rej(TRUE)

(* ---- the property for one cell, stated declaratively ---------------------------------- *)
Claims(m, S, sp, i, k) == sp.items[k].k # "none" /\ CellInBox(m, i, S[k])
CellOK(m, S, nvv, sp, i, v) ==
   /\ Len(v) = nvv
   /\ CASE sp.k = "const" -> \A c \in 1 .. nvv : v[c] = IF sp.form = "scalar" THEN sp.v[1] ELSE sp.v[c]
        [] sp.k = "func"  -> \A c \in 1 .. nvv : v[c] = sp.b[c] + SumSeq([d \in Dims(m) |-> sp.a[c][d] * CentreAx(m, d, i[d])])
        [] sp.k = "array" -> v = sp.arr[Flat(m.n, i) + 1]
        [] sp.k = "dict"  ->
              (* the first-listed subregion containing the cell wins, then the default *)
              /\ \A k \in DOMAIN S :
                    (Claims(m, S, sp, i, k) /\ \A j \in 1 .. (k - 1) : ~Claims(m, S, sp, i, j))
                       => v = ItemAt(sp.items[k], Centre(m, i))
              /\ (\A k \in DOMAIN S : ~Claims(m, S, sp, i, k)) => (sp.def.k # "none" /\ v = ItemAt(sp.def, Centre(m, i)))
        [] sp.k = "field" ->
              (* the value of a source cell (closed box) containing the centre *)
              \E j \in AltIdx(sp.src, Centre(m, i)) :
                  /\ \A d \in Dims(m) : InClosedCellAx(sp.src, d, j[d], CentreAx(m, d, i[d]))
                  /\ v = SrcVal(sp, j)
        [] OTHER -> FALSE
ArrayOK(m, S, nvv, sp, a) == /\ Len(a) = NCells(m)
                             /\ \A q \in 1 .. NCells(m) : CellOK(m, S, nvv, sp, Unflat(m.n, q - 1), a[q])

(* ---- sampling --------------------------------------------------------------------------- *)
ProbeAx(m, d)  == {FaceAx(m, d, j) : j \in 0 .. m.n[d]} \cup {CentreAx(m, d, j) - m.c[d] \div 4 : j \in 0 .. (m.n[d] - 1)}
ProbePts(m)    == SeqProd([d \in Dims(m) |-> ProbeAx(m, d)])
CallResult(m, a, p) == [v   |-> At(m.n, a, P2I(m, p)),
                        alt |-> {At(m.n, a, i) : i \in AltIdx(m, p)}]

(* line sampling: point j (1..k) has numerators pts[j] over the common denominator k-1  *)
EndPt(m, e) == [d \in Dims(m) |->
   CASE e = "lo"  -> m.lo[d]
     [] e = "hi"  -> Hi(m, d)
     [] e = "c0"  -> CentreAx(m, d, 0)
     [] e = "cl"  -> CentreAx(m, d, m.n[d] - 1)
     [] e = "q0"  -> m.lo[d] + m.c[d] \div 4
     [] e = "q3"  -> Hi(m, d) - m.c[d] \div 4
     [] e = "hi1" -> IF d = 1 THEN Hi(m, d) ELSE m.lo[d]
     [] e = "fm"  -> FaceAx(m, d, m.n[d] \div 2)]
LinePairs == {<<"lo", "hi">>, <<"hi", "lo">>, <<"c0", "cl">>, <<"q0", "q3">>,
              <<"lo", "hi1">>, <<"q3", "c0">>, <<"fm", "hi">>, <<"c0", "c0">>}
LinePt(p1, p2, k, j) == [d \in DOMAIN p1 |-> p1[d] * (k - 1) + (j - 1) * (p2[d] - p1[d])]
P2IAxQ(m, d, num, den)  == Clip((num - m.lo[d] * den) \div (m.c[d] * den), 0, m.n[d] - 1)
OnFaceQ(m, d, num, den) == /\ (num - m.lo[d] * den) % (m.c[d] * den) = 0
                           /\ m.lo[d] * den < num /\ num < Hi(m, d) * den
AltAxQ(m, d, num, den)  == IF OnFaceQ(m, d, num, den) THEN {P2IAxQ(m, d, num, den) - 1, P2IAxQ(m, d, num, den)}
                           ELSE {P2IAxQ(m, d, num, den)}
LineResult(m, a, p1, p2, k) ==
   LET den == k - 1
       pt(j) == LinePt(p1, p2, k, j)
   IN [k    |-> k, den |-> den, p1 |-> p1, p2 |-> p2,
       pts  |-> [j \in 1 .. k |-> pt(j)],
       vals |-> [j \in 1 .. k |-> At(m.n, a, [d \in Dims(m) |-> P2IAxQ(m, d, pt(j)[d], den)])],
       alts |-> [j \in 1 .. k |-> {At(m.n, a, i) : i \in SeqProd([d \in Dims(m) |-> AltAxQ(m, d, pt(j)[d], den)])}],
       d2   |-> [j \in 1 .. k |-> SumSeq([d \in Dims(m) |-> (pt(j)[d] - pt(1)[d]) * (pt(j)[d] - pt(1)[d])])]]

(* ---- families of specifications explored by the model ------------------------------------ *)
W4 == <<1, 7, 53, 379>>
FA_a(nd, nvv)   == [c \in 1 .. nvv |-> [d \in 1 .. nd |-> W4[d]]]
FA_b(nvv, off)  == [c \in 1 .. nvv |-> 1000 * c + off]
FB_a(nd, nvv)   == [c \in 1 .. nvv |-> [d \in 1 .. nd |-> IF (c + d) % 2 = 0 THEN 3 ELSE -5]]
FB_b(nvv)       == [c \in 1 .. nvv |-> -c]
CVec(nvv, t)    == [c \in 1 .. nvv |-> 10 * t + c]

ConstSpec(v)    == [k |-> "const", form |-> "vector", v |-> v]
ScalarSpec(x)   == [k |-> "const", form |-> "scalar", v |-> <<x>>]
FuncSpec(a, b)  == [k |-> "func", a |-> a, b |-> b]
ArraySpec(shape, sq, arr) == [k |-> "array", shape |-> shape, sq |-> sq, arr |-> arr]
DictSpec(pat, dk, items, def) == [k |-> "dict", pat |-> pat, dk |-> dk, items |-> items, def |-> def]
FieldSpec(kind, src, a, b) == [k |-> "field", kind |-> kind, src |-> src, a |-> a, b |-> b]
TypeSpec(t)     == [k |-> "type", t |-> t]

ArrA(m, nvv) == [q \in 1 .. NCells(m) |-> [c \in 1 .. nvv |-> 100 * q + c]]
ArrB(m, nvv) == [q \in 1 .. NCells(m) |-> [c \in 1 .. nvv |-> 7 * (NCells(m) + 1 - q) + 1000 * c]]

ConstSpecs(nvv) == {ConstSpec(CVec(nvv, 1)), ConstSpec(CVec(nvv, -3)), ScalarSpec(0)}
                   \cup (IF nvv = 1 THEN {ScalarSpec(7)} ELSE {})
FuncSpecs(m, nvv) == {FuncSpec(FA_a(ND(m), nvv), FA_b(nvv, 0)), FuncSpec(FB_a(ND(m), nvv), FB_b(nvv))}
ArraySpecs(m, nvv) == {ArraySpec(m.n \o <<nvv>>, FALSE, ArrA(m, nvv)), ArraySpec(m.n \o <<nvv>>, FALSE, ArrB(m, nvv))}
                      \cup (IF nvv = 1 THEN {ArraySpec(m.n, TRUE, ArrB(m, 1))} ELSE {})

(* source meshes for field-valued specifications, relative to the target mesh            *)
SrcMesh(m, kd) ==
   CASE kd = "same"    -> m
     [] kd = "coarser" -> [lo |-> m.lo, c |-> [d \in Dims(m) |-> 2 * m.c[d]], n |-> [d \in Dims(m) |-> (m.n[d] + 1) \div 2]]
     [] kd = "finer"   -> [lo |-> m.lo, c |-> [d \in Dims(m) |-> m.c[d] \div 2], n |-> [d \in Dims(m) |-> 2 * m.n[d]]]
     [] kd = "finer3"  -> [lo |-> m.lo, c |-> [d \in Dims(m) |-> IF d = 1 THEN m.c[d] \div 3 ELSE m.c[d]],
                           n  |-> [d \in Dims(m) |-> IF d = 1 THEN 3 * m.n[d] ELSE m.n[d]]]
     [] kd = "shifted" -> [lo |-> [d \in Dims(m) |-> m.lo[d] - m.c[d] \div 2], c |-> m.c, n |-> [d \in Dims(m) |-> m.n[d] + 1]]
     [] kd = "shiftq"  -> [lo |-> [d \in Dims(m) |-> m.lo[d] - m.c[d] \div 4], c |-> m.c, n |-> [d \in Dims(m) |-> m.n[d] + 1]]
     [] kd = "larger"  -> [lo |-> [d \in Dims(m) |-> m.lo[d] - m.c[d]], c |-> m.c, n |-> [d \in Dims(m) |-> m.n[d] + 2]]
     [] kd = "one"     -> [lo |-> m.lo, c |-> [d \in Dims(m) |-> Edge(m, d)], n |-> [d \in Dims(m) |-> 1]]
     [] kd = "mixed"   -> [lo |-> [d \in Dims(m) |-> IF d = 1 THEN m.lo[d] ELSE m.lo[d] - m.c[d] \div 2],
                           c  |-> [d \in Dims(m) |-> IF d = 1 THEN 2 * m.c[d] ELSE m.c[d]],
                           n  |-> [d \in Dims(m) |-> IF d = 1 THEN (m.n[d] + 1) \div 2 ELSE m.n[d] + 1]]
     [] kd = "smaller" -> [lo |-> [d \in Dims(m) |-> IF d = 1 THEN m.lo[d] + m.c[d] ELSE m.lo[d]], c |-> m.c,
                           n  |-> [d \in Dims(m) |-> IF d = 1 THEN m.n[d] - 1 ELSE m.n[d]]]
SrcKindOK(m, kd) == CASE kd = "finer3"  -> m.c[1] % 12 = 0
                      [] kd = "smaller" -> m.n[1] >= 2
                      [] OTHER -> TRUE
FieldSpecs(m, nvv) == {FieldSpec(kd, SrcMesh(m, kd), FA_a(ND(m), nvv), FA_b(nvv, 0)) : kd \in {x \in FieldKinds : SrcKindOK(m, x)}}

(* dictionary specifications: an item pattern over the subregion list and a default kind *)
PatItem(m, nvv, pat, k, L) ==
   CASE pat = "allconst" -> ConstI(CVec(nvv, k))
     [] pat = "allfunc"  -> FuncI(FA_a(ND(m), nvv), FA_b(nvv, 100000 * k))
     [] pat = "skip1"    -> IF k = 1 THEN NoneI ELSE ConstI(CVec(nvv, k))
     [] pat = "mix"      -> IF k = L /\ L = 3 THEN NoneI
                            ELSE IF k % 2 = 1 THEN FuncI(FB_a(ND(m), nvv), FB_b(nvv)) ELSE ConstI(CVec(nvv, k))
     [] pat = "onlylast" -> IF k = L THEN ConstI(CVec(nvv, k)) ELSE NoneI
DefItem(m, nvv, dk) ==
   CASE dk = "none"  -> NoneI
     [] dk = "const" -> ConstI(CVec(nvv, 9))
     [] dk = "func"  -> FuncI(FB_a(ND(m), nvv), [c \in 1 .. nvv |-> 50000 + c])
DictSpecs(m, S, nvv) == {DictSpec(pat, dk, [k \in DOMAIN S |-> PatItem(m, nvv, pat, k, Len(S))], DefItem(m, nvv, dk))
                            : pat \in DictPats, dk \in {"none", "const", "func"}}

(* subregion boxes by name, in cell indices [from, to) per axis, then as lattice boxes   *)
NamedRange(m, d, name) ==
   CASE name = "all"     -> <<0, m.n[d]>>
     [] name = "lowhalf" -> <<0, (m.n[d] + 1) \div 2>>
     [] name = "highhalf"-> <<m.n[d] \div 2, m.n[d]>>
     [] name = "first"   -> <<0, 1>>
     [] name = "last"    -> <<m.n[d] - 1, m.n[d]>>
     [] name = "slab1lo" -> IF d = 1 THEN <<0, (m.n[d] + 1) \div 2>> ELSE <<0, m.n[d]>>
     [] name = "slab1hi" -> IF d = 1 THEN <<m.n[d] \div 2, m.n[d]>> ELSE <<0, m.n[d]>>
     [] name = "slabLlo" -> IF d = ND(m) THEN <<0, (m.n[d] + 1) \div 2>> ELSE <<0, m.n[d]>>
     [] name = "inner"   -> IF m.n[d] >= 3 THEN <<1, m.n[d] - 1>> ELSE <<0, m.n[d]>>
NamedBox(m, name) == [lo |-> [d \in Dims(m) |-> FaceAx(m, d, NamedRange(m, d, name)[1])],
                      hi |-> [d \in Dims(m) |-> FaceAx(m, d, NamedRange(m, d, name)[2])]]
LayoutBoxes(m, L) == [k \in DOMAIN L |-> NamedBox(m, L[k])]

MakeSpecs(m, S, nvv) ==
   IF S = <<>>
   THEN ConstSpecs(nvv) \cup FuncSpecs(m, nvv) \cup ArraySpecs(m, nvv) \cup FieldSpecs(m, nvv) \cup DictSpecs(m, S, nvv)
   ELSE DictSpecs(m, S, nvv)

(* specifications that must be (or, must = FALSE, may be) rejected                        *)
(* a wrong component count; for nvdim = 1 a vector as long as a 1-D (sub)mesh would be read as a  *)
(* per-cell array by the library, so the wrong length is chosen larger than any cell count     *)
BadLen(m, nvv) == IF nvv = 1 THEN NCells(m) + 1 ELSE nvv + 1
BadSpecs(m, S, nvv) ==
   IF S = <<>>
   THEN {ConstSpec(CVec(BadLen(m, nvv), 2)),
         ArraySpec([m.n EXCEPT ![1] = @ + 1] \o <<nvv>>, FALSE, <<>>),
         ArraySpec(m.n \o <<nvv + 1>>, FALSE, <<>>),
         FuncSpec(FA_a(ND(m), nvv + 1), FA_b(nvv + 1, 0)),
         TypeSpec("str"), TypeSpec("none"), TypeSpec("object"),
         FieldSpec("same", m, FA_a(ND(m), nvv + 1), FA_b(nvv + 1, 0)),
         DictSpec("empty", "none", <<>>, NoneI),
         DictSpec("baddef", "const", <<>>, ConstI(CVec(BadLen(m, nvv), 9)))}
        \cup (IF nvv > 1 THEN {ScalarSpec(7), ConstSpec(CVec(nvv - 1, 2)),
                                (* a plain number as default of a field with several components (accepted and broadcast until the fix of the dictionary default) *)
                                DictSpec("baddef1", "const", <<>>, ConstI(<<9>>)),
                                FuncSpec(FA_a(ND(m), nvv - 1), FA_b(nvv - 1, 0)),
                                ArraySpec(m.n \o <<nvv - 1>>, FALSE, <<>>)} ELSE {})
        \cup (IF m.n[1] >= 2 THEN {FieldSpec("smaller", SrcMesh(m, "smaller"), FA_a(ND(m), nvv), FA_b(nvv, 0))} ELSE {})
   ELSE {DictSpec("badcomp", "const", [k \in DOMAIN S |-> IF k = 1 THEN ConstI(CVec(BadLen(m, nvv), 1)) ELSE ConstI(CVec(nvv, k))],
                  ConstI(CVec(nvv, 9))),
         DictSpec("badfunc", "const", [k \in DOMAIN S |-> IF k = Len(S) THEN FuncI(FA_a(ND(m), nvv + 1), FA_b(nvv + 1, 0)) ELSE ConstI(CVec(nvv, k))],
                  ConstI(CVec(nvv, 9))),
         DictSpec("onlylast", "none", [k \in DOMAIN S |-> PatItem(m, nvv, "onlylast", k, Len(S))], NoneI),
         ConstSpec(CVec(BadLen(m, nvv), 2)), TypeSpec("str")}
        \cup (IF nvv > 1 THEN {DictSpec("badcomp1", "const", [k \in DOMAIN S |-> IF k = 1 THEN ConstI(<<9>>) ELSE ConstI(CVec(nvv, k))], ConstI(CVec(nvv, 9))),
                                DictSpec("baddef1", "const", [k \in DOMAIN S |-> IF k = 1 THEN ConstI(CVec(nvv, k)) ELSE NoneI], ConstI(<<9>>))} ELSE {})
UpdSpecs(m, S, nvv) ==
   IF S = <<>>
   THEN {FuncSpec(FA_a(ND(m), nvv), FA_b(nvv, 0)), ArraySpec(m.n \o <<nvv>>, FALSE, ArrA(m, nvv)),
         ConstSpec(CVec(nvv, 4)), ScalarSpec(0),
         FieldSpec("coarser", SrcMesh(m, "coarser"), FA_a(ND(m), nvv), FA_b(nvv, 0)),
         DictSpec("allconst", "func", <<>>, DefItem(m, nvv, "func"))}
   ELSE {DictSpec("allfunc", "const", [k \in DOMAIN S |-> PatItem(m, nvv, "allfunc", k, Len(S))], DefItem(m, nvv, "const")),
         ConstSpec(CVec(nvv, 4))}

(* ---- actions ------------------------------------------------------------------------------ *)
Zero(m, nvv) == ConstArr(m.n, [c \in 1 .. nvv |-> 0])

Init == /\ mesh \in MeshSet
        /\ nv \in NVSet
        /\ subs \in {LayoutBoxes(mesh, L) : L \in LayoutSet}
        /\ fld = Zero(mesh, nv)                     \* Field(mesh, nvdim=nv): value defaults to 0
        /\ act = <<"new">>
        /\ obs = OkArr(Zero(mesh, nv), {})

(* Field(mesh, nvdim, value=spec) *)
Make == /\ act[1] = "new"
        /\ \E sp \in MakeSpecs(mesh, subs, nv) :
             LET r == EvalSpec(mesh, subs, nv, sp)
             IN /\ act' = <<"make", sp>>
                /\ obs' = r
                /\ fld' = IF r.ok THEN r.arr ELSE fld
        /\ UNCHANGED <<mesh, subs, nv>>

MadeOK      == act[1] = "make" /\ obs.ok
QueryBase   == MadeOK /\ act[2].k = "array" /\ ~act[2].sq
UpdateBase  == MadeOK /\ ((act[2].k = "const" /\ act[2].form = "vector")
                          \/ (act[2].k = "dict" /\ act[2].pat = "allconst" /\ act[2].dk = "const"))
BadBase     == MadeOK /\ ((act[2].k = "array" /\ ~act[2].sq)
                          \/ (act[2].k = "dict" /\ act[2].pat = "allconst" /\ act[2].dk = "const"))

(* field.update_field_values(spec) / field.array = spec on an existing field *)
Update == /\ UpdateBase
          /\ \E sp \in UpdSpecs(mesh, subs, nv) :
               LET r == EvalSpec(mesh, subs, nv, sp)
               IN /\ act' = <<"update", sp, act[2]>>
                  /\ obs' = r
                  /\ fld' = IF r.ok THEN r.arr ELSE fld
          /\ UNCHANGED <<mesh, subs, nv>>
UpdateBad == /\ BadBase
             /\ \E sp \in {s \in BadSpecs(mesh, subs, nv) : ~EvalSpec(mesh, subs, nv, s).ok} :
                  LET r == EvalSpec(mesh, subs, nv, sp)
                  IN /\ act' = <<"bad", sp, act[2]>>
                     /\ obs' = r
                     /\ fld' = IF r.ok THEN r.arr ELSE fld
             /\ UNCHANGED <<mesh, subs, nv>>

(* field(p) for every probe point: faces and quarter points on every axis *)
QCall == /\ QueryBase
         /\ act' = <<"call">>
         /\ obs' = [p \in ProbePts(mesh) |-> CallResult(mesh, fld, p)]
         /\ UNCHANGED <<mesh, subs, nv, fld>>
(* field.<label> for every component *)
QComponents == /\ QueryBase
               /\ act' = <<"components">>
               /\ obs' = [c \in 1 .. nv |-> Component(fld, c)]
               /\ UNCHANGED <<mesh, subs, nv, fld>>
(* list(field), zip(field.mesh, field) *)
QIterate == /\ QueryBase
            /\ act' = <<"iterate">>
            /\ obs' = [q \in 1 .. NCells(mesh) |-> [idx |-> Unflat(mesh.n, q - 1), pt |-> Centre(mesh, Unflat(mesh.n, q - 1)), v |-> fld[q]]]
            /\ UNCHANGED <<mesh, subs, nv, fld>>
(* field.line(p1, p2, n=k) *)
QLines == /\ QueryBase
          /\ \E k \in LineKs :
               /\ act' = <<"lines", k>>
               /\ obs' = [pr \in LinePairs |-> LineResult(mesh, fld, EndPt(mesh, pr[1]), EndPt(mesh, pr[2]), k)]
          /\ UNCHANGED <<mesh, subs, nv, fld>>

Next == Make \/ Update \/ UpdateBad \/ QCall \/ QComponents \/ QIterate \/ QLines
Spec == Init /\ [][Next]_vars

(* ---- the property, clause by clause ---------------------------------------------------------- *)
TypeOK == /\ MeshOK(mesh) /\ nv >= 1
          /\ \A k \in DOMAIN subs : BoxOK(subs[k]) /\ BoxInMesh(subs[k], mesh) /\ BoxAligned(subs[k], mesh)

(* the array has shape n x nvdim *)
C02_Shape == Len(fld) = NCells(mesh) /\ \A q \in DOMAIN fld : Len(fld[q]) = nv

(* every stored cell value is what the specification assigns at the cell's centre *)
C02_CellwiseSpec ==
   (act[1] \in {"make", "update"} /\ obs.ok) =>
      /\ fld = obs.arr
      /\ ArrayOK(mesh, subs, nv, act[2], fld)
      /\ \A x \in obs.extra : CellOK(mesh, subs, nv, act[2], Unflat(mesh.n, x[1] - 1), x[2])
(* dictionaries: first listed wins, then the default; stated on the cells of each subregion *)
C02_FirstListedWins ==
   (act[1] \in {"make", "update"} /\ obs.ok /\ act[2].k = "dict") =>
      \A q \in 1 .. NCells(mesh) :
         LET i == Unflat(mesh.n, q - 1)
             K == {k \in DOMAIN subs : act[2].items[k].k # "none" /\ CellInBox(mesh, i, subs[k])}
         IN IF K = {} THEN fld[q] = ItemAt(act[2].def, Centre(mesh, i))
            ELSE fld[q] = ItemAt(act[2].items[MinOf(K)], Centre(mesh, i))
(* a specification that leaves some cell without value cannot produce a field *)
C02_UndefinedRejected ==
   (act[1] \in {"make", "update", "bad"} /\ act[2].k = "dict" /\ DictItemsOK(act[2], nv)) =>
      (obs.ok <=> \A q \in 1 .. NCells(mesh) :
                     LET i == Unflat(mesh.n, q - 1)
                     IN act[2].def.k # "none" \/ \E k \in DOMAIN subs : Claims(mesh, subs, act[2], i, k))
(* sampling returns the stored value of the cell containing the point *)
C02_SampleIsCell ==
   act[1] = "call" =>
      \A p \in DOMAIN obs :
         /\ \E i \in Indices(mesh) : /\ \A d \in Dims(mesh) : InOwnCellAx(mesh, d, i[d], p[d])
                                     /\ obs[p].v = At(mesh.n, fld, i)
         /\ obs[p].v \in obs[p].alt
         /\ \A w \in obs[p].alt : \E i \in Indices(mesh) : /\ \A d \in Dims(mesh) : InClosedCellAx(mesh, d, i[d], p[d])
                                                           /\ w = At(mesh.n, fld, i)
(* component access returns the matching column *)
C02_ComponentColumn ==
   act[1] = "components" =>
      \A c \in 1 .. nv : /\ Len(obs[c]) = NCells(mesh)
                         /\ \A q \in DOMAIN fld : obs[c][q] = <<fld[q][c]>>
(* iteration yields the cells in mesh order *)
C02_IterOrder ==
   act[1] = "iterate" =>
      /\ Len(obs) = NCells(mesh)
      /\ \A q \in DOMAIN obs : /\ Flat(mesh.n, obs[q].idx) = q - 1
                               /\ obs[q].v = At(mesh.n, fld, obs[q].idx)
                               /\ P2I(mesh, obs[q].pt) = obs[q].idx
(* k equidistant points from p1 to p2 inclusive, with their distance from p1 *)
C02_LineEndpointsInclusive ==
   act[1] = "lines" =>
      \A pr \in DOMAIN obs :
         LET r == obs[pr] IN
         /\ r.k = act[2] /\ Len(r.pts) = r.k /\ Len(r.vals) = r.k /\ Len(r.d2) = r.k
         /\ r.pts[1] = [d \in Dims(mesh) |-> r.p1[d] * r.den]
         /\ r.pts[r.k] = [d \in Dims(mesh) |-> r.p2[d] * r.den]
         /\ \A j \in 1 .. (r.k - 1) : \A d \in Dims(mesh) : r.pts[j + 1][d] - r.pts[j][d] = r.p2[d] - r.p1[d]
         /\ \A j \in 1 .. r.k : r.d2[j] = (j - 1) * (j - 1) * SumSeq([d \in Dims(mesh) |-> (r.p2[d] - r.p1[d]) * (r.p2[d] - r.p1[d])])
(* ... and the values at those points *)
C02_LineValues ==
   act[1] = "lines" =>
      \A pr \in DOMAIN obs :
         LET r == obs[pr] IN
         \A j \in 1 .. r.k :
            /\ r.vals[j] \in r.alts[j]
            /\ \E i \in Indices(mesh) :
                  /\ r.vals[j] = At(mesh.n, fld, i)
                  /\ \A d \in Dims(mesh) :   \* lower-inclusive cell in exact rationals
                        /\ FaceAx(mesh, d, i[d]) * r.den <= r.pts[j][d]
                        /\ (r.pts[j][d] < FaceAx(mesh, d, i[d] + 1) * r.den
                            \/ (i[d] = mesh.n[d] - 1 /\ r.pts[j][d] = FaceAx(mesh, d, i[d] + 1) * r.den))
            /\ \A w \in r.alts[j] : \E i \in Indices(mesh) :
                  /\ w = At(mesh.n, fld, i)
                  /\ \A d \in Dims(mesh) : /\ FaceAx(mesh, d, i[d]) * r.den <= r.pts[j][d]
                                           /\ r.pts[j][d] <= FaceAx(mesh, d, i[d] + 1) * r.den
(* a specification of the wrong shape, component count or type is rejected; WrongSpec   *)
(* states "wrong" without reference to EvalSpec                                          *)
WrongSpec(m, nvv, sp) ==
   CASE sp.k = "const" -> IF sp.form = "scalar" THEN nvv > 1 /\ sp.v[1] # 0 ELSE Len(sp.v) # nvv
     [] sp.k = "func"  -> Len(sp.b) # nvv
     [] sp.k = "array" -> ~(sp.shape = m.n \o <<nvv>> \/ (nvv = 1 /\ sp.shape = m.n))
     [] sp.k = "dict"  -> \/ \E k \in DOMAIN sp.items : sp.items[k].k # "none" /\ ItemNV(sp.items[k]) # nvv
                          \/ sp.def.k # "none" /\ ItemNV(sp.def) # nvv
     [] sp.k = "field" -> Len(sp.b) # nvv
     [] sp.k = "type"  -> TRUE
C02_BadRejected ==
   act[1] \in {"make", "update", "bad"} =>
      /\ WrongSpec(mesh, nv, act[2]) => (~obs.ok /\ obs.must)
      /\ (~obs.ok /\ obs.must) => WrongSpec(mesh, nv, act[2])
      /\ act[1] = "bad" => ~obs.ok
(* a rejected specification leaves the existing field unchanged (action property) *)
C02_RejectLeavesUnchanged == [][(act'[1] \in {"make", "update", "bad"} /\ ~obs'.ok) => fld' = fld]_vars
=============================================================================
