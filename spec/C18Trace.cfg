SPECIFICATION TSpec
CONSTANTS
  Configs = {}
  Gens = {}
  TNSet = {}
  PostGens = {}
  Gens3 = {}
  MaxDepth = 1
  MaxD = 1
CHECK_DEADLOCK FALSE
