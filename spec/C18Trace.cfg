SPECIFICATION TSpec
CONSTANTS
  Configs = {}
  Gens = {}
  TNSet = {}
  PostGens = {}
  MaxDepth = 1
  MaxD = 1
CHECK_DEADLOCK FALSE
