-------------------------------- MODULE C11 --------------------------------
(* C11 - field FFTs are the discrete Fourier transform at the k-mesh's frequencies.    *)
(*                                                                                     *)
(* Everything is integer.  Along an axis with n cells of size c the unit of k is       *)
(* 1/(n*c); k-coordinates are kept in HALF units (so that the code's single-cell       *)
(* k-cell, centred at 1/(2c), is still representable in recorded traces).  A complex  *)
(* value is a Gaussian integer <<re, im>>.  A spectrum value is never a float: it is   *)
(* a finite sum  SUM coef * w^t  with  w = exp(-2 pi i / L),  L = lcm of the cell      *)
(* counts, recorded as the set of <<t, re, im>> with non-zero coefficient (for a delta *)
(* input a single root of unity w^t).  The harness turns these into complex numbers.   *)
(*                                                                                     *)
(* Part 1 transcribes what Mesh.fftn / Mesh.ifftn / Field.fftn / ifftn / rfftn /       *)
(* irfftn do (frequency lists, half-spacing margins, fftshift / ifftshift index        *)
(* bookkeeping, label renaming); part 2 states the property in its own words           *)
(* (centres = shifted DFT sample frequencies, value = sum v*exp(-2 pi i k.r) with k    *)
(* the k-cell centre, ...) and TLC checks part 1 against part 2 for every              *)
(* configuration in the bounds.                                                        *)
EXTENDS Cells, TLC

CONSTANTS MaxN,     \* <<max n in 1-D, 2-D, 3-D, 4-D>>
          MaxCells, \* bound on the number of cells of a mesh
          CProf,    \* cell-size profiles (4-sequences of pairwise different positive integers)
          LoProf,   \* lower-corner profiles
          NVs,      \* numbers of components
          Pats,     \* ids of value patterns
          Coefs     \* pairs <<a, b>> of integers for linear combinations

VARIABLES mesh, nv, vmap, pat, act, obs
vars == <<mesh, nv, vmap, pat, act, obs>>

(* ---- helpers ------------------------------------------------------------------------ *)
Prefix(s, k) == [d \in 1 .. k |-> s[d]]
Half(n)      == n \div 2
MinOf(s)     == CHOOSE x \in {s[i] : i \in DOMAIN s} : \A j \in DOMAIN s : x <= s[j]
MaxOf(s)     == CHOOSE x \in {s[i] : i \in DOMAIN s} : \A j \in DOMAIN s : s[j] <= x
LCM2(a, b)   == (a * b) \div GCD(a, b)
RECURSIVE LCMSeq(_)
LCMSeq(s)    == IF Len(s) = 0 THEN 1 ELSE LCM2(Head(s), LCMSeq(Tail(s)))
RECURSIVE SumRange(_, _, _)
SumRange(s, lo, hi) == IF lo > hi THEN 0 ELSE IF lo = hi THEN s[lo]
                       ELSE SumRange(s, lo, (lo + hi) \div 2) + SumRange(s, (lo + hi) \div 2 + 1, hi)
Sum(s)       == SumRange(s, 1, Len(s))
Last(s)      == s[Len(s)]
IsLast(m, d) == d = Len(m.n)
(* Gaussian integers *)
GZero        == <<0, 0>>
GAdd(x, y)   == <<x[1] + y[1], x[2] + y[2]>>
GScale(a, x) == <<a * x[1], a * x[2]>>

(* ---- value patterns ------------------------------------------------------------------ *)
PatVal(p, k, c)   == ((3 * k * k + (5 + 2 * p) * k + 7 * c + 4 * p) % 13) - 6
(* complex (Gaussian-integer) and real fields; entry k, component c *)
PatC(n, nvv, p)   == [k \in 1 .. ProdSeq(n) |-> [c \in 1 .. nvv |-> <<PatVal(p, k, c), PatVal(p + 2, k + 1, c)>>]]
PatR(n, nvv, p)   == [k \in 1 .. ProdSeq(n) |-> [c \in 1 .. nvv |-> <<PatVal(p, k, c), 0>>]]
Delta(n, nvv, r, c0) == [k \in 1 .. ProdSeq(n) |-> [c \in 1 .. nvv |->
                            IF k = Flat(n, r) + 1 /\ c = c0 THEN <<1, 0>> ELSE GZero]]
LinArr(a, f, b, g) == [k \in DOMAIN f |-> [c \in DOMAIN f[k] |-> GAdd(GScale(a, f[k][c]), GScale(b, g[k][c]))]]

(* ==== part 1: what the code does ======================================================= *)
(* scipy.fft.fftfreq(n, c) * n * c and rfftfreq: sample frequencies in FFT output order *)
FFTFreq(n, m)     == IF m < n - Half(n) THEN m ELSE m - n
FreqSeq(n, real)  == IF real THEN [m \in 1 .. (Half(n) + 1) |-> m - 1] ELSE [m \in 1 .. n |-> FFTFreq(n, m - 1)]
(* one axis of Mesh.fftn: n cells from min(freqs) - spacing/2 to max(freqs) + spacing/2, *)
(* in half units.  A single-cell axis holds the DFT frequency 0 (what the property       *)
(* demands; the code puts that cell at [0, 1/c], see notes/C11.md, D11)                   *)
KAxis(n, real)    == IF n = 1 THEN [n |-> 1, lo2 |-> -1, hi2 |-> 1]
                     ELSE LET f == FreqSeq(n, real) IN [n |-> Len(f), lo2 |-> 2 * MinOf(f) - 1, hi2 |-> 2 * MaxOf(f) + 1]
(* centre of k-cell j (0-based) of an axis, in half units: lo + (j + 1/2) * cell *)
KCen2(ka, j)      == ka.lo2 + ((2 * j + 1) * (ka.hi2 - ka.lo2)) \div (2 * ka.n)
RealAx(m, real, d) == real /\ IsLast(m, d)
KMesh(m, real)    == LET ka == [d \in Dims(m) |-> KAxis(m.n[d], RealAx(m, real, d))]
                     IN [n    |-> [d \in Dims(m) |-> ka[d].n],
                         lo2  |-> [d \in Dims(m) |-> ka[d].lo2],
                         hi2  |-> [d \in Dims(m) |-> ka[d].hi2],
                         cen2 |-> [d \in Dims(m) |-> [j \in 1 .. ka[d].n |-> KCen2(ka[d], j - 1)]]]
(* names: a dimension / unit / label is <<number of prefixes, base id>>; the harness      *)
(* renders <<1, "x">> as k_x, units as (u)$^{-1}$, labels as ft_v                          *)
Pre(x)            == <<x[1] + 1, x[2]>>
UnPre(x)          == IF x[1] > 0 THEN <<x[1] - 1, x[2]>> ELSE x
Dims0(m)          == [d \in Dims(m) |-> <<0, d>>]
Lab0(nvv)         == [c \in 1 .. nvv |-> <<0, c>>]

(* Mesh.ifftn(rfft, shape) applied to a k-mesh km that came from a mesh with counts n0 and *)
(* cell sizes c0 (so that the k-cell size is 1/(n0*c0) on every axis): shape validation,  *)
(* counts = shape, spacing 1/(shape * k-cell), centred at the origin.  Result: counts and *)
(* edge lengths (cell = edge / n, exact rational), corners at -+ edge/2.                  *)
ShapeDefault(km, real) == [d \in DOMAIN km.n |-> IF real /\ d = Len(km.n) /\ km.n[d] # 1 THEN (km.n[d] - 1) * 2 ELSE km.n[d]]
ShapeOK(km, sh)   == /\ Len(sh) = Len(km.n)
                     /\ \A d \in 1 .. (Len(sh) - 1) : sh[d] = km.n[d]
                     /\ Half(Last(sh)) + 1 = Last(km.n)
Rej               == [ok |-> FALSE]
MeshIFFT(km, n0, c0, real, sh) ==
      IF sh # <<>> /\ ~ShapeOK(km, sh) THEN Rej
      ELSE LET s == IF sh = <<>> THEN ShapeDefault(km, real) ELSE sh
           IN [ok |-> TRUE, n |-> s, edge |-> [d \in DOMAIN s |-> n0[d] * c0[d]]]

(* index bookkeeping of the shifts: out[j] = in[Src(j)] *)
ShiftSrc(n, j)    == (j + (n - Half(n))) % n        \* scipy.fft.fftshift
IShiftSrc(n, j)   == (j + Half(n)) % n              \* scipy.fft.ifftshift
(* forward transforms: k-cell j holds FFT output index Src(j); the real transform does not shift its last axis *)
FwdSrc(m, real, j) == [d \in Dims(m) |-> IF RealAx(m, real, d) THEN j[d] ELSE ShiftSrc(m.n[d], j[d])]
BigL(m)           == LCMSeq(m.n)
(* exponent t (w^t, w = exp(-2 pi i/L)) of the FFT output with index q for a delta at cell r *)
Expo(m, L, q, r)  == Sum([d \in Dims(m) |-> ((q[d] * r[d]) % m.n[d]) * (L \div m.n[d])]) % L
(* spectrum of a whole field at one k-cell: per component the sparse sum of coef * w^t.   *)
(* (Top-level operators with parameters on purpose: TLC caches parameter values, it does  *)
(* not cache LET definitions used inside nested constructors.)                             *)
Range(s)          == {s[k] : k \in DOMAIN s}
CoefSum(tt, a, c, t, part) == Sum([k \in DOMAIN tt |-> IF tt[k] = t THEN a[k][c][part] ELSE 0])
TermSet(tt, a, c) == {x \in {<<t, CoefSum(tt, a, c, t, 1), CoefSum(tt, a, c, t, 2)>> : t \in Range(tt)} : x[2] # 0 \/ x[3] # 0}
SpecCell(tt, a)   == [c \in 1 .. NV(a) |-> TermSet(tt, a, c)]
ExpoTab(m, L, q, idx) == [k \in DOMAIN idx |-> Expo(m, L, q, idx[k])]
SpectrumL(m, real, a, kn, L, idx) == MkArr(kn, LAMBDA j : SpecCell(ExpoTab(m, L, FwdSrc(m, real, j), idx), a))
Spectrum(m, real, a) == SpectrumL(m, real, a, KMesh(m, real).n, BigL(m), IterOrder(m.n))
(* Field._fftn: labels and mapping *)
FwdLabels(nvv, hasLab) == IF hasLab THEN [c \in 1 .. nvv |-> Pre(Lab0(nvv)[c])] ELSE <<>>
FwdMap(m, vm)     == [c \in DOMAIN vm |-> Pre(<<0, vm[c]>>)]
FFTRes(m, real, a, hasLab, vm) ==
      [ok |-> TRUE, km |-> KMesh(m, real), dims |-> [d \in Dims(m) |-> Pre(Dims0(m)[d])],
       units |-> [d \in Dims(m) |-> Pre(Dims0(m)[d])], L |-> BigL(m),
       v |-> Spectrum(m, real, a), vdims |-> FwdLabels(NV(a), hasLab), vmap |-> FwdMap(m, vm)]
(* inverse after forward: ifftshift undoes fftshift iff Src o ISrc is the identity on every *)
(* shifted axis; then scipy's ifftn/irfftn (trusted to invert fftn/rfftn for the output     *)
(* length it is given) returns the original values.  perm = the residual permutation.      *)
RoundPerm(m, real) == [d \in Dims(m) |-> [q \in 0 .. (KMesh(m, real).n[d] - 1) |->
                          IF RealAx(m, real, d) THEN q ELSE ShiftSrc(m.n[d], IShiftSrc(m.n[d], q))]]
PermIsId(p)       == \A d \in DOMAIN p : \A q \in DOMAIN p[d] : p[d][q] = q
(* round trips: "full" ifftn(fftn(f)); "real_shape" irfftn(rfftn(f), shape=n); "real" irfftn(rfftn(f)) *)
RoundTrip(m, a, way, hasLab, vm) ==
      LET real == way # "full"
          km   == KMesh(m, real)
          back == MeshIFFT(km, m.n, m.c, real, IF way = "real_shape" THEN m.n ELSE <<>>)
          (* scipy's irfftn without s= returns 2*(len-1) samples along the last axis (1 for len = 1); a       *)
          (* length that differs from the mesh built by Mesh.ifftn would make the call fail                  *)
          alen == IF way = "real" THEN (IF Last(km.n) = 1 THEN 1 ELSE 2 * (Last(km.n) - 1)) ELSE Last(m.n)
      IN IF ~back.ok \/ alen # Last(back.n) THEN Rej
         ELSE IF back.n # m.n \/ ~PermIsId(RoundPerm(m, real))
              THEN [ok |-> TRUE, same |-> FALSE, n |-> back.n, edge |-> back.edge]      \* property silent: no claim
              ELSE [ok |-> TRUE, same |-> TRUE, n |-> back.n, edge |-> back.edge, v |-> a,
                    dims |-> Dims0(m), units |-> Dims0(m),
                    vdims |-> IF hasLab THEN [c \in 1 .. NV(a) |-> UnPre(Pre(Lab0(NV(a))[c]))] ELSE <<>>,
                    vmap |-> [c \in DOMAIN vm |-> UnPre(Pre(<<0, vm[c]>>))]]

(* the k-cell whose centre is 0 on every axis; the cell of the full transform with the same k-vector  *)
(* (mod the sampling frequency) as cell j of the real transform                                    *)
ZeroIdx(km)   == [d \in DOMAIN km.n |-> CHOOSE j \in 0 .. (km.n[d] - 1) : km.cen2[d][j + 1] = 0]
MatchIdx(m, j) == [d \in Dims(m) |-> IF IsLast(m, d) /\ m.n[d] > 1 THEN (j[d] + Half(m.n[d])) % m.n[d] ELSE j[d]]

(* ---- configuration ------------------------------------------------------------------- *)
Meshes == UNION {{[lo |-> Prefix(lp, k), c |-> Prefix(cp, k), n |-> nn] :
                      nn \in {x \in [1 .. k -> 1 .. MaxN[k]] : ProdSeq(x) <= MaxCells}, cp \in CProf, lp \in LoProf}
                 : k \in 1 .. 4}
(* component -> axis mappings: none, or (only with as many components as axes) the identity / the reversed one *)
VMaps(m, nvv) == {<<>>} \cup (IF nvv = ND(m) /\ nvv > 1 THEN {[c \in 1 .. nvv |-> c], [c \in 1 .. nvv |-> nvv + 1 - c]} ELSE {})
HasLab == nv > 1                      \* scalar fields have no labels
AC == PatC(mesh.n, nv, pat)
AR == PatR(mesh.n, nv, pat)
BC == PatC(mesh.n, nv, pat + 1)
BR == PatR(mesh.n, nv, pat + 1)
Kinds == {"fftn", "rfftn"}
IsReal(kind) == kind = "rfftn"
Input(kind) == IF IsReal(kind) THEN AR ELSE AC
Input2(kind) == IF IsReal(kind) THEN BR ELSE BC

Fresh == act[1] = "new"
Init == /\ mesh \in Meshes /\ nv \in NVs /\ pat \in Pats
        /\ vmap \in VMaps(mesh, nv)
        /\ act = <<"new">>
        /\ obs = [ac |-> AC, bc |-> BC]

(* Mesh.fftn(rfft) *)
QMeshFFT == \E rf \in BOOLEAN :
            /\ Fresh /\ act' = <<"mesh_fftn", rf>>
            /\ obs' = [ok |-> TRUE, km |-> KMesh(mesh, rf), dims |-> [d \in Dims(mesh) |-> Pre(Dims0(mesh)[d])],
                       units |-> [d \in Dims(mesh) |-> Pre(Dims0(mesh)[d])]]
            /\ UNCHANGED <<mesh, nv, vmap, pat>>
(* Mesh.fftn(rfft).ifftn(rfft, shape): no shape, the original counts, or a wrong shape *)
ShapeArgs == {"none", "orig", "last_plus2", "first_plus1", "short"}
ShapeOf(m, s) == CASE s = "none" -> <<>>
                   [] s = "orig" -> m.n
                   [] s = "last_plus2" -> [m.n EXCEPT ![Len(m.n)] = @ + 2]
                   [] s = "first_plus1" -> [m.n EXCEPT ![1] = @ + 1]
                   [] s = "short" -> m.n \o <<1>>
QMeshIFFT == \E rf \in BOOLEAN, s \in ShapeArgs :
            /\ Fresh /\ act' = <<"mesh_ifftn", rf, s>>
            /\ obs' = MeshIFFT(KMesh(mesh, rf), mesh.n, mesh.c, rf, ShapeOf(mesh, s))
            /\ UNCHANGED <<mesh, nv, vmap, pat>>
(* Field.fftn / rfftn of a delta: one cell r, one component c *)
QFFTBasis == \E kind \in Kinds, r \in Indices(mesh), c \in {1, nv} :
            /\ Fresh /\ act' = <<"fft_basis", kind, r, c>>
            /\ obs' = FFTRes(mesh, IsReal(kind), Delta(mesh.n, nv, r, c), HasLab, vmap)
            /\ UNCHANGED <<mesh, nv, vmap, pat>>
(* ... of a whole (Gaussian-integer / integer) field *)
QFFTDense == \E kind \in Kinds :
            /\ Fresh /\ act' = <<"fft_dense", kind>>
            /\ obs' = FFTRes(mesh, IsReal(kind), Input(kind), HasLab, vmap)
            /\ UNCHANGED <<mesh, nv, vmap, pat>>
(* ... of a*f + b*g *)
QFFTLinear == \E kind \in Kinds, ab \in Coefs :
            /\ Fresh /\ act' = <<"fft_linear", kind, ab>>
            /\ obs' = FFTRes(mesh, IsReal(kind), LinArr(ab[1], Input(kind), ab[2], Input2(kind)), HasLab, vmap)
            /\ UNCHANGED <<mesh, nv, vmap, pat>>
(* inverse after forward *)
Ways == {"full", "real_shape", "real"}
QRoundTrip == \E way \in Ways :
            /\ Fresh /\ act' = <<"round_trip", way>>
            /\ obs' = RoundTrip(mesh, IF way = "full" THEN AC ELSE AR, way, HasLab, vmap)
            /\ UNCHANGED <<mesh, nv, vmap, pat>>

(* where the zero-frequency cell of the transform is, and the plain sum it must hold (Gaussian integer per component) *)
QZeroFreq == \E kind \in Kinds :
            /\ Fresh /\ act' = <<"zero_freq", kind>>
            /\ obs' = LET km == KMesh(mesh, IsReal(kind))  a == Input(kind)
                      IN [idx |-> ZeroIdx(km), kn |-> km.n,
                          sum |-> [c \in 1 .. nv |-> <<Sum([k \in DOMAIN a |-> a[k][c][1]]), Sum([k \in DOMAIN a |-> a[k][c][2]])>>]]
            /\ UNCHANGED <<mesh, nv, vmap, pat>>
(* which cell of the full transform each cell of the real transform must equal (flat positions, 1-based) *)
QRealHalf == /\ Fresh /\ act' = <<"real_half">>
             /\ obs' = LET rk == KMesh(mesh, TRUE)  fk == KMesh(mesh, FALSE)
                       IN [rn |-> rk.n, fn |-> fk.n,
                           match |-> MkArr(rk.n, LAMBDA j : Flat(fk.n, MatchIdx(mesh, j)) + 1)]
             /\ UNCHANGED <<mesh, nv, vmap, pat>>

Next == QMeshFFT \/ QMeshIFFT \/ QFFTBasis \/ QFFTDense \/ QFFTLinear \/ QRoundTrip \/ QZeroFreq \/ QRealHalf
Spec == Init /\ [][Next]_vars

(* ==== part 2: the property, clause by clause ========================================== *)
(* the DFT sample frequencies for n samples (units 1/(n*cell)): the n integers congruent  *)
(* to 0..n-1 mod n that lie in [-n/2, n/2); "shifted" = in ascending order                *)
DFTFreqs(n)   == {f \in (-n) .. n : -n <= 2 * f /\ 2 * f < n}
(* centres (half units) cs of an axis are exactly the shifted sample frequencies          *)
CentresOK(cs, n, real) ==
      LET want == IF real THEN 0 .. Half(n) ELSE DFTFreqs(n) IN
      /\ Len(cs) = Cardinality(want)
      /\ \A j \in DOMAIN cs : cs[j] % 2 = 0 /\ (cs[j] \div 2) \in want
      /\ \A j \in DOMAIN cs : j > 1 => cs[j] = cs[j - 1] + 2             \* ascending, spacing one unit = 1/(n*cell)
KMeshOK(km, m, real) == /\ Len(km.n) = ND(m) /\ Len(km.cen2) = ND(m)
                        /\ \A d \in Dims(m) : km.n[d] = Len(km.cen2[d]) /\ CentresOK(km.cen2[d], m.n[d], RealAx(m, real, d))
NamesOK(r, m)  == /\ r.dims = [d \in Dims(m) |-> <<1, d>>]      \* k_<dim>
                  /\ r.units = [d \in Dims(m) |-> <<1, d>>]     \* (<unit>)$^{-1}$
(* k.r for the k-cell j of km and the cell r, as a multiple of 1/L: sum_d kappa_d r_d / n_d *)
KDotR(m, L, km, j, r) == Sum([d \in Dims(m) |-> (km.cen2[d][j[d] + 1] \div 2) * r[d] * (L \div m.n[d])])
(* the k-cell j of the transform of a delta at (r, c0) holds exp(-2 pi i k.r) in component c0, 0 elsewhere *)
PhaseOK(res, m, r, c0) ==
      \A j \in IdxBox(res.km.n) : \A c \in DOMAIN At(res.km.n, res.v, j) :
         LET terms == At(res.km.n, res.v, j)[c] IN
         IF c # c0 THEN terms = {}
         ELSE /\ Cardinality(terms) = 1
              /\ \A x \in terms : x[2] = 1 /\ x[3] = 0 /\ (x[1] - KDotR(m, res.L, res.km, j, r)) % res.L = 0
(* every k-cell holds sum over cells of value * exp(-2 pi i k.r): collect equal exponents *)
KDotTab(m, L, km, j, idx) == [k \in DOMAIN idx |-> KDotR(m, L, km, j, idx[k]) % L]
CellDFTOK(terms, kt, a, c, L) ==
      \A t \in 0 .. (L - 1) :
         LET wre == CoefSum(kt, a, c, t, 1)
             wim == CoefSum(kt, a, c, t, 2)
         IN IF wre = 0 /\ wim = 0 THEN ~(\E x \in terms : x[1] = t) ELSE <<t, wre, wim>> \in terms
DFTOKI(res, m, a, idx) ==
      \A j \in IdxBox(res.km.n) : \A c \in 1 .. NV(a) :
         CellDFTOK(At(res.km.n, res.v, j)[c], KDotTab(m, res.L, res.km, j, idx), a, c, res.L)
DFTOK(res, m, a) == DFTOKI(res, m, a, IterOrder(m.n))
(* the zero-frequency cell (centre 0 on every axis) holds the plain sum of the field *)
ZeroOK(res, a) ==
      \A c \in 1 .. NV(a) :
         LET s == <<Sum([k \in DOMAIN a |-> a[k][c][1]]), Sum([k \in DOMAIN a |-> a[k][c][2]])>>
             terms == At(res.km.n, res.v, ZeroIdx(res.km))[c]
         IN terms = IF s = GZero THEN {} ELSE {<<0, s[1], s[2]>>}
(* the real transform equals the matching half of the full one: same k-vector (mod the sampling) *)
HalfOK(rres, fres, m) ==
      /\ \A d \in Dims(m) : ~IsLast(m, d) => rres.km.cen2[d] = fres.km.cen2[d]
      /\ \A j \in IdxBox(rres.km.n) :
            /\ At(rres.km.n, rres.v, j) = At(fres.km.n, fres.v, MatchIdx(m, j))
            /\ LET d == ND(m) IN (rres.km.cen2[d][j[d] + 1] - fres.km.cen2[d][MatchIdx(m, j)[d] + 1]) % (2 * m.n[d]) = 0
(* linear: spectrum of a*f + b*g is a*spectrum(f) + b*spectrum(g), coefficient by coefficient *)
CoefOf(terms, t) == IF \E x \in terms : x[1] = t THEN LET x == CHOOSE y \in terms : y[1] = t IN <<x[2], x[3]>> ELSE GZero
LinearOK(res, rf, rg, a, b) ==
      /\ res.km = rf.km /\ res.km = rg.km
      /\ \A k \in DOMAIN res.v : \A c \in DOMAIN res.v[k] : \A t \in 0 .. (res.L - 1) :
            CoefOf(res.v[k][c], t) = GAdd(GScale(a, CoefOf(rf.v[k][c], t)), GScale(b, CoefOf(rg.v[k][c], t)))
(* labels: ft_<label>, mapping ft_<label> -> k_<axis of label> *)
LabelsOK(res, nvv, hasLab, vm) ==
      /\ res.vdims = IF hasLab THEN [c \in 1 .. nvv |-> <<1, c>>] ELSE <<>>
      /\ res.vmap = [c \in DOMAIN vm |-> <<1, vm[c]>>]
      /\ \A c \in DOMAIN res.vmap : \E d \in DOMAIN res.dims : res.dims[d] = res.vmap[c]    \* maps onto the k-mesh's own axes
(* inverse undoes forward: original values, labels, counts and cell size, centred at the origin *)
InverseOK(res, m, a, hasLab, vm) ==
      /\ res.ok /\ res.same
      /\ res.n = m.n /\ res.edge = [d \in Dims(m) |-> m.n[d] * m.c[d]]
      /\ res.v = a
      /\ res.dims = Dims0(m) /\ res.units = Dims0(m)
      /\ res.vdims = (IF hasLab THEN Lab0(NV(a)) ELSE <<>>)
      /\ res.vmap = [c \in DOMAIN vm |-> <<0, vm[c]>>]

(* ---- the invariants of the model ------------------------------------------------------ *)
TypeOK == /\ \A d \in Dims(mesh) : mesh.n[d] >= 1 /\ mesh.c[d] >= 1
          /\ \A d, e \in Dims(mesh) : d # e => mesh.c[d] # mesh.c[e]
          /\ \A rf \in BOOLEAN : \A d \in Dims(mesh) :
                LET ka == KAxis(mesh.n[d], RealAx(mesh, rf, d)) IN (ka.hi2 - ka.lo2) = 2 * ka.n    \* k-cell size = one unit
C11_KCentres == /\ act[1] = "mesh_fftn" => KMeshOK(obs.km, mesh, act[2]) /\ NamesOK(obs, mesh)
                /\ act[1] \in {"fft_basis", "fft_dense", "fft_linear"} => KMeshOK(obs.km, mesh, IsReal(act[2])) /\ NamesOK(obs, mesh)
C11_PhaseTable == /\ act[1] = "fft_basis" => PhaseOK(obs, mesh, act[3], act[4])
                  /\ act[1] = "fft_dense" => DFTOK(obs, mesh, Input(act[2]))
C11_ZeroFreqIsSum == /\ act[1] = "zero_freq" => \A d \in Dims(mesh) : KMesh(mesh, IsReal(act[2])).cen2[d][obs.idx[d] + 1] = 0
                     /\ act[1] = "fft_dense" => ZeroOK(obs, Input(act[2]))
                     /\ act[1] = "fft_basis" => ZeroOK(obs, Delta(mesh.n, nv, act[3], act[4]))
C11_RealIsHalfOfFull ==
      /\ act[1] = "real_half" =>
            LET rk == KMesh(mesh, TRUE)  fk == KMesh(mesh, FALSE) IN
            \A j \in IdxBox(rk.n) :
               LET jf == Unflat(fk.n, At(rk.n, obs.match, j) - 1) IN
               \A d \in Dims(mesh) : (rk.cen2[d][j[d] + 1] - fk.cen2[d][jf[d] + 1]) % (2 * mesh.n[d]) = 0
      /\ (act[1] = "fft_dense" /\ IsReal(act[2])) => HalfOK(obs, FFTRes(mesh, FALSE, AR, HasLab, vmap), mesh)
C11_Linear == act[1] = "fft_linear" =>
      LET real == IsReal(act[2]) IN
      LinearOK(obs, FFTRes(mesh, real, Input(act[2]), HasLab, vmap), FFTRes(mesh, real, Input2(act[2]), HasLab, vmap),
               act[3][1], act[3][2])
C11_LabelsRenamed == act[1] \in {"fft_basis", "fft_dense", "fft_linear"} => LabelsOK(obs, nv, HasLab, vmap)
(* with the counts recovered the inverse undoes the forward transform; the counts are recovered by the  *)
(* complex pair, by the real pair given the original shape, and by the real pair without a shape iff   *)
(* the last axis is even                                                                               *)
Recovers(m, way) == way # "real" \/ Last(m.n) % 2 = 0
C11_InverseUndoes ==
      /\ act[1] = "round_trip" =>
            /\ Recovers(mesh, act[2]) => InverseOK(obs, mesh, IF act[2] = "full" THEN AC ELSE AR, HasLab, vmap)
            (* beyond the property: without a shape only a single-cell last axis is recovered among the odd ones *)
            /\ (obs.ok /\ obs.same) => (Recovers(mesh, act[2]) \/ Last(mesh.n) = 1)
      /\ act[1] = "mesh_ifftn" =>
            /\ (act[3] = "orig" /\ act[2]) => (obs.ok /\ obs.n = mesh.n /\ obs.edge = [d \in Dims(mesh) |-> Edge(mesh, d)])
            /\ (act[3] = "none" /\ (~act[2] \/ Last(mesh.n) % 2 = 0)) =>
                  (obs.ok /\ obs.n = mesh.n /\ obs.edge = [d \in Dims(mesh) |-> Edge(mesh, d)])
      (* ifftshift really undoes fftshift on every axis length in the model, odd ones included *)
      /\ act[1] = "new" => \A d \in Dims(mesh) : \A q \in 0 .. (mesh.n[d] - 1) :
                              ShiftSrc(mesh.n[d], IShiftSrc(mesh.n[d], q)) = q /\ IShiftSrc(mesh.n[d], ShiftSrc(mesh.n[d], q)) = q
=============================================================================
