------------------------------ MODULE C17Trace ------------------------------
(* Channel T for C17: random fields of 1-4 dimensions are exported and re-imported by    *)
(* the real library with random attribute subsets removed and random coordinate          *)
(* perturbations; the observed DataArray and the observed import result are compared     *)
(* with Export / Import of C17.tla, and the property clauses are evaluated on the        *)
(* observed values.  Verdicts are total.                                                 *)
EXTENDS C17, Json, IOUtils

VARIABLES tid, l
tvars == <<fld, xa, act, obs, tid, l>>

Traces == JsonDeserialize(IOEnv.TRACE_FILE)
T  == Traces[tid]
Ev == Traces[tid].ev[l + 1]
Verd(c, name) == IF c THEN TRUE ELSE PrintT(<<"VERDICT", Traces[tid].id, l + 1, name>>)
SeqToSet(s) == {s[j] : j \in DOMAIN s}

TInit == /\ tid \in 1 .. Len(Traces)
         /\ l = 0
         /\ fld = Traces[tid].fld
         /\ xa = NoXa
         /\ act = <<"new">>
         /\ obs = [ok |-> TRUE, dem |-> {}, v |-> <<>>]

(* the observed DataArray: dims, coordinates (lattice), coordinate units, component       *)
(* coordinate, attributes                                                                  *)
StepExport ==
   /\ Ev.k = "export"
   /\ act' = <<"to_xarray">>
   /\ LET e == Export(fld)
          m == fld.mesh
      IN /\ xa' = [e EXCEPT !.coords = Ev.coords]
         /\ obs' = [ok |-> TRUE, dem |-> {"coords"}, v |-> <<>>]
         /\ Verd(Ev.exact, "export-on-lattice")
         /\ Verd(Ev.gd = e.gd /\ Ev.vd = e.vd, "C17_CoordsAreCentres-dims")
         /\ Verd(Ev.coords = e.coords, "C17_CoordsAreCentres-coords")
         (* the clause on the observation alone: centres are the midpoints of the cell faces *)
         /\ Verd(Len(Ev.coords) = ND(m) /\ \A d \in Dims(m) :
                    /\ Len(Ev.coords[d]) = m.n[d]
                    /\ \A j \in 1 .. Len(Ev.coords[d]) : 2 * Ev.coords[d][j] = FaceAx(m, d, j - 1) + FaceAx(m, d, j),
                 "C17_CoordsAreCentres-midpoints")
         /\ Verd(Ev.cu = e.cu.v, "C17_CoordsAreCentres-cunits")
         /\ Verd(fld.nv > 1 => (Ev.vchas /\ Ev.vc = e.vc.v), "C17_CoordsAreCentres-vcoord")
         /\ Verd(Ev.cell = e.cell.v /\ Ev.pmin = e.pmin.v /\ Ev.pmax = e.pmax.v, "C17_ExportAttrs-geometry")
         /\ Verd(Ev.nvdim = e.nvdim.v /\ Ev.tol = e.tol.v /\ Ev.units = e.units, "C17_ExportAttrs-meta")
         /\ Verd(Ev.dataexact /\ Ev.dt = e.dt, "C17_ExportAttrs-data")
(* an import of the exported array with the attribute set S removed and the coordinates   *)
(* replaced by the logged ones                                                             *)
StepImport ==
   /\ Ev.k = "import"
   /\ LET S   == SeqToSet(Ev.S)
          x   == [Strip(Export(fld), S, <<Ev.pert>>) EXCEPT !.coords = Ev.coords]
          exp == Import(x)
          b   == Ev.back
          D   == exp.dem
      IN /\ act' = <<"from_xarray", S, <<Ev.pert>>>>
         /\ xa' = x
         /\ obs' = IF Ev.ok THEN [ok |-> TRUE, dem |-> D, v |-> b] ELSE Reject(D)
         /\ Verd("outcome" \in D => Ev.ok = exp.ok,
                 IF exp.ok THEN "C17_RebuildFromCoords-raises" ELSE "C17_Rejects-accepted")
         /\ Verd((Ev.ok /\ exp.ok /\ "mesh" \in D) =>
                    /\ b.exact /\ b.lo = exp.v.lo /\ b.hi = exp.v.hi /\ b.n = exp.v.n
                    /\ (exp.v.exactlo => b.samelo) /\ (exp.v.exacthi => b.samehi),
                 "C17_RebuildFromCoords-mesh")
         (* the clause on the observation: half a cell beyond the outermost centres handed in *)
         /\ Verd((Ev.ok /\ exp.ok /\ "mesh" \in D /\ b.exact) =>
                    \A d \in DOMAIN Ev.coords :
                       LET cs == Ev.coords[d]
                           w  == (b.hi[d] - b.lo[d]) \div b.n[d]
                       IN 2 * b.lo[d] = 2 * cs[1] - w /\ 2 * b.hi[d] = 2 * cs[Len(cs)] + w,
                 "C17_RebuildFromCoords-half-cell")
         /\ Verd((Ev.ok /\ exp.ok /\ "dims" \in D) => b.dims = exp.v.dims, "C17_Lossless-dims")
         /\ Verd((Ev.ok /\ exp.ok /\ "units" \in D) => b.units = exp.v.units, "C17_Lossless-units")
         /\ Verd((Ev.ok /\ exp.ok /\ "nv" \in D) => b.nv = exp.v.nv, "C17_Lossless-nv")
         /\ Verd((Ev.ok /\ exp.ok /\ "values" \in D) => b.vexact, "C17_Lossless-values")
         /\ Verd((Ev.ok /\ exp.ok /\ "labels" \in D) => b.labels = exp.v.labels, "C17_Lossless-labels")
         /\ Verd((Ev.ok /\ exp.ok /\ "dtype" \in D) => b.dt = exp.v.dt, "C17_Lossless-dtype")
         /\ Verd((Ev.ok /\ exp.ok /\ "tol" \in D) => b.tol = exp.v.tol, "silent-tol")
         (* aspects on which the property is silent: reported under a separate tag *)
         /\ Verd("outcome" \notin D => Ev.ok = exp.ok, "silent-outcome")
         /\ Verd((Ev.ok /\ exp.ok /\ "units" \notin D) => b.units = exp.v.units, "silent-units")
         /\ Verd((Ev.ok /\ exp.ok /\ "labels" \notin D) => b.labels = exp.v.labels, "silent-labels")

TNext == /\ l < Len(Traces[tid].ev)
         /\ (StepExport \/ StepImport)
         /\ l' = l + 1
         /\ UNCHANGED <<fld, tid>>
TSpec == TInit /\ [][TNext]_tvars
=============================================================================
