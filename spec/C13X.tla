------------------------------- MODULE C13X -------------------------------
(* C13, the two-form contract of ONE transformation step at the edge of floating point.      *)
(*                                                                                           *)
(* The exact model (Geom.tla / C13.tla) works over rationals: there a translation, a scaling *)
(* by a non-zero factor and a quarter turn never produce a degenerate region.  In floating   *)
(* point they can: a far vector or reference point, or a tiny factor, makes an edge collapse  *)
(* (pmin + v = pmax + v).  C13 states what must happen then, for both forms of the step:     *)
(*   "A step that would produce a degenerate region ... is rejected in both forms without    *)
(*    modifying the object", "the in-place form returns the object itself and leaves it      *)
(*    equal to what the copying form returns", "the copying form leaves the original         *)
(*    untouched", "every region still has pmin < pmax ...".                                  *)
(* The abstract state of one experiment is what the two forms did to two equal objects:      *)
(* the harness (harness/props/c13x.py) applies the copying form to one and the in-place form  *)
(* to the other and logs the observations below; every experiment is one initial state of    *)
(* this specification and the clauses are its invariants (total verdicts).                   *)
EXTENDS Naturals, Sequences, TLC, Json, IOUtils

VARIABLES tid
Events == JsonDeserialize(IOEnv.TRACE_FILE)
E == Events[tid]
(* fields of an event:                                                                       *)
(*   cpok, ipok   the copying / in-place form returned normally                               *)
(*   cpnormal     the returned object is normal (finite corners, pmin < pmax for the region   *)
(*                and every subregion, n >= 1, cell*n = edges to 1e-9, array shape = n)       *)
(*   ipnormal     the same for the object after the in-place form                             *)
(*   ipself       the in-place form returned the object itself                                *)
(*   ipsame       the object is exactly as before (asked when the in-place form raised)       *)
(*   cporig       the original is exactly as before after the copying form (raised or not)    *)
(*   agree        object after the in-place form = result of the copying form (1e-9 of the    *)
(*                largest coordinate magnitude; asked when both returned)                     *)
Verd(c, name) == IF c THEN TRUE ELSE PrintT(<<"VERDICT", E.id, 1, name>>)

Init == tid \in 1 .. Len(Events)
Next == FALSE /\ tid' = tid
Spec == Init /\ [][Next]_tid

C13_RejectBothForms    == Verd(E.cpok = E.ipok, "C13_RejectBothForms")
C13_RejectUnchanged    == Verd(~E.ipok => E.ipsame, "C13_RejectUnchanged")
C13_CopyLeavesOriginal == Verd(E.cporig, "C13_CopyLeavesOriginal")
C13_RegionNormal       == Verd((E.ipok => E.ipnormal) /\ (E.cpok => E.cpnormal), "C13_RegionNormal")
C13_InplaceReturnsSelf == Verd(E.ipok => E.ipself, "C13_InplaceReturnsSelf")
C13_InplaceEqualsCopy  == Verd((E.ipok /\ E.cpok) => E.agree, "C13_InplaceEqualsCopy")
Done == PrintT(<<"DONE", E.id>>)
=============================================================================
