------------------------------ MODULE Lattice ------------------------------
(* Exact model of regions and regular meshes on an integer lattice (DESIGN §2.1).      *)
(*                                                                                     *)
(* A mesh is a record [lo, c, n] of equally long sequences: lower corner, cell size    *)
(* and cell count per spatial dimension.  All cell sizes are multiples of 4 lattice    *)
(* units so that cell centres, faces, quarter points and points a quarter cell outside *)
(* the region are integers.  Cell indices are 0-based (as in the library) and stored   *)
(* in 1-based sequences.  A box is a record [lo, hi].                                  *)
EXTENDS Rat

ND(m)      == Len(m.n)
Dims(m)    == 1 .. Len(m.n)
Edge(m, d) == m.c[d] * m.n[d]
Hi(m, d)   == m.lo[d] + Edge(m, d)
MeshOK(m)  == /\ Len(m.lo) = Len(m.n) /\ Len(m.c) = Len(m.n)
              /\ \A d \in Dims(m) : m.n[d] >= 1 /\ m.c[d] >= 4 /\ m.c[d] % 4 = 0
RegionOf(m) == [lo |-> m.lo, hi |-> [d \in Dims(m) |-> Hi(m, d)]]
NCells(m)  == ProdSeq(m.n)

(* ---- indices ---------------------------------------------------------------------- *)
MaxSeq(s)  == CHOOSE x \in {s[i] : i \in DOMAIN s} : \A j \in DOMAIN s : s[j] <= x
IdxBox(n)  == {i \in [DOMAIN n -> 0 .. (MaxSeq(n) - 1)] : \A d \in DOMAIN n : i[d] < n[d]}
Indices(m) == IdxBox(m.n)
InRange(m, i) == \A d \in Dims(m) : 0 <= i[d] /\ i[d] < m.n[d]

(* position (0-based) of index i in the library's iteration order: first dim fastest   *)
RECURSIVE FlatFrom(_, _, _)
FlatFrom(n, i, d) == IF d > Len(n) THEN 0 ELSE i[d] + n[d] * FlatFrom(n, i, d + 1)
Flat(n, i) == FlatFrom(n, i, 1)
(* inverse: k-th index (0-based k) *)
RECURSIVE UnflatFrom(_, _, _)
UnflatFrom(n, k, d) == IF d > Len(n) THEN <<>>
                       ELSE <<k % n[d]>> \o UnflatFrom(n, k \div n[d], d + 1)
Unflat(n, k) == UnflatFrom(n, k, 1)
IterOrder(n) == [k \in 1 .. ProdSeq(n) |-> Unflat(n, k - 1)]

(* ---- coordinates ------------------------------------------------------------------ *)
CentreAx(m, d, i)  == m.lo[d] + m.c[d] * i + m.c[d] \div 2
Centre(m, i)       == [d \in Dims(m) |-> CentreAx(m, d, i[d])]
FaceAx(m, d, j)    == m.lo[d] + m.c[d] * j                  \* j = 0 .. n
CentresAx(m, d)    == [j \in 1 .. m.n[d] |-> CentreAx(m, d, j - 1)]
VerticesAx(m, d)   == [j \in 1 .. (m.n[d] + 1) |-> FaceAx(m, d, j - 1)]

InsideAx(m, d, x)  == m.lo[d] <= x /\ x <= Hi(m, d)
Inside(m, p)       == \A d \in Dims(m) : InsideAx(m, d, p[d])
Clip(k, lo, hi)    == IF k < lo THEN lo ELSE IF k > hi THEN hi ELSE k
(* the cell containing x along axis d: lower face inclusive, last cell upper-inclusive *)
P2IAx(m, d, x)     == Clip((x - m.lo[d]) \div m.c[d], 0, m.n[d] - 1)
P2I(m, p)          == [d \in Dims(m) |-> P2IAx(m, d, p[d])]
OnInnerFaceAx(m, d, x) == (x - m.lo[d]) % m.c[d] = 0 /\ m.lo[d] < x /\ x < Hi(m, d)
(* admissible answers when the float realisation of x may fall on either side of a face *)
P2IAxAlt(m, d, x)  == IF OnInnerFaceAx(m, d, x) THEN {P2IAx(m, d, x) - 1, P2IAx(m, d, x)}
                      ELSE {P2IAx(m, d, x)}

(* closed cell i contains x *)
InClosedCellAx(m, d, i, x) == FaceAx(m, d, i) <= x /\ x <= FaceAx(m, d, i + 1)
(* half-open cell (lower inclusive), the last one closed *)
InOwnCellAx(m, d, i, x) == /\ FaceAx(m, d, i) <= x
                           /\ (x < FaceAx(m, d, i + 1) \/ (i = m.n[d] - 1 /\ x = FaceAx(m, d, i + 1)))

(* ---- boxes ------------------------------------------------------------------------ *)
BoxOK(b)        == \A d \in DOMAIN b.lo : b.lo[d] < b.hi[d]
BoxInBox(a, b)  == \A d \in DOMAIN a.lo : b.lo[d] <= a.lo[d] /\ a.hi[d] <= b.hi[d]
BoxInMesh(b, m) == BoxInBox(b, RegionOf(m))
(* whole cells of mesh m and on its lattice *)
BoxAligned(b, m) == \A d \in Dims(m) : (b.lo[d] - m.lo[d]) % m.c[d] = 0 /\ (b.hi[d] - m.lo[d]) % m.c[d] = 0
BoxOverlapAx(a, b, d) == a.lo[d] < b.hi[d] /\ b.lo[d] < a.hi[d]
BoxesOverlap(a, b) == \A d \in DOMAIN a.lo : BoxOverlapAx(a, b, d)
BoxMeet(a, b) == [lo |-> [d \in DOMAIN a.lo |-> Max2(a.lo[d], b.lo[d])],
                  hi |-> [d \in DOMAIN a.lo |-> Min2(a.hi[d], b.hi[d])]]
(* index slices [from, to) per axis of a whole-cell box *)
BoxSlices(b, m) == [d \in Dims(m) |-> <<(b.lo[d] - m.lo[d]) \div m.c[d], (b.hi[d] - m.lo[d]) \div m.c[d]>>]
(* smallest block of whole cells containing box b (b inside the region) *)
CoverBlock(b, m) == [lo |-> [d \in Dims(m) |-> FaceAx(m, d, P2IAx(m, d, b.lo[d]))],
                     hi |-> [d \in Dims(m) |-> FaceAx(m, d, Clip(CeilDiv(b.hi[d] - m.lo[d], m.c[d]), 1, m.n[d]))]]
SubMesh(b, m)   == [lo |-> b.lo, c |-> m.c, n |-> [d \in Dims(m) |-> (b.hi[d] - b.lo[d]) \div m.c[d]]]
PointInBox(p, b) == \A d \in DOMAIN p : b.lo[d] <= p[d] /\ p[d] <= b.hi[d]
CentreInBox(m, i, b) == \A d \in Dims(m) : b.lo[d] < CentreAx(m, d, i[d]) /\ CentreAx(m, d, i[d]) < b.hi[d]

(* ---- sequences -------------------------------------------------------------------- *)
RemoveAt(s, k) == [j \in 1 .. (Len(s) - 1) |-> IF j < k THEN s[j] ELSE s[j + 1]]
SetAt(s, k, v) == [s EXCEPT ![k] = v]
SwapAt(s, a, b) == [s EXCEPT ![a] = s[b], ![b] = s[a]]
DropAxis(m, k) == [lo |-> RemoveAt(m.lo, k), c |-> RemoveAt(m.c, k), n |-> RemoveAt(m.n, k)]
=============================================================================
