SPECIFICATION Spec
CONSTANTS
  Configs <- Configs_thorough
  Gens <- Gens_thorough
  TNSet <- TNSet_thorough
  PostGens <- PostGens_all
  Gens3 <- Gens3_all
  MaxDepth = 3
  MaxD = 125
CHECK_DEADLOCK FALSE
INVARIANT TypeOK
INVARIANT C18_ProperRotation
INVARIANT C18_Composition
INVARIANT C18_ClearRestores
INVARIANT C18_Refusals
INVARIANT C18_BoundingBox
INVARIANT C18_Classes
INVARIANT C18_UniformBecomesUniform
INVARIANT C18_InterpReproducesAffine
INVARIANT C18_QuarterTurnEqualsRotate90
