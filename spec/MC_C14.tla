------------------------------ MODULE MC_C14 ------------------------------
EXTENDS C14
P1 == << <<0, 0, 0, 0>>, <<4, 4, 4, 4>> >>
P2 == << <<-8, 4, -12, 20>>, <<4, 8, 12, 8>> >>
P3 == << <<40, -36, 8, -4>>, <<8, 4, 16, 12>> >>
MaxN_quick    == <<4, 3, 2, 0>>
MaxN_thorough == <<5, 3, 3, 2>>
Prof_quick    == << {P1, P2}, {P1, P2}, {P3}, {} >>
Prof_thorough == << {P1, P2, P3}, {P1, P2, P3}, {P2, P3}, {P3} >>
Layouts_all   == {"none", "A", "B", "C"}
Vecs_all      == {<<4, -8, 12, 4>>, <<-3, 1, 2, 5>>}
Fq(a, b, c, d) == <<a, b, c, d>>
Two == <<2, 1>>  Three == <<3, 1>>  Half == <<1, 2>>  One == <<1, 1>>
Factors_quick    == {Fq(Two, Two, Two, Two), Fq(Half, Half, Half, Half), Fq(Three, One, Half, Two)}
Factors_thorough == {Fq(Two, Two, Two, Two), Fq(Three, Three, Three, Three), Fq(Half, Half, Half, Half),
                     Fq(Three, One, Half, Two), Fq(One, Half, Two, Three)}
Refs_all      == {"default", "corner", "far"}
RotKs_quick    == {1, 2, -1}
RotKs_thorough == {-5, -1, 0, 1, 2, 3, 4}
StT(v, ip)          == [op |-> "translate", v |-> v, inplace |-> ip]
StS(f, r, ip)       == [op |-> "scale", f |-> f, ref |-> r, inplace |-> ip]
StR(a, b, k, r, ip) == [op |-> "rotate90", a |-> a, b |-> b, k |-> k, ref |-> r, inplace |-> ip]
Short_quick == {StT(<<-3, 1, 2, 5>>, TRUE), StT(<<-3, 1, 2, 5>>, FALSE),
                StS(Fq(Two, Two, Two, Two), "default", TRUE), StS(Fq(Three, One, Half, Two), "corner", FALSE),
                StR(1, 2, 1, "default", TRUE), StR(1, 2, 1, "default", FALSE), StR(2, 1, -1, "far", TRUE)}
Short_thorough == Short_quick \cup {StS(Fq(Half, Half, Half, Half), "default", FALSE),
                                    StR(1, 2, 2, "corner", FALSE), StR(1, 3, 1, "default", TRUE)}
=============================================================================
