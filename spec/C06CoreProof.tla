---------------------------- MODULE C06CoreProof ----------------------------
(* The inductive invariant of spec/C06Core.tla once more, this time as a machine-checked PROOF *)
(* (TLAPS, SMT back end): Apalache decides the two obligations by bounded symbolic execution    *)
(* of one step; here the same two facts are theorems with a proof the proof manager checks.     *)
(* TLAPS has no types: the invariant is strengthened by "every variable is an integer".         *)
(*   tlapm C06CoreProof.tla        (16 obligations)                                             *)
EXTENDS C06Core, TLAPS

TypeInv == /\ c \in Int /\ k \in Int /\ s \in Int /\ v \in Int /\ cum2 \in Int /\ a \in Int /\ b \in Int
           /\ sg \in Int /\ sh \in Int /\ cumh2 \in Int /\ cumg2 \in Int
Inv == TypeInv /\ IndInv

THEOREM InitOK == Init => Inv
  BY DEF Init, Inv, TypeInv, IndInv, CumulativeMeetsIntegral, MeanTimesExtent, Linear, Integral

THEOREM Inductive == Inv /\ Next => Inv'
<1> SUFFICES ASSUME Inv, NEW w \in Int, NEW u \in Int,
                    k' = k + 1, c' = c, a' = a, b' = b, v' = w, s' = s + w, cum2' = c * (2 * s + w),
                    sg' = sg + u, cumg2' = c * (2 * sg + u), sh' = sh + (a * w + b * u),
                    cumh2' = c * (2 * sh + (a * w + b * u))
             PROVE Inv'
  BY DEF Next, Take
<1>1. TypeInv'
  BY DEF Inv, TypeInv
<1>2. c' >= 1 /\ k' >= 1
  BY DEF Inv, TypeInv, IndInv
<1>3. CumulativeMeetsIntegral'
  BY SMTT(30) DEF Inv, TypeInv, IndInv, CumulativeMeetsIntegral, Integral
<1>4. MeanTimesExtent'
  BY SMTT(30) DEF Inv, TypeInv, IndInv, MeanTimesExtent, Integral
<1>5. Linear'
  BY SMTT(30) DEF Inv, TypeInv, IndInv, Linear
<1> QED BY <1>1, <1>2, <1>3, <1>4, <1>5 DEF Inv, IndInv
=============================================================================
