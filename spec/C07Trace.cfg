SPECIFICATION TSpec
CONSTANTS
  MaxN = 1
  Prof = {}
  Layouts = {}
  FullProbes = FALSE
  PadW = {}
  PadModes = {}
  ResN = {}
  OtherKinds = {}
CHECK_DEADLOCK FALSE
