SPECIFICATION Spec
CONSTANTS
  MeshSet <- MeshSet_quick
  NVSet <- NV_quick
  LayoutSet <- Layouts_quick
  FieldKinds <- FieldKinds_all
  DictPats <- DictPats_quick
  LineKs <- LineKs_quick
CHECK_DEADLOCK FALSE
INVARIANT TypeOK
INVARIANT C02_Shape
INVARIANT C02_CellwiseSpec
INVARIANT C02_FirstListedWins
INVARIANT C02_UndefinedRejected
INVARIANT C02_SampleIsCell
INVARIANT C02_ComponentColumn
INVARIANT C02_IterOrder
INVARIANT C02_LineEndpointsInclusive
INVARIANT C02_LineValues
INVARIANT C02_BadRejected
PROPERTY C02_RejectLeavesUnchanged
