------------------------------ MODULE C04Core ------------------------------
(* The algebraic core of C04 for UNBOUNDED coefficients, positions and cell sizes: "derivatives  *)
(* are exact on low-degree polynomials".  TLC evaluates the stencils of C04.tla on polynomials    *)
(* with a few small coefficients and lines of a few cells; here Apalache proves, for ANY integer  *)
(* coefficients a3, a2, a1, a0, any position x and any cell size c >= 1, that every stencil the   *)
(* library uses (operators._1d_diff: numpy.gradient with edge_order 2 resp. 1, the [1,-2,1]       *)
(* stencil with FinDiff's end stencils) reproduces the derivative of the polynomial it is exact    *)
(* for - with the division by dx resp. dx^2 multiplied out, so that everything is an integer.      *)
(* The state is one arbitrary choice: every clause is an invariant of the initial states.          *)
(*   apalache-mc check --init=Init --inv=<clause> --length=0 C04Core.tla                           *)
EXTENDS Integers

VARIABLES
  \* @type: Int;
  a3,
  \* @type: Int;
  a2,
  \* @type: Int;
  a1,
  \* @type: Int;
  a0,
  \* @type: Int;
  x,
  \* @type: Int;
  c

Q(t)   == a2 * t * t + a1 * t + a0                    \* a quadratic
DQ(t)  == 2 * a2 * t + a1
K(t)   == a3 * t * t * t + Q(t)                       \* a cubic
DDK(t) == 6 * a3 * t + 2 * a2
L(t)   == a1 * t + a0                                 \* a linear function

Init == a3 \in Int /\ a2 \in Int /\ a1 \in Int /\ a0 \in Int /\ x \in Int /\ c \in Int /\ c >= 1
Next == UNCHANGED <<a3, a2, a1, a0, x, c>>

(* first derivative, interior cells: (f(x + c) - f(x - c)) / 2c, exact on quadratics *)
C04_CentralFirstExactOnQuadratics == Q(x + c) - Q(x - c) = 2 * c * DQ(x)
(* first derivative, end cells of lines with at least three cells (edge_order = 2), exact on quadratics *)
C04_LowerEdgeFirstExactOnQuadratics == 0 - 3 * Q(x) + 4 * Q(x + c) - Q(x + 2 * c) = 2 * c * DQ(x)
C04_UpperEdgeFirstExactOnQuadratics == 3 * Q(x) - 4 * Q(x - c) + Q(x - 2 * c) = 2 * c * DQ(x)
(* first derivative on a line of two cells (edge_order = 1): the one-sided difference, exact on linear functions *)
C04_TwoCellFirstExactOnLinear == L(x + c) - L(x) = c * a1
(* second derivative, interior cells: f(x - c) - 2 f(x) + f(x + c) over c^2, exact on cubics *)
C04_CentralSecondExactOnCubics == K(x - c) - 2 * K(x) + K(x + c) = c * c * DDK(x)
(* second derivative, end cells of lines with at least four cells: 2 f0 - 5 f1 + 4 f2 - f3, exact on cubics *)
C04_LowerEdgeSecondExactOnCubics == 2 * K(x) - 5 * K(x + c) + 4 * K(x + 2 * c) - K(x + 3 * c) = c * c * DDK(x)
C04_UpperEdgeSecondExactOnCubics == 2 * K(x) - 5 * K(x - c) + 4 * K(x - 2 * c) - K(x - 3 * c) = c * c * DDK(x)
(* second derivative, end cells of a line of three cells: f0 - 2 f1 + f2, exact on quadratics *)
C04_ThreeCellSecondExactOnQuadratics == Q(x) - 2 * Q(x + c) + Q(x + 2 * c) = c * c * 2 * a2
=============================================================================
