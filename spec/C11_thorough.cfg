SPECIFICATION Spec
CONSTANTS
  MaxN <- MaxN_thorough
  MaxCells <- MaxCells_thorough
  CProf <- CProf_thorough
  LoProf <- LoProf_thorough
  NVs <- NVs_thorough
  Pats <- Pats_all
  Coefs <- Coefs_all
CHECK_DEADLOCK FALSE
INVARIANT TypeOK
INVARIANT C11_KCentres
INVARIANT C11_PhaseTable
INVARIANT C11_ZeroFreqIsSum
INVARIANT C11_RealIsHalfOfFull
INVARIANT C11_Linear
INVARIANT C11_LabelsRenamed
INVARIANT C11_InverseUndoes
