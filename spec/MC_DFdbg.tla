---- MODULE MC_DFdbg ----
EXTENDS MC_DF
Scen_A == {"A2"}
====
