-------------------------------- MODULE C12 --------------------------------
(* C12 - quarter-turn rotations move values, vectors, validity and geometry together.  *)
(* Same object heap and step relation as C13 (Geom.tla, C13.tla) restricted to          *)
(* rotate90 calls, over a wider family of initial objects (every permutation of the     *)
(* component-to-axis mapping, a partial mapping, 2-4 dimensions, masks, subregions).    *)
(* The clauses of C12 are stated independently of the index formula used by the step    *)
(* relation: C12_Law goes through cell centres and point lookup on the rotated mesh.    *)
EXTENDS C13

Next12 == Bounded /\ (Rotate90 \/ Malformed) /\ AliasGuard'
Spec12 == Init /\ [][Next12]_vars

IsRot(st) == st.kind = "rotate90" /\ st.outcome = "ok"
FieldTarget == heap[roots[Last'.x]].k = "field"

(* g(R + Q(p - R)) = Q f(p) for every cell centre p; validity moves with the cell *)
Law == (IsRot(Last') /\ FieldTarget) =>
   LET st == Last'
       fo == heap[roots[st.x]]                   \* the field before
       go == heap'[roots'[st.x]]                 \* the field after (same object in place, new object otherwise)
       rb == OwnRegion(heap, roots[st.x])
       ra == OwnRegion(heap', roots'[st.x])
       nb == FieldMesh(heap, roots[st.x]).n
       na == FieldMesh(heap', roots'[st.x]).n
       ref == RefOf(st, rb)
       ca == CompOf(fo.map, st.args.a)
       cb == CompOf(fo.map, st.args.b)
   IN \A i \in IdxBox(nb) :
        LET p  == CentreR(rb, nb, i)
            q  == RotPoint(p, st.args.a, st.args.b, st.args.k, ref)
            j  == P2IR(ra, na, q)
        IN /\ InRegR(ra, q)
           /\ CentreR(ra, na, j) = q                                  \* centres map to centres
           /\ At(na, go.valid, j) = At(nb, fo.valid, i)
           /\ At(na, go.arr, j) = (IF fo.nv = 1 THEN At(nb, fo.arr, i) ELSE RotVec(At(nb, fo.arr, i), ca, cb, st.args.k))
           /\ go.map = fo.map /\ go.nv = fo.nv
(* rotation by k and by k mod 4 agree *)
ModFour == IsRot(Last') =>
   LET st == Last'
       c1 == Copying(heap, roots[st.x], "rotate90", st.args)
       c2 == Copying(heap, roots[st.x], "rotate90", [st.args EXCEPT !.k = st.args.k % 4])
   IN Deep(c1[1], c1[2]) = Deep(c2[1], c2[2])
(* a turn followed by its reverse (about the same reference point) is the identity *)
ReverseUndoes == IsRot(Last') =>
   LET st == Last'
       ref == RefOf(st, OwnRegion(heap, roots[st.x]))
       back == Copying(heap', roots'[st.x], "rotate90", [st.args EXCEPT !.k = 0 - st.args.k, !.ref = ref])
   IN Deep(back[1], back[2]) = Deep(heap, roots[st.x])
(* region, mesh and field rotate consistently with one another *)
Consistent == (IsRot(Last') /\ heap[roots[Last'.x]].k # "region") =>
   LET st == Last'
       o == roots[st.x]
       m == IF heap[o].k = "field" THEN heap[o].mesh ELSE o
       ref == RefOf(st, OwnRegion(heap, o))
       args == [st.args EXCEPT !.ref = ref]
       cm == Copying(heap, m, "rotate90", args)
       cr == Copying(heap, heap[m].region, "rotate90", args)
       after == Deep(heap', roots'[st.x])
       meshafter == IF heap[o].k = "field" THEN after.mesh ELSE after
   IN /\ meshafter = Deep(cm[1], cm[2])
      /\ meshafter.region = Deep(cr[1], cr[2])
(* four quarter turns are the identity (state invariant, every variable, every axis pair) *)
RECURSIVE Turn(_, _, _, _, _)
Turn(h, o, a, b, times) == IF times = 0 THEN Deep(h, o)
                           ELSE LET c == Copying(h, o, "rotate90", [a |-> a, b |-> b, k |-> 1, ref |-> RegCentre(OwnRegion(h, o))])
                                IN Turn(c[1], c[2], a, b, times - 1)
C12_FourIsIdentity == \A x \in DOMAIN roots :
   LET o == roots[x] IN
   (heap[o].k # "field" \/ \A p \in AxisPairs(NDof(heap, o)) : FieldRotatable(heap[o], [a |-> p[1], b |-> p[2]]))
   => \A p \in AxisPairs(NDof(heap, o)) : Turn(heap, o, p[1], p[2], 4) = Deep(heap, o)
(* a vector field without the mapping for a or b is refused *)
Refusal == (Last'.kind = "rotate90" /\ FieldTarget) =>
   (Last'.outcome = "reject" <=> ~FieldRotatable(heap[roots[Last'.x]], Last'.args))

C12_Law           == [][Law]_vars
C12_ModFour       == [][ModFour]_vars
C12_ReverseUndoes == [][ReverseUndoes]_vars
C12_Consistent    == [][Consistent]_vars
C12_Refusal       == [][Refusal]_vars
C12_CountsAndUnits    == C13_CountsAndUnits
C12_InplaceEqualsCopy == C13_InplaceEqualsCopy
C12_AffineExact       == C13_AffineExact
=============================================================================
