------------------------------ MODULE C11Trace ------------------------------
(* Channel T for C11: observations recorded from the real library on random meshes     *)
(* (to 8x7x5 cells) are checked event by event.  Everything in a trace is an integer:  *)
(* k-cell centres in half units of 1/(n*cell), phases of delta transforms as the       *)
(* exponent t of w^t (w = exp(-2 pi i/L)), Gaussian-integer spectra where they are     *)
(* exact (all n in {1,2,4}), recovered meshes in lattice units, names as               *)
(* <<number of prefixes, id>>.  The property's predicates of C11 are evaluated on the  *)
(* observed values and the observations are compared with C11's own operators.         *)
(* Verdicts are total: <<"VERDICT", trace id, event, <<clause, condition>>>>.          *)
EXTENDS C11, Json, IOUtils

VARIABLES tid, l
tvars == <<mesh, nv, vmap, pat, act, obs, tid, l>>

Traces == JsonDeserialize(IOEnv.TRACE_FILE)
T  == Traces[tid]
Ev == Traces[tid].ev[l + 1]
Verd(c, name) == IF c THEN TRUE ELSE PrintT(<<"VERDICT", Traces[tid].id, l + 1, name>>)

TAC == Traces[tid].a
TBC == Traces[tid].b
RealPart(a) == [k \in DOMAIN a |-> [c \in DOMAIN a[k] |-> <<a[k][c][1], 0>>]]
In1(real) == IF real THEN RealPart(TAC) ELSE TAC
In2(real) == IF real THEN RealPart(TBC) ELSE TBC
HasLabT == Traces[tid].haslab

TInit == /\ tid \in 1 .. Len(Traces)
         /\ l = 0
         /\ mesh = Traces[tid].mesh
         /\ nv = Traces[tid].nv
         /\ vmap = Traces[tid].vmap
         /\ pat = 0
         /\ act = <<"new">>
         /\ obs = [ac |-> Traces[tid].a, bc |-> Traces[tid].b]

(* an observed k-mesh [n, cen2] against the property (and, axis by axis, the D11 pattern) *)
CountsOK(km, real) == /\ Len(km.n) = ND(mesh) /\ Len(km.cen2) = ND(mesh)
                      /\ \A d \in Dims(mesh) : km.n[d] = Len(km.cen2[d])
                      /\ km.n = KMesh(mesh, real).n
AxisOK(km, real, d) == CentresOK(km.cen2[d], mesh.n[d], RealAx(mesh, real, d))
KVerdicts(km, real, exact) ==
      /\ Verd(exact, <<"C11_KCentres", "off-lattice">>)
      /\ Verd(CountsOK(km, real), <<"C11_KCentres", "counts">>)
      /\ Verd(CountsOK(km, real) => \A d \in Dims(mesh) : mesh.n[d] > 1 => AxisOK(km, real, d), <<"C11_KCentres", "centres">>)
      /\ Verd(CountsOK(km, real) => \A d \in Dims(mesh) : mesh.n[d] = 1 => km.cen2[d] # <<1>>,
              <<"C11_KCentres", "single-cell-axis-half">>)
      /\ Verd(CountsOK(km, real) => \A d \in Dims(mesh) : mesh.n[d] = 1 => (km.cen2[d] = <<1>> \/ AxisOK(km, real, d)),
              <<"C11_KCentres", "single-cell-axis-other">>)
NamesT(dims, units) == /\ dims = [d \in Dims(mesh) |-> <<1, d>>] /\ units = [d \in Dims(mesh) |-> <<1, d>>]

StepKMesh == /\ Ev.k = "kmesh"
             /\ act' = <<"mesh_fftn", Ev.real>>
             /\ obs' = Ev.km
             /\ KVerdicts(Ev.km, Ev.real, Ev.exact)
             /\ Verd(NamesT(Ev.dims, Ev.units), <<"C11_KCentres", "names">>)

StepBasis == /\ Ev.k = "basis"
             /\ act' = <<"fft_basis", Ev.real, Ev.r, Ev.c>>
             /\ obs' = Ev.probes
             /\ KVerdicts(Ev.km, Ev.real, TRUE)
             /\ Verd(Ev.exact, <<"C11_PhaseTable", "not-a-root-of-unity">>)
             /\ Verd(Ev.L = BigL(mesh), <<"trace", "lcm">>)
             /\ LET L == BigL(mesh) IN
                (CountsOK(Ev.km, Ev.real) /\ Ev.exact) =>
                   /\ Verd(\A p \in DOMAIN Ev.probes :
                              Ev.probes[p][2] = Expo(mesh, L, FwdSrc(mesh, Ev.real, Ev.probes[p][1]), Ev.r),
                           <<"C11_PhaseTable", "values">>)
                   (* the property on the observed centres: phase = -2 pi k.r with k the observed k-cell centre *)
                   /\ Verd(\A p \in DOMAIN Ev.probes :
                              (Ev.probes[p][2] - KDotR(mesh, L, Ev.km, Ev.probes[p][1], Ev.r)) % L = 0,
                           <<"C11_PhaseTable", "clause">>)

SumsOf(a) == [c \in 1 .. nv |-> <<Sum([k \in DOMAIN a |-> a[k][c][1]]), Sum([k \in DOMAIN a |-> a[k][c][2]])>>]
StepZero == /\ Ev.k = "zero"
            /\ act' = <<"zero_freq", Ev.real>>
            /\ obs' = Ev.v
            /\ Verd(Ev.idx # <<>>, <<"C11_ZeroFreqIsSum", "no-cell-at-zero">>)
            /\ Verd((Ev.idx # <<>> /\ Ev.kn = KMesh(mesh, Ev.real).n) => Ev.idx = ZeroIdx(KMesh(mesh, Ev.real)),
                    <<"C11_ZeroFreqIsSum", "index">>)
            /\ Verd(Ev.idx # <<>> => (Ev.exact /\ Ev.v = SumsOf(In1(Ev.real))), <<"C11_ZeroFreqIsSum", "values">>)

(* exact evaluation of a sparse sum of roots of unity when L divides 4: w^t = (-i)^(4t/L) *)
IPow(q) == CASE q % 4 = 0 -> <<1, 0>> [] q % 4 = 1 -> <<0, -1>> [] q % 4 = 2 -> <<-1, 0>> [] q % 4 = 3 -> <<0, 1>>
GMul(x, y) == <<x[1] * y[1] - x[2] * y[2], x[1] * y[2] + x[2] * y[1]>>
GEval(terms, L) == LET g(t) == GMul(CoefOf(terms, t), IPow(t * (4 \div L)))
                   IN <<Sum([t \in 1 .. L |-> g(t - 1)[1]]), Sum([t \in 1 .. L |-> g(t - 1)[2]])>>
StepExact == /\ Ev.k = "exact"
             /\ act' = <<"fft_linear", Ev.real, <<Ev.a, Ev.b>>>>
             /\ obs' = Ev.v
             /\ LET L  == BigL(mesh)
                    sp == Spectrum(mesh, Ev.real, LinArr(Ev.a, In1(Ev.real), Ev.b, In2(Ev.real)))
                IN /\ Verd(4 % L = 0, <<"trace", "not-an-exact-mesh">>)
                   /\ Verd(Ev.kn = KMesh(mesh, Ev.real).n /\ Len(Ev.v) = Len(sp), <<"C11_KCentres", "counts">>)
                   /\ Verd(Ev.exact, <<"C11_PhaseTable", "not-gaussian-integers">>)
                   /\ Verd((4 % L = 0 /\ Len(Ev.v) = Len(sp) /\ Ev.exact) =>
                              \A k \in DOMAIN sp : \A c \in 1 .. nv : Ev.v[k][c] = GEval(sp[k][c], L),
                           <<"C11_PhaseTable", "values">>)

RecoversT(way) == way # "real" \/ Last(mesh.n) % 2 = 0
StepRound == /\ Ev.k = "round"
             /\ act' = <<"round_trip", Ev.way>>
             /\ obs' = Ev.v
             /\ LET inp == In1(Ev.way # "full") IN
                RecoversT(Ev.way) =>
                  /\ Verd(Ev.ok, <<"C11_InverseUndoes", "raises">>)
                  /\ Verd(Ev.ok => (Ev.exact /\ Ev.centred /\ Ev.n = mesh.n /\ Ev.edge = [d \in Dims(mesh) |-> Edge(mesh, d)]),
                          <<"C11_InverseUndoes", "mesh">>)
                  /\ Verd((Ev.ok /\ Ev.exact /\ Ev.n = mesh.n) => (Ev.vexact /\ Ev.v = inp), <<"C11_InverseUndoes", "values">>)
                  /\ Verd(Ev.ok => /\ Ev.dims = Dims0(mesh) /\ Ev.units = Dims0(mesh)
                                   /\ Ev.vdims = (IF HasLabT THEN Lab0(nv) ELSE <<>>)
                                   /\ Ev.vmap = [c \in DOMAIN vmap |-> <<0, vmap[c]>>],
                          <<"C11_LabelsRenamed", "labels">>)

IsNyquist(j) == LET d == ND(mesh) IN mesh.n[d] > 1 /\ mesh.n[d] % 2 = 0 /\ j[d] = Half(mesh.n[d])
StepHalf == /\ Ev.k = "half"
            /\ act' = <<"real_half">>
            /\ obs' = Ev.probes
            /\ Verd(\A p \in DOMAIN Ev.probes :
                       LET j == Ev.probes[p][1]  jf == Ev.probes[p][2] IN
                       IF jf = <<>> THEN IsNyquist(j) ELSE (IsNyquist(j) \/ jf = MatchIdx(mesh, j)),
                    <<"C11_RealIsHalfOfFull", "index">>)
            /\ Verd(\A p \in DOMAIN Ev.probes : Ev.probes[p][3], <<"C11_RealIsHalfOfFull", "values">>)

StepLin == /\ Ev.k = "lin"
           /\ act' = <<"fft_linear", Ev.real, <<Ev.a, Ev.b>>>>
           /\ obs' = Ev.ok
           /\ Verd(Ev.ok, <<"C11_Linear", "residual">>)

StepLabels == /\ Ev.k = "labels"
              /\ act' = <<"fft_labels", Ev.real>>
              /\ obs' = Ev.vdims
              /\ Verd(NamesT(Ev.dims, Ev.units), <<"C11_KCentres", "names">>)
              /\ Verd(LabelsOK([vdims |-> Ev.vdims, vmap |-> Ev.vmap, dims |-> Ev.dims], nv, HasLabT, vmap),
                      <<"C11_LabelsRenamed", "labels">>)

(* a call inside the property's domain raised *)
StepRaised == /\ Ev.k = "raised"
              /\ act' = <<"raised", Ev.real>>
              /\ obs' = Ev.exc
              /\ Verd(FALSE, <<"C11_PhaseTable", "raises">>)

TNext == /\ l < Len(Traces[tid].ev)
         /\ (StepKMesh \/ StepBasis \/ StepZero \/ StepExact \/ StepRound \/ StepHalf \/ StepLin \/ StepLabels \/ StepRaised)
         /\ l' = l + 1
         /\ UNCHANGED <<mesh, nv, vmap, pat, tid>>
         /\ Verd(Len(TAC) = ProdSeq(mesh.n) /\ Len(TBC) = ProdSeq(mesh.n) /\ NV(TAC) = nv, <<"trace", "array-shape">>)
TSpec == TInit /\ [][TNext]_tvars
=============================================================================
