------------------------------ MODULE MC_C20 ------------------------------
EXTENDS C20
Shapes_quick    == {<<3, 2>>, <<1, 3>>, <<2, 2>>}
Shapes_thorough == {<<3, 2>>, <<1, 3>>, <<4, 3>>, <<2, 2>>, <<2, 4>>, <<1, 1>>}
CProf_quick     == {<<12, 24>>}
CProf_thorough  == {<<12, 24>>, <<24, 12>>}
LoProf_quick    == {<<-12, 24>>}
LoProf_thorough == {<<-12, 24>>}
Masks_quick     == {"all", "hole", "alt"}
Masks_thorough  == {"all", "hole", "alt", "none"}
(* 1/4 nm (cells 3-6 nm); 25 nm (cells 0.3-0.6 um: edges on both sides of 1 um); 1/8 m (exactly representable);  *)
(* 250 m (km); 1/4 um; 2 mm                                                                                      *)
Sc(a, b, k) == [qm |-> <<a, b>>, k |-> k]
Scales_quick    == <<Sc(1, 4, -3), Sc(25, 1, -3), Sc(1, 8, 0), Sc(250, 1, 0)>>
Scales_thorough == <<Sc(1, 4, -3), Sc(25, 1, -3), Sc(1, 8, 0), Sc(250, 1, 0), Sc(1, 4, -2), Sc(2, 1, -1), Sc(7, 100, -3)>>
Aux_all         == {"none", "same", "coarse", "fine"}
Maps_quick      == {"id", "swap", "p4", "partial", "none"}
Maps_thorough   == {"id", "swap", "p3", "p4", "p5", "p6", "partial", "none"}
Names_all       == {1, 2}
Mult_quick      == {DFLT, -1}
Mult_thorough   == {DFLT, -1, 1}
Bad_all         == {<<3>>, <<2, 2, 1>>}
=============================================================================
