SPECIFICATION TSpec
CONSTANTS
  Shapes = {}
  CfgPats = {}
  WPairs = {}
  Opts = {}
CHECK_DEADLOCK FALSE
