SPECIFICATION TSpec
CONSTANTS
  MaxN = 1
  Prof = {}
  Layouts = {}
  Vecs = {}
  Factors = {}
  Refs = {}
  RotKs = {}
  Short = {}
  MaxDepth = 0
  QueryDepth = 0
  DeepND = 0
  FullProbes = FALSE
CHECK_DEADLOCK FALSE
