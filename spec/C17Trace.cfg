SPECIFICATION TSpec
CONSTANTS
  Configs = {}
CHECK_DEADLOCK FALSE
