SPECIFICATION Spec
CHECK_DEADLOCK FALSE
INVARIANT C13_RejectBothForms
INVARIANT C13_RejectUnchanged
INVARIANT C13_CopyLeavesOriginal
INVARIANT C13_RegionNormal
INVARIANT C13_InplaceReturnsSelf
INVARIANT C13_InplaceEqualsCopy
