SPECIFICATION Spec
CONSTANTS
  Fields <- Fields_thorough
  IU = 8
CHECK_DEADLOCK FALSE
INVARIANT TypeOK
INVARIANT C10_FileHoldsState
INVARIANT C10_Lossless
INVARIANT C10_RealStaysReal
INVARIANT C10_LegacyReadable
