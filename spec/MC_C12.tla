------------------------------ MODULE MC_C12 ------------------------------
EXTENDS C12
H(a, b) == <<a, b>>
Scen12_quick == {"region2", "mesh2", "field2", "scalar2", "unmapped", "perm231", "perm312", "partial3", "field4", "scalar3"}
Scen12_all == {"region2", "region3", "region4", "mesh2", "mesh3", "field2", "field3", "scalar2", "scalar3", "unmapped", "partial3", "field4"}
                 \cup {PermName(p) : p \in Perm3}
RefPts12 == {<<>>, <<R(100), R(-50), R(25), R(7)>>, <<H(1, 2), H(3, 2), H(-5, 2), H(1, 2)>>, <<R(0), R(-4), R(1), R(-3)>>}
RefPts12_small == {<<>>, <<H(1, 2), H(3, 2), H(-5, 2), H(1, 2)>>}
RotKs12 == -5 .. 5
RotKs12_small == {1, 2}
Scen12_d2 == {"field2", "perm231", "mesh2"}
Scen12_d2t == {"field2", "perm231", "mesh2", "scalar3", "partial3", "field4"}
None == {}
Bad12 == {"same-axis", "unknown-axis", "float-k"}
=============================================================================
