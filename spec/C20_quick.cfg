SPECIFICATION Spec
CONSTANTS
  Shapes <- Shapes_quick
  CProf <- CProf_quick
  LoProf <- LoProf_quick
  Masks <- Masks_quick
  ScaleSeq <- Scales_quick
  Diagonal = TRUE
  AuxKinds <- Aux_all
  MapKinds <- Maps_quick
  NameSchemes <- Names_all
  MultOpts <- Mult_quick
  PairOpts = "few"
  BadShapes <- Bad_all
CHECK_DEADLOCK FALSE
INVARIANT TypeOK
INVARIANT C20_ImageShowsCellAtPoint
INVARIANT C20_ArrowsAtCentres
INVARIANT C20_ContourAtCentres
INVARIANT C20_AxisLabels
INVARIANT C20_Refusals
PROPERTY C20_PlotMutatesNothing
