SPECIFICATION TSpec
CONSTANTS
  Fields = {}
  FaultFields = {}
  ZeroId = 0
  HdrCuts = {0, 1, 2, 3}
  ExciseMax = 1000
CHECK_DEADLOCK FALSE
