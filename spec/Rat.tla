------------------------------- MODULE Rat -------------------------------
(* Exact rationals as reduced pairs <<num, den>> with den > 0, plus integer helpers.   *)
(* TLC integers are 32 bit and TLC *raises* on overflow, so a bound that is too        *)
(* generous is a machinery error, never a wrong verdict.                               *)
EXTENDS Integers, Sequences, FiniteSets

Abs(a) == IF a < 0 THEN -a ELSE a
Sgn(a) == IF a < 0 THEN -1 ELSE IF a = 0 THEN 0 ELSE 1
Min2(a, b) == IF a <= b THEN a ELSE b
Max2(a, b) == IF a >= b THEN a ELSE b

RECURSIVE GCD(_, _)
GCD(a, b) == IF b = 0 THEN a ELSE GCD(b, a % b)

(* floor and ceiling division for any sign of a, b > 0.  TLC's \div is floor already   *)
FloorDiv(a, b) == a \div b
CeilDiv(a, b)  == -((-a) \div b)
Mod(a, b)      == a % b

RNorm(n, d) == LET s == IF d < 0 THEN -1 ELSE 1
                   g == GCD(Abs(n), Abs(d))
               IN IF n = 0 THEN <<0, 1>> ELSE <<(s * n) \div g, (s * d) \div g>>
R(n)        == <<n, 1>>
RZero       == <<0, 1>>
ROne        == <<1, 1>>
RAdd(a, b)  == RNorm(a[1] * b[2] + b[1] * a[2], a[2] * b[2])
RNeg(a)     == <<-a[1], a[2]>>
RSub(a, b)  == RAdd(a, RNeg(b))
RMul(a, b)  == RNorm(a[1] * b[1], a[2] * b[2])
RDiv(a, b)  == RNorm(a[1] * b[2], a[2] * b[1])
RLess(a, b) == a[1] * b[2] < b[1] * a[2]
RLeq(a, b)  == a[1] * b[2] <= b[1] * a[2]
REq(a, b)   == a[1] * b[2] = b[1] * a[2]
RMin(a, b)  == IF RLeq(a, b) THEN a ELSE b
RMax(a, b)  == IF RLeq(a, b) THEN b ELSE a
RAbs(a)     == <<Abs(a[1]), a[2]>>
RFloor(a)   == a[1] \div a[2]
RCeil(a)    == -((-a[1]) \div a[2])
RIsInt(a)   == a[2] = 1
RSgn(a)     == Sgn(a[1])

(* vectors (sequences) of rationals *)
RVAdd(u, v) == [i \in DOMAIN u |-> RAdd(u[i], v[i])]
RVSub(u, v) == [i \in DOMAIN u |-> RSub(u[i], v[i])]
RVOfInts(u) == [i \in DOMAIN u |-> R(u[i])]

(* sums and products over sequences of integers *)
RECURSIVE SumSeq(_)
SumSeq(s) == IF s = <<>> THEN 0 ELSE Head(s) + SumSeq(Tail(s))
RECURSIVE ProdSeq(_)
ProdSeq(s) == IF s = <<>> THEN 1 ELSE Head(s) * ProdSeq(Tail(s))
RECURSIVE SumSet(_)
SumSet(S) == IF S = {} THEN 0 ELSE LET x == CHOOSE y \in S : TRUE IN x + SumSet(S \ {x})
=============================================================================
