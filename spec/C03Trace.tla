------------------------------ MODULE C03Trace ------------------------------
(* Channel T for C03: expression programs executed on the real library (random meshes  *)
(* of 1-4 dimensions, 1-4 components, int/float/complex data, random masks, numbers,   *)
(* constant vectors, per-cell arrays) are checked call by call.  The machine's         *)
(* variables are bound to the *observed* registers (every operand and result projected *)
(* to exact Gaussian rationals by the harness), the clauses C03_* are evaluated on     *)
(* them, and the observed result is compared with the specification's own operators.   *)
(* Verdicts are total: a disagreement prints one VERDICT line and the trace goes on    *)
(* with the observed register adopted.                                                  *)
EXTENDS C03, Json, IOUtils

VARIABLES tid,    \* id of the trace this behaviour replays
          l,      \* number of events consumed
          rest,   \* the events still to be consumed (the file is deserialised once, in TInit)
          inb,    \* the last consumed event is inside the arithmetic bounds of the model
          fin     \* the clauses have been evaluated on the last state
tvars == <<init, regs, prog, obs, tid, l, rest, inb, fin>>

Traces == JsonDeserialize(IOEnv.TRACE_FILE)
VerdAt(c, name, evno) == IF c THEN TRUE ELSE PrintT(<<"VERDICT", tid, evno, name>>)
Verd(c, name) == VerdAt(c, name, l + 1)

SeqToSet(s) == {s[k] : k \in DOMAIN s}
(* expected values small enough that the harness must have been able to project them *)
SmallVals(r) == \A t \in Trip(r) : t[3] <= 64 /\ Abs(t[1]) <= 1000 * t[3] /\ Abs(t[2]) <= 1000 * t[3]

TInit == LET TT == Traces
         IN \E k \in 1 .. Len(TT) :
               /\ tid = TT[k].id
               /\ l = 0
               /\ rest = TT[k].ev
               /\ init = <<<<>>, [d |-> 0, x |-> {}]>>
               /\ regs = TT[k].regs
               /\ prog = <<>>
               /\ obs = [ok |-> TRUE, live |-> TRUE, r |-> 0, ch |-> {}]
               /\ inb = FALSE /\ fin = FALSE

(* the clauses of the property evaluated on the observed registers: on the state the    *)
(* last event produced (TLC evaluates primed operator applications very slowly, so the  *)
(* evaluation happens at the beginning of the following step)                           *)
ClausesOnObserved ==
   /\ (l > 0 /\ inb) => /\ VerdAt(C03_Cellwise, "C03_Cellwise", l)
                        /\ VerdAt(C03_StackComponents, "C03_StackComponents", l)
   /\ l > 0 => VerdAt(C03_RejectMismatch, "C03_RejectMismatch", l)

TFinish == /\ rest = <<>> /\ ~fin
           /\ ClausesOnObserved
           /\ fin' = TRUE
           /\ UNCHANGED <<init, regs, prog, obs, tid, l, rest, inb>>

TStep ==
   /\ rest # <<>>
   /\ ClausesOnObserved
   /\ LET e   == Head(rest)
          ins == e.ins
          inm == InModel(regs, ins)
          acc == Accepted(regs, ins)
      IN /\ prog' = Append(prog, ins)
         /\ regs' = IF e.ok THEN Append(regs, e.reg) ELSE regs
         /\ obs'  = IF e.ok THEN [ok |-> TRUE, live |-> TRUE, r |-> Len(regs) + 1, reg |-> e.reg, ch |-> SeqToSet(e.ch)] ELSE Rej
         (* accepted iff the operands live on one mesh with compatible component counts *)
         /\ Verd(e.ok => acc, "C03_RejectMismatch")
         /\ Verd(acc => e.ok, "C03_Cellwise-raises")
         (* the observed result against the specification's own operators *)
         /\ IF inm /\ acc /\ e.ok
            THEN LET exp == ResultReg(regs, ins)
                 IN /\ Verd(exp.nv = e.reg.nv /\ Len(e.reg.val) = Len(exp.val) /\ e.reg.m = exp.m, "C03_Cellwise-shape")
                    /\ Verd((exp.vx /\ e.reg.vx) => exp.val = e.reg.val, "C03_Cellwise")
                    /\ Verd((exp.vx /\ ~e.reg.vx) => ~SmallVals(exp), "C03_Cellwise-unprojectable")
            ELSE TRUE
         /\ inb' = (inm /\ acc)
         /\ Verd(e.ch = <<>>, "C03_OperandsUnchanged")
         (* a op b against b op a, both as observed *)
         /\ IF e.sw.has
            THEN /\ Verd(e.sw.ok = e.ok, "C03_Commutes")
                 /\ Verd((e.sw.ok /\ e.ok) => /\ e.sw.reg.m = e.reg.m /\ e.sw.reg.nv = e.reg.nv /\ e.sw.reg.valid = e.reg.valid
                                              /\ e.sw.reg.vdims = e.reg.vdims /\ e.sw.reg.map = e.reg.map
                                              /\ (e.sw.reg.vx /\ e.reg.vx) => e.sw.reg.val = e.reg.val
                                              /\ e.sw.reg.vx = e.reg.vx, "C03_Commutes")
            ELSE TRUE
   /\ l' = l + 1
   /\ rest' = Tail(rest)
   /\ UNCHANGED <<init, tid, fin>>
TNext == TStep \/ TFinish
TSpec == TInit /\ [][TNext]_tvars
=============================================================================
