-------------------------------- MODULE C18 --------------------------------
(* C18 - arbitrary rotations (FieldRotator) rotate the vectors and resample the        *)
(* positions consistently.                                                             *)
(*                                                                                     *)
(* Rotations are elements of SO(3,Q) held as an integer matrix m over a common         *)
(* positive denominator d (reduced: gcd of all entries and d is 1), so R = m / d.      *)
(* All positions are measured from the centre of the original region in HALF lattice   *)
(* units ("X units": X = 2 (x - centre)); the original region is |X_j| <= E_j with     *)
(* E_j = c_j n_j, its cell centres are X_j = (2 s_j + 1 - n_j) c_j.                    *)
(*                                                                                     *)
(* State: the original field (mesh, fld), the program of public calls made on one      *)
(* FieldRotator (prog), the accumulated rotation (rot; FieldRotator._rotation), the    *)
(* last call (act) and what FieldRotator.field must show after it (obs).               *)
EXTENDS Cells, TLC

CONSTANTS Configs,     \* set of <<mesh, fld>> pairs (rotatable and refusal configurations)
          Gens,        \* generator names usable in Rotate
          TNSet,       \* explicit target resolutions tried with every rotation
          Gens3,       \* generators usable as the third rotation of a program
          PostGens,    \* generators tried after a clear (one rotation)
          MaxDepth,    \* max rotations since the last clear
          MaxD         \* max common denominator of the accumulated rotation

VARIABLES mesh, fld, prog, rot, act, obs
vars == <<mesh, fld, prog, rot, act, obs>>

(* a refusal: at = "constructor" when FieldRotator(field) itself must raise (the cases its  *)
(* checks name: dimension, component count, a component without an axis of the region),  *)
(* "any" when the property only says "refused" and the code raises at the first rotate()  *)
(* (two components mapped to the same axis)                                               *)
Rej(at) == [ok |-> FALSE, at |-> at]

(* ---- integer helpers --------------------------------------------------------------- *)
LCM(a, b)  == (a \div GCD(a, b)) * b
LCM3(s)    == LCM(LCM(s[1], s[2]), s[3])
D3         == 1 .. 3
IsPerm3(p) == Len(p) = 3 /\ {p[k] : k \in D3} = D3

(* ---- rotations --------------------------------------------------------------------- *)
IdM   == <<<<1, 0, 0>>, <<0, 1, 0>>, <<0, 0, 1>>>>
IdRot == [m |-> IdM, d |-> 1]
MMul(A, B) == [i \in D3 |-> [j \in D3 |-> A[i][1] * B[1][j] + A[i][2] * B[2][j] + A[i][3] * B[3][j]]]
MT(A)      == [i \in D3 |-> [j \in D3 |-> A[j][i]]]
MScal(k)   == [i \in D3 |-> [j \in D3 |-> IF i = j THEN k ELSE 0]]
Det3(A)    == A[1][1] * (A[2][2] * A[3][3] - A[2][3] * A[3][2])
            - A[1][2] * (A[2][1] * A[3][3] - A[2][3] * A[3][1])
            + A[1][3] * (A[2][1] * A[3][2] - A[2][2] * A[3][1])
GcdRow(r)  == GCD(GCD(Abs(r[1]), Abs(r[2])), Abs(r[3]))
GcdM(A)    == GCD(GCD(GcdRow(A[1]), GcdRow(A[2])), GcdRow(A[3]))
Reduce(m, d) == LET g == GCD(GcdM(m), d)
                IN [m |-> [i \in D3 |-> [j \in D3 |-> m[i][j] \div g]], d |-> d \div g]
RMulRot(A, B) == Reduce(MMul(A.m, B.m), A.d * B.d)          \* A after B  (A . B)

(* rotation by the angle with (cos, sin) = (c, s) / den about coordinate axis ax *)
AxisRot(ax, c, s, den) ==
   [m |-> CASE ax = 1 -> <<<<den, 0, 0>>, <<0, c, -s>>, <<0, s, c>>>>
            [] ax = 2 -> <<<<c, 0, s>>, <<0, den, 0>>, <<-s, 0, c>>>>
            [] ax = 3 -> <<<<c, -s, 0>>, <<s, c, 0>>, <<0, 0, den>>>>,
    d |-> den]
(* generator table: name -> <<axis, cos numerator, sin numerator, denominator>>.        *)
(* q: quarter turn, h: half turn, p: (3,4)/5, n: (3,-4)/5, r: (4,3)/5, t: (5,12)/13     *)
GenSpec(g) ==
   CASE g = "qx" -> <<1, 0, 1, 1>>   [] g = "qy" -> <<2, 0, 1, 1>>   [] g = "qz" -> <<3, 0, 1, 1>>
     [] g = "hx" -> <<1, -1, 0, 1>>  [] g = "hy" -> <<2, -1, 0, 1>>  [] g = "hz" -> <<3, -1, 0, 1>>
     [] g = "px" -> <<1, 3, 4, 5>>   [] g = "py" -> <<2, 3, 4, 5>>   [] g = "pz" -> <<3, 3, 4, 5>>
     [] g = "nx" -> <<1, 3, -4, 5>>  [] g = "ny" -> <<2, 3, -4, 5>>  [] g = "nz" -> <<3, 3, -4, 5>>
     [] g = "rx" -> <<1, 4, 3, 5>>   [] g = "ry" -> <<2, 4, 3, 5>>   [] g = "rz" -> <<3, 4, 3, 5>>
     [] g = "tx" -> <<1, 5, 12, 13>> [] g = "ty" -> <<2, 5, 12, 13>> [] g = "tz" -> <<3, 5, 12, 13>>
GenRot(g) == LET s == GenSpec(g) IN AxisRot(s[1], s[2], s[3], s[4])
IsQuarter(g) == GenSpec(g)[4] = 1 /\ GenSpec(g)[2] = 0

(* the rotations applied since the last clear, oldest first *)
RECURSIVE SinceClear(_)
SinceClear(p) == IF p = <<>> THEN <<>>
                 ELSE IF p[Len(p)] = "clear" THEN <<>>
                 ELSE Append(SinceClear(SubSeq(p, 1, Len(p) - 1)), p[Len(p)])
(* later rotations are applied AFTER earlier ones: R = G_k . ... . G_2 . G_1 *)
RECURSIVE FoldRot(_)
FoldRot(h) == IF h = <<>> THEN IdRot
              ELSE LET A == GenRot(h[Len(h)])
                       B == FoldRot(SubSeq(h, 1, Len(h) - 1))
                   IN [m |-> MMul(A.m, B.m), d |-> A.d * B.d]
NClears(p) == Cardinality({k \in DOMAIN p : p[k] = "clear"})

(* ---- the field --------------------------------------------------------------------- *)
(* fld == [kind, nv, v, map, a, b, src]                                                *)
(*   kind "vec"  : uniform vector v (nv components), component k lies along axis map[k]*)
(*   kind "aff"  : scalar  a . X + b  at the point X (X units), nv = 1                 *)
(*   kind "cells": arbitrary integer cell values src (flat array, Cells.tla convention)*)
(* map[k] = 0 means "component k has no axis"; nv outside {1,3}, a mesh that is not    *)
(* 3-d or a map that is not a permutation make the configuration a refusal.            *)
Rotatable(me, f) == /\ Len(me.n) = 3
                    /\ f.nv \in {1, 3}
                    /\ (f.nv = 3 => IsPerm3(f.map))
RefusedAt(me, f) == IF Len(me.n) # 3 \/ f.nv \notin {1, 3} \/ (\E k \in DOMAIN f.map : f.map[k] = 0)
                    THEN "constructor" ELSE "any"
E(me, j)     == me.c[j] * me.n[j]
CentreX(me, s) == [j \in D3 |-> (2 * s[j] + 1 - me.n[j]) * me.c[j]]
AffAt(f, X)  == f.a[1] * X[1] + f.a[2] * X[2] + f.a[3] * X[3] + f.b
SrcVal(me, f, s) ==
   CASE f.kind = "vec"   -> f.v
     [] f.kind = "aff"   -> <<AffAt(f, CentreX(me, s))>>
     [] f.kind = "cells" -> At(me.n, f.src, s)
(* R acting on component sequences through the component -> axis map *)
RotVecNum(ro, f, w) == IF f.nv = 1 THEN w
                        ELSE [k \in D3 |-> ro.m[f.map[k]][f.map[1]] * w[1]
                                         + ro.m[f.map[k]][f.map[2]] * w[2]
                                         + ro.m[f.map[k]][f.map[3]] * w[3]]
RotVec(ro, f, w)    == LET u == RotVecNum(ro, f, w)
                        IN [k \in DOMAIN u |-> IF f.nv = 1 THEN R(u[k]) ELSE RNorm(u[k], ro.d)]

(* ---- geometry of the rotated mesh -------------------------------------------------- *)
(* half extent of the bounding box along i, X units, numerator over ro.d *)
Hnum(me, ro, i) == Abs(ro.m[i][1]) * E(me, 1) + Abs(ro.m[i][2]) * E(me, 2) + Abs(ro.m[i][3]) * E(me, 3)
(* target centre t (0-based index in the tn mesh): p_i = H_i (2 t_i + 1 - tn_i) / tn_i;      *)
(* back-rotated centre q = R^T p as integer numerators over the common denominator Qden *)
Qden(ro, tn) == ro.d * ro.d * LCM3(tn)
QVec(me, ro, tn, t) ==
   LET L == LCM3(tn)
       P == [i \in D3 |-> Hnum(me, ro, i) * (2 * t[i] + 1 - tn[i]) * (L \div tn[i])]     \* over ro.d * L
   IN [j \in D3 |-> ro.m[1][j] * P[1] + ro.m[2][j] * P[2] + ro.m[3][j] * P[3]]

(* q (numerators) over qd: at least one cell inside / outside the original region *)
InsideOneQ(me, q, qd) == \A j \in D3 : Abs(q[j]) <= (E(me, j) - 2 * me.c[j]) * qd
OutsideQ(me, q, qd)   == \E j \in D3 : Abs(q[j]) > E(me, j) * qd
(* q is exactly the centre of a source cell; SrcIdxQ is that cell *)
OnCentreQ(me, q, qd)  == \A j \in D3 :
      /\ q[j] % (qd * me.c[j]) = 0
      /\ ((q[j] \div (qd * me.c[j])) + me.n[j] - 1) % 2 = 0
      /\ Abs(q[j]) < E(me, j) * qd
SrcIdxQ(me, q, qd)    == [j \in D3 |-> ((q[j] \div (qd * me.c[j])) + me.n[j] - 1) \div 2]
InsideOne(me, ro, tn, t) == InsideOneQ(me, QVec(me, ro, tn, t), Qden(ro, tn))
Outside(me, ro, tn, t)   == OutsideQ(me, QVec(me, ro, tn, t), Qden(ro, tn))
SrcIdx(me, ro, tn, t)    == SrcIdxQ(me, QVec(me, ro, tn, t), Qden(ro, tn))

IsLattice(ro) == ro.d = 1
PermN(me, ro) == [i \in D3 |-> Abs(ro.m[i][1]) * me.n[1] + Abs(ro.m[i][2]) * me.n[2] + Abs(ro.m[i][3]) * me.n[3]]
IsCubic(me)    == me.c[1] = me.c[2] /\ me.c[2] = me.c[3]

(* classes: 0 outside (must be zero), 1 at least one cell inside (must be R.interp),    *)
(*          2 band (unconstrained), 3 band but exactly on a source centre,              *)
(*          4 inside with arbitrary cell values (value given by C18Interp, if at all)   *)
(* ---- trilinear interpolation of arbitrary cell values at q ------------------------- *)
(* along axis j the index-space coordinate of q is u = (q/c + n - 1)/2 = un/ud; the cell  *)
(* pair is (s0, s0+1) with s0 = floor(u) clipped to the outermost centres, the weight of  *)
(* s0+1 is a/b (reduced), of s0 it is (b-a)/b                                             *)
InterpAxis(me, q, qd, j) ==
   LET ud == 2 * me.c[j] * qd
       un == q[j] + (me.n[j] - 1) * me.c[j] * qd
       s0 == Clip(un \div ud, 0, me.n[j] - 2)
       wn == un - s0 * ud
       g  == GCD(Abs(wn), ud)
   IN [s0 |-> s0, a |-> wn \div g, b |-> ud \div g]
InterpDen(ax) == ax[1].b * ax[2].b * ax[3].b
InterpFits(ax) == ax[1].b <= 3000 /\ ax[2].b <= 3000 /\ ax[3].b <= 3000 /\ ax[1].b * ax[2].b <= 2000000
                  /\ (ax[1].b * ax[2].b) * ax[3].b <= 10000000
Bits == <<<<0, 0, 0>>, <<1, 0, 0>>, <<0, 1, 0>>, <<1, 1, 0>>, <<0, 0, 1>>, <<1, 0, 1>>, <<0, 1, 1>>, <<1, 1, 1>>>>
(* numerators (over InterpDen) of the interpolated components *)
InterpNum(me, f, ax) ==
   LET W(j, bit) == IF bit = 1 THEN ax[j].a ELSE ax[j].b - ax[j].a
       corner(e) == <<ax[1].s0 + Bits[e][1], ax[2].s0 + Bits[e][2], ax[3].s0 + Bits[e][3]>>
       wt(e) == W(1, Bits[e][1]) * W(2, Bits[e][2]) * W(3, Bits[e][3])
   IN [k \in 1 .. f.nv |-> SumSeq([e \in 1 .. 8 |-> IF wt(e) = 0 THEN 0 ELSE wt(e) * SrcVal(me, f, corner(e))[k]])]
(* Q applied to the interpolated original *)
InterpRot(me, f, ro, ax) ==
   LET num == InterpNum(me, f, ax)
       D   == InterpDen(ax)
       u   == RotVecNum(ro, f, num)
   IN [k \in 1 .. f.nv |-> RNorm(u[k], IF f.nv = 1 THEN D ELSE D * ro.d)]
SmallValues(f) == f.kind # "cells" \/ \A k \in DOMAIN f.src : \A c \in DOMAIN f.src[k] : Abs(f.src[k][c]) <= 10

CellObsQ(me, f, ro, q, qd, uv) ==
   IF OutsideQ(me, q, qd) THEN [cls |-> 0, val |-> [k \in 1 .. f.nv |-> RZero]]
   ELSE IF OnCentreQ(me, q, qd)
        THEN [cls |-> IF InsideOneQ(me, q, qd) THEN 1 ELSE 3,
              val |-> RotVec(ro, f, SrcVal(me, f, SrcIdxQ(me, q, qd)))]
   ELSE IF ~InsideOneQ(me, q, qd) THEN [cls |-> 2, val |-> <<>>]
   ELSE IF f.kind = "vec" THEN [cls |-> 1, val |-> uv]
   ELSE IF f.kind = "aff"
        THEN [cls |-> 1, val |-> <<RNorm(f.a[1] * q[1] + f.a[2] * q[2] + f.a[3] * q[3] + f.b * qd, qd)>>]
   ELSE LET ax == [j \in D3 |-> InterpAxis(me, q, qd, j)] IN
        IF ro.d <= 5 /\ SmallValues(f) /\ InterpFits(ax)
        THEN [cls |-> 1, val |-> InterpRot(me, f, ro, ax)]
        ELSE [cls |-> 4, val |-> <<>>]       \* inside, but the exact value does not fit 32-bit arithmetic
UV(ro, f) == IF f.kind = "vec" THEN RotVec(ro, f, f.v) ELSE <<>>
CellObs(me, f, ro, tn, t) == CellObsQ(me, f, ro, QVec(me, ro, tn, t), Qden(ro, tn), UV(ro, f))

Observe(me, f, ro, tn) ==
   LET L  == LCM3(tn)
       qd == ro.d * ro.d * L
       H  == [i \in D3 |-> Hnum(me, ro, i)]
       W  == [i \in D3 |-> H[i] * (L \div tn[i])]
       uv == UV(ro, f)
       Q(t) == LET P == [i \in D3 |-> W[i] * (2 * t[i] + 1 - tn[i])]
               IN [j \in D3 |-> ro.m[1][j] * P[1] + ro.m[2][j] * P[2] + ro.m[3][j] * P[3]]
   IN [ok    |-> TRUE,
       n     |-> tn,
       half  |-> [i \in D3 |-> RNorm(H[i], 2 * ro.d)],       \* lattice units
       cells |-> [k \in 1 .. ProdSeq(tn) |-> CellObsQ(me, f, ro, Q(Unflat(tn, k - 1)), qd, uv)]]
(* the unrotated rotator shows the original field itself *)
Original(me, f) ==
   [ok    |-> TRUE,
    n     |-> me.n,
    half  |-> [i \in D3 |-> RNorm(E(me, i), 2)],
    cells |-> [k \in 1 .. ProdSeq(me.n) |-> [cls |-> 3, val |-> RotVec(IdRot, f, SrcVal(me, f, Unflat(me.n, k - 1)))]]]

(* ---- actions ----------------------------------------------------------------------- *)
Init == /\ \E cf \in Configs : mesh = cf[1] /\ fld = cf[2]
        /\ prog = <<>>
        /\ rot = IdRot
        /\ act = <<"new">>
        /\ obs = IF Rotatable(mesh, fld) THEN Original(mesh, fld) ELSE Rej(RefusedAt(mesh, fld))

TargetNs(me, r) == TNSet \cup (IF IsLattice(r) THEN {PermN(me, r)} ELSE {})

(* FieldRotator.rotate(method, ..., n=tn): left multiplication, then region, mesh, values *)
Rotate == \E g \in Gens :
            LET r2 == RMulRot(GenRot(g), rot) IN
            /\ obs.ok
            /\ IF NClears(prog) = 0 THEN Len(prog) < MaxDepth /\ (Len(prog) >= 2 => g \in Gens3)
                                    ELSE prog[Len(prog)] = "clear" /\ g \in PostGens
            /\ r2.d <= MaxD
            /\ \E tn \in TargetNs(mesh, r2) :
                 /\ act' = <<"rotate", g, tn>>
                 /\ obs' = Observe(mesh, fld, r2, tn)
            /\ rot' = r2
            /\ prog' = Append(prog, g)
            /\ UNCHANGED <<mesh, fld>>
(* FieldRotator.clear_rotation() *)
ClearRot == /\ obs.ok
            /\ NClears(prog) = 0
            /\ Len(prog) \in 1 .. 2
            /\ act' = <<"clear">>
            /\ rot' = IdRot
            /\ prog' = Append(prog, "clear")
            /\ obs' = Original(mesh, fld)
            /\ UNCHANGED <<mesh, fld>>
Next == Rotate \/ ClearRot
Spec == Init /\ [][Next]_vars

(* ---- the property, clause by clause ------------------------------------------------ *)
TypeOK == /\ rot.d >= 1
          /\ GCD(GcdM(rot.m), rot.d) = 1
          /\ obs.ok = Rotatable(mesh, fld)
(* the accumulated rotation stays a proper rotation *)
C18_ProperRotation == /\ MMul(rot.m, MT(rot.m)) = MScal(rot.d * rot.d)
                      /\ Det3(rot.m) = rot.d * rot.d * rot.d
(* successive rotations compose from the original, later ones applied after earlier ones *)
C18_Composition == LET F == FoldRot(SinceClear(prog)) IN
                   /\ rot = Reduce(F.m, F.d)
                   /\ act[1] = "rotate" => obs = Observe(mesh, fld, Reduce(F.m, F.d), act[3])
C18_ClearRestores == act[1] = "clear" => rot = IdRot /\ obs = Original(mesh, fld)
C18_Refusals == /\ obs.ok <=> Rotatable(mesh, fld)
                /\ ~obs.ok => prog = <<>> /\ (obs.at = "constructor" <=> RefusedAt(mesh, fld) = "constructor")

(* the new region is the axis-aligned bounding box of the rotated region, same centre:  *)
(* every rotated corner is inside and every face is touched by one                      *)
Corners == {<<a, b, c>> : a \in {-1, 1}, b \in {-1, 1}, c \in {-1, 1}}
RotCornerNum(me, r, k, i) == r.m[i][1] * k[1] * E(me, 1) + r.m[i][2] * k[2] * E(me, 2) + r.m[i][3] * k[3] * E(me, 3)
C18_BoundingBox == obs.ok /\ act[1] = "rotate" =>
      \A i \in D3 : /\ \A k \in Corners : Abs(RotCornerNum(mesh, rot, k, i)) <= Hnum(mesh, rot, i)
                    /\ \E k \in Corners : RotCornerNum(mesh, rot, k, i) = Hnum(mesh, rot, i)
                    /\ obs.half[i] = RNorm(Hnum(mesh, rot, i), 2 * rot.d)
(* classes are consistent: a centre cannot be both outside and inside *)
C18_Classes == obs.ok /\ act[1] = "rotate" =>
      \A k \in DOMAIN obs.cells :
         LET q  == QVec(mesh, rot, act[3], Unflat(act[3], k - 1))
             qd == Qden(rot, act[3])
         IN /\ ~(OutsideQ(mesh, q, qd) /\ InsideOneQ(mesh, q, qd))
            /\ obs.cells[k].cls = 0 <=> OutsideQ(mesh, q, qd)
            /\ obs.cells[k].cls \in {1, 4} <=> InsideOneQ(mesh, q, qd)
(* uniform fields become the uniform field Q v (same length), zero outside *)
C18_UniformBecomesUniform == obs.ok /\ act[1] = "rotate" /\ fld.kind = "vec" =>
      /\ \A k \in DOMAIN obs.cells :
            /\ obs.cells[k].cls = 1 => obs.cells[k].val = RotVec(rot, fld, fld.v)
            /\ obs.cells[k].cls = 0 => \A c \in DOMAIN obs.cells[k].val : obs.cells[k].val[c] = RZero
      /\ LET u == RotVecNum(rot, fld, fld.v) IN Dot(u, u) = rot.d * rot.d * Dot(fld.v, fld.v)
(* linear scalar fields are reproduced exactly BECAUSE the value is the trilinear            *)
(* interpolation of the cell values: where the arithmetic fits, interpolating the cell       *)
(* values of the affine field gives a.q + b                                                  *)
C18_InterpReproducesAffine == obs.ok /\ act[1] = "rotate" /\ fld.kind = "aff" /\ rot.d <= 5 =>
      \A k \in DOMAIN obs.cells :
         LET q  == QVec(mesh, rot, act[3], Unflat(act[3], k - 1))
             qd == Qden(rot, act[3])
             ax == [j \in D3 |-> InterpAxis(mesh, q, qd, j)]
         IN obs.cells[k].cls = 1 /\ InterpFits(ax) /\ InterpDen(ax) <= 2000000 => obs.cells[k].val = InterpRot(mesh, fld, rot, ax)
(* for cubic cells a quarter turn (and any product of quarter turns) is the lattice     *)
(* rotation of C12: every target cell is a source cell, values rotated through the map  *)
C18_QuarterTurnEqualsRotate90 ==
      obs.ok /\ act[1] = "rotate" /\ IsLattice(rot) /\ IsCubic(mesh) /\ act[3] = PermN(mesh, rot) =>
      /\ \A k \in DOMAIN obs.cells :
           LET t == Unflat(act[3], k - 1)
               s == SrcIdx(mesh, rot, act[3], t)
           IN /\ obs.cells[k].cls \in {1, 3}
              /\ InRange(mesh, s)
              \* the lattice rotation about the centre: target index = R applied to the source index
              /\ \A i \in D3 : 2 * t[i] + 1 - act[3][i] =
                      rot.m[i][1] * (2 * s[1] + 1 - mesh.n[1]) + rot.m[i][2] * (2 * s[2] + 1 - mesh.n[2])
                    + rot.m[i][3] * (2 * s[3] + 1 - mesh.n[3])
              /\ obs.cells[k].val = RotVec(rot, fld, SrcVal(mesh, fld, s))
      /\ Cardinality({SrcIdx(mesh, rot, act[3], Unflat(act[3], k - 1)) : k \in DOMAIN obs.cells}) = NCells(mesh)
=============================================================================
