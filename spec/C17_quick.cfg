SPECIFICATION Spec
CONSTANTS
  Configs <- Configs_quick
CHECK_DEADLOCK FALSE
INVARIANT TypeOK
INVARIANT C17_CoordsAreCentres
INVARIANT C17_ExportAttrs
INVARIANT C17_Lossless
INVARIANT C17_RebuildFromCoords
INVARIANT C17_Rejects
INVARIANT C17_Fallbacks
