------------------------------ MODULE MC_C13 ------------------------------
EXTENDS C13
H(a, b) == <<a, b>>
Scen_quick == {"region2", "mesh1", "mesh2", "twomesh", "field2", "field3", "scalar2", "unmapped", "shared"}
Scen_all   == {"region2", "region3", "mesh1", "mesh2", "mesh3", "twomesh", "field2", "field3", "scalar2", "unmapped", "shared"}
(* the zero vector and the factor one are steps like any other: the copying form still returns new objects *)
TransVs_def == {<<R(3), R(-5), R(7)>>, <<H(-1, 2), R(0), R(2)>>, <<R(0), R(0), R(0)>>}
ScaleFs_quick == {<<R(2), R(2), R(2)>>, <<H(1, 2), H(1, 2), H(1, 2)>>, <<R(-1), R(-1), R(-1)>>,
                  <<R(2), R(3), H(1, 2)>>, <<R(0), R(0), R(0)>>}
ScaleFs_all == ScaleFs_quick \cup {<<R(-2), R(1), R(3)>>, <<R(1), R(0), R(1)>>, <<R(1), R(1), R(1)>>}
RefPts_def == {<<>>, <<R(100), R(-50), R(25)>>, <<H(1, 2), H(3, 2), H(-5, 2)>>, <<R(0), R(0), R(0)>>}
RotKs_quick == {1, 2, -1}
\* reduced alphabet for the exhaustive depth-2 pass of the quick tier
TransVs_small == {<<H(-1, 2), R(0), R(2)>>}
ScaleFs_small == {<<R(-1), R(-1), R(-1)>>, <<R(2), R(3), H(1, 2)>>, <<R(0), R(0), R(0)>>}
RefPts_small == {<<>>, <<H(1, 2), H(3, 2), H(-5, 2)>>, <<R(0), R(0), R(0)>>}
RotKs_small == {1, 2}
Bad_small == {"same-axis", "factor-too-long"}
Bad_all == AllBadKinds
RotKs_all == {1, 2, 3, -1, -2, 5, 0, 4}
=============================================================================
