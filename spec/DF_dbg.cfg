SPECIFICATION Spec
CONSTANTS
  Scenarios <- DbgScen
  Acts <- DbgActs
  MaxDepth = 1
  MaxFields = 3
  AllowAlias = "guard"
  TransVs <- TransVs_def
  ScaleFs <- ScaleFs_all
  RotKs <- RotKs_all
  RotRefs <- RotRefs_all
  PadSpecs <- Pad_all
  Masks <- Masks_all
  Nums <- Nums_all
CHECK_DEADLOCK FALSE
INVARIANT DF_RegionNormal
INVARIANT DF_MeshNormal
INVARIANT DF_FieldShapes
INVARIANT DF_SubregionsWellFormed
INVARIANT DF_OwnValidity
INVARIANT DF_Labels
INVARIANT DF_RootsLive
