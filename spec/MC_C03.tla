------------------------------ MODULE MC_C03 ------------------------------
(* Model constants for C03: the register pool.  Integer values are pairwise distinct   *)
(* across the cells of a field and across the components of a cell (a cell or          *)
(* component mix-up is visible), vector cells are Pythagorean tuples (norm,            *)
(* orientation exact), divisors are zero-free.  Every pool field has its own mask.     *)
EXTENDS C03

S1tbl == <<<<2>>, <<3>>, <<5>>, <<7>>, <<11>>, <<13>>, <<17>>, <<19>>>>
S2tbl == <<<<-3>>, <<4>>, <<-6>>, <<8>>, <<-9>>, <<10>>, <<-12>>, <<14>>>>
SZtbl == <<<<0>>, <<1>>, <<0>>, <<-2>>, <<3>>, <<0>>, <<4>>, <<0>>>>
SEtbl == <<<<2>>, <<0>>, <<3>>, <<1>>, <<2>>, <<3>>, <<0>>, <<1>>>>
V2tbl == <<<<3, -4>>, <<-5, 12>>, <<8, 15>>, <<-7, -24>>, <<20, 21>>, <<9, -40>>, <<-12, 35>>, <<28, 45>>>>
W2tbl == <<<<15, 8>>, <<-24, 7>>, <<21, -20>>, <<40, 9>>, <<35, 12>>, <<-45, 28>>, <<4, 3>>, <<12, -5>>>>
V3tbl == <<<<2, -3, 6>>, <<1, 4, -8>>, <<-2, 6, 9>>, <<3, 4, 12>>, <<2, -10, 11>>, <<8, 9, -12>>, <<-1, 6, 18>>, <<4, 5, 20>>>>
W3tbl == <<<<6, 10, 15>>, <<4, -13, 16>>, <<-2, 14, 23>>, <<12, 15, 16>>, <<3, -6, 22>>, <<6, -2, 3>>, <<9, 2, -6>>, <<-12, 4, 3>>>>
V4tbl == <<<<1, 2, -3, 4>>, <<5, -6, 7, 8>>, <<-9, 10, 11, 12>>, <<13, 14, 15, -16>>, <<2, 4, 6, 9>>, <<3, 5, 8, 1>>, <<7, 1, 2, 5>>, <<6, 3, 9, 2>>>>
A1tbl == <<<<4>>, <<-1>>, <<2>>, <<5>>, <<-3>>, <<6>>, <<1>>, <<-7>>>>
A2tbl == <<<<1, 3>>, <<-2, 5>>, <<4, -1>>, <<6, 2>>, <<-3, 7>>, <<5, 4>>, <<2, -6>>, <<7, 1>>>>
A3tbl == <<<<1, 3, -2>>, <<-2, 5, 4>>, <<4, -1, 3>>, <<6, 2, -5>>, <<-3, 7, 1>>, <<5, 4, 2>>, <<2, -6, 3>>, <<7, 1, -4>>>>
SCtbl == <<<<GC(1, 2)>>, <<GC(3, -1)>>, <<GC(-2, 2)>>, <<GC(4, 3)>>, <<GC(0, 5)>>, <<GC(-3, -4)>>, <<GC(2, -5)>>, <<GC(6, 1)>>>>
C2tbl == <<<<GC(1, 1), GC(2, -3)>>, <<GC(0, 2), GC(-1, 4)>>, <<GC(3, 0), GC(2, 2)>>, <<GC(-4, 1), GC(1, -1)>>,
           <<GC(2, 5), GC(3, 3)>>, <<GC(-1, -2), GC(4, 0)>>, <<GC(5, 1), GC(0, -3)>>, <<GC(1, 4), GC(-2, 1)>>>>

IV(tbl, N, nv) == [k \in 1 .. N |-> [c \in 1 .. nv |-> GI(tbl[k][c])]]
CV(tbl, N, nv) == [k \in 1 .. N |-> [c \in 1 .. nv |-> tbl[k][c]]]
AllBits(N)  == 2 ^ N - 1
MaskOf(p, N) == CASE p = "all" -> AllBits(N)
                  [] p = "first_off" -> AllBits(N) - 1
                  [] p = "alt" -> 85 % (2 ^ N)
                  [] p = "mid" -> 182 % (2 ^ N)
                  [] p = "last_off" -> AllBits(N) - 2 ^ (N - 1)
                  [] p = "first_only" -> 1
(* MkField has no dt field: add it by record extension *)
WithDt(r, dt) == [k |-> r.k, m |-> r.m, nv |-> r.nv, val |-> r.val, vx |-> r.vx, valid |-> r.valid, vt |-> r.vt,
                  vdims |-> r.vdims, map |-> r.map, aux |-> r.aux, vo |-> r.vo, dt |-> dt]
PF(m, nv, val, mask, vdims, map, dt) ==
   WithDt(MkField(m, nv, val, TRUE, BitsMask(MaskOf(mask, NCellsM(m)), NCellsM(m)), vdims, map, <<>>), dt)

Perm(dims) == IF Len(dims) = 2 THEN <<dims[2], dims[1]>> ELSE IF Len(dims) = 3 THEN <<dims[3], dims[1], dims[2]>> ELSE dims
(* the pool on mesh m; mx1 = the same cells shifted by one cell, mx2 = other cell counts *)
PoolOn(t, m, mx1, mx2) ==
   LET N == NCellsM(m)  nd == Len(m.n)
   IN (t \o "S1" :> PF(m, 1, IV(S1tbl, N, 1), "all", <<>>, <<>>, "float"))
   @@ (t \o "S2" :> PF(m, 1, IV(S2tbl, N, 1), "first_off", <<>>, <<>>, "int"))
   @@ (t \o "SZ" :> PF(m, 1, IV(SZtbl, N, 1), "mid", <<>>, <<>>, "float"))
   @@ (t \o "SE" :> PF(m, 1, IV(SEtbl, N, 1), "all", <<>>, <<>>, "int"))
   @@ (t \o "SL" :> PF(m, 1, IV(A1tbl, N, 1), "last_off", <<"s">>, <<m.dims[1]>>, "float"))
   @@ (t \o "SC" :> PF(m, 1, CV(SCtbl, N, 1), "alt", <<>>, <<>>, "complex"))
   @@ (t \o "V2" :> PF(m, 2, IV(V2tbl, N, 2), "alt", DefaultVdims(2), DefaultMap(m, 2), "float"))
   @@ (t \o "W2" :> PF(m, 2, IV(W2tbl, N, 2), "mid", <<"a", "b">>, IF nd = 2 THEN Perm(m.dims) ELSE <<>>, "float"))
   @@ (t \o "C2" :> PF(m, 2, CV(C2tbl, N, 2), "last_off", DefaultVdims(2), DefaultMap(m, 2), "complex"))
   @@ (t \o "V3" :> PF(m, 3, IV(V3tbl, N, 3), "last_off", DefaultVdims(3), DefaultMap(m, 3), "float"))
   @@ (t \o "W3" :> PF(m, 3, IV(W3tbl, N, 3), "first_off", <<"p", "q", "r">>, IF nd = 3 THEN Perm(m.dims) ELSE <<>>, "float"))
   @@ (t \o "V4" :> PF(m, 4, IV(V4tbl, N, 4), "mid", DefaultVdims(4), <<>>, "float"))
   @@ (t \o "N1" :> MkNum(GI(-2)))
   @@ (t \o "N2" :> MkNum(GI(3)))
   @@ (t \o "N3" :> MkNum(GC(2, 1)))
   @@ (t \o "K2" :> MkVec(<<GI(1), GI(-2)>>))
   @@ (t \o "K3" :> MkVec(<<GI(2), GI(-1), GI(2)>>))
   @@ (t \o "A1" :> MkArr2(m, 1, IV(A1tbl, N, 1)))
   @@ (t \o "A2" :> MkArr2(m, 2, IV(A2tbl, N, 2)))
   @@ (t \o "A3" :> MkArr2(m, 3, IV(A3tbl, N, 3)))
   @@ (t \o "X1" :> PF(mx1, 1, IV(S1tbl, NCellsM(mx1), 1), "all", <<>>, <<>>, "float"))
   @@ (t \o "X2" :> PF(mx2, 1, IV(S2tbl, NCellsM(mx2), 1), "all", <<>>, <<>>, "float"))
   @@ (t \o "X3" :> PF(mx1, 3, IV(V3tbl, NCellsM(mx1), 3), "all", DefaultVdims(3), DefaultMap(mx1, 3), "float"))

MeshA   == [lo |-> <<0, 0>>, c |-> <<12, 12>>, n |-> <<2, 2>>, dims |-> <<"x", "y">>]
MeshAx1 == [MeshA EXCEPT !.lo = <<12, 0>>]
MeshAx2 == [MeshA EXCEPT !.n = <<2, 1>>, !.c = <<12, 24>>]
MeshB   == [lo |-> <<-12, 0, 24>>, c |-> <<12, 24, 12>>, n |-> <<3, 2, 1>>, dims |-> <<"x", "y", "z">>]
MeshBx1 == [MeshB EXCEPT !.lo = <<-12, 24, 24>>]
MeshBx2 == [MeshB EXCEPT !.n = <<3, 1, 1>>, !.c = <<12, 48, 12>>]
(* four cells: a constant vector of two or three components is never mistaken for a per-cell array of a scalar field *)
MeshC   == [lo |-> <<8>>, c |-> <<12>>, n |-> <<4>>, dims |-> <<"x">>]
MeshCx1 == [MeshC EXCEPT !.lo = <<20>>]
MeshCx2 == [MeshC EXCEPT !.n = <<1>>, !.c = <<48>>]

PoolDef == PoolOn("A.", MeshA, MeshAx1, MeshAx2) @@ PoolOn("B.", MeshB, MeshBx1, MeshBx2) @@ PoolOn("C.", MeshC, MeshCx1, MeshCx2)

Names == <<"S1", "S2", "SZ", "SE", "SL", "SC", "V2", "W2", "C2", "V3", "W3", "V4", "N1", "N2", "N3", "K2", "K3", "A1", "A2", "A3", "X1", "X2", "X3">>
IsF(nm) == nm \notin {"N1", "N2", "N3", "K2", "K3", "A1", "A2", "A3"}
Dp(depth) == [d |-> depth, x |-> {}]
PairsLE(t, names, depth) == UNION {{<< <<<<t \o names[i], -1>>, <<t \o names[j], -1>>>>, Dp(depth)>> :
                                        j \in {jj \in DOMAIN names : i <= jj /\ (IsF(names[i]) \/ IsF(names[jj]))}} : i \in DOMAIN names}
Triple(t, a, b, c, depth) == << <<<<t \o a, -1>>, <<t \o b, -1>>, <<t \o c, -1>>>>, Dp(depth)>>

Init_quick == PairsLE("A.", <<"S1", "S2", "SL", "SC", "V2", "W2", "V3", "N1", "N3", "K2", "A2", "X1", "X2">>, 1)
              \cup PairsLE("B.", <<"S2", "V3", "W3", "K3", "A3", "X3">>, 1)
              \cup {Triple("A.", "S1", "W2", "N1", 2)}
Init_thorough == PairsLE("A.", Names, 1) \cup PairsLE("B.", Names, 1) \cup PairsLE("C.", Names, 1)
              \cup {Triple("A.", "S1", "W2", "N1", 2), Triple("B.", "W3", "V3", "S2", 2), Triple("A.", "SC", "C2", "N3", 2),
                    Triple("A.", "V3", "S1", "A3", 2), Triple("B.", "V3", "SL", "K3", 2), Triple("C.", "V3", "S2", "V2", 2)}
              \* (depth-3 triples made 3.8 million states: more than a 6 GB heap holds and far more than can be replayed)

OpsC03 == {"neg", "pos", "abs", "real", "imag", "conj", "cabs",
           "add", "sub", "mul", "div", "pow", "dot", "cross", "angle", "lshift", "comp", "restack", "ufunc1", "ufunc2"}
NoMasks == {}
NoModes == {}
NoKs    == {}
=============================================================================
