SPECIFICATION Spec
CONSTANTS
  MaxL = 4
  Variants <- Variants_all
CHECK_DEADLOCK FALSE
INVARIANT D13_TodaysCodeCommutesWithShifts
