SPECIFICATION TSpec
CONSTANTS
  TexSet = {}
  LenPats = {}
  RotIdx = {}
  MaxSteps = 0
CHECK_DEADLOCK FALSE
