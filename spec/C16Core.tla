------------------------------ MODULE C16Core ------------------------------
(* The integer core of C16 for meshes of ANY size: "VTK output puts each value in the grid cell  *)
(* a VTK reader finds at that position".  TLC checks the grid, the x-fastest cell order and the   *)
(* read-back of the full model on meshes of a few cells (C16.tla); here Apalache proves, for a    *)
(* rectilinear grid with the vertices lo + i c on every axis and ANY lo, c >= 1, nx, ny, nz >= 1: *)
(* the cell between the vertices i and i + 1 contains the centre of mesh cell i; the reader's     *)
(* reconstruction (corners = outer vertices, n = vertices - 1, cell = edge / n) gives back the    *)
(* mesh; and the position of cell (i, j, k) in the x-fastest cell data of the file determines     *)
(* (i, j, k) again (no two cells share a position, every position below nx ny nz is used).        *)
(* Doubled coordinates keep the centres integral.  One arbitrary choice per state.                *)
(*   apalache-mc check --init=Init --inv=<clause> --length=0 C16Core.tla                          *)
EXTENDS Integers

VARIABLES
  \* @type: Int;
  lo,
  \* @type: Int;
  c,
  \* @type: Int;
  nx,
  \* @type: Int;
  ny,
  \* @type: Int;
  nz,
  \* @type: Int;
  i,
  \* @type: Int;
  j,
  \* @type: Int;
  k

V2(q)      == 2 * lo + 2 * q * c              \* twice the q-th vertex of the x axis (nx + 1 of them)
Centre2(q) == 2 * lo + (2 * q + 1) * c        \* twice the centre of mesh cell q
Flat(a, b, d) == a + nx * (b + ny * d)        \* position in the cell data: x fastest, then y, then z

Init == /\ lo \in Int /\ c \in Int /\ nx \in Int /\ ny \in Int /\ nz \in Int /\ i \in Int /\ j \in Int /\ k \in Int
        /\ c >= 1 /\ nx >= 1 /\ ny >= 1 /\ nz >= 1
        /\ 0 <= i /\ i < nx /\ 0 <= j /\ j < ny /\ 0 <= k /\ k < nz
Next == UNCHANGED <<lo, c, nx, ny, nz, i, j, k>>

(* the grid cell a reader finds at the centre of mesh cell i is the cell between the vertices i and i + 1 *)
C16_CentreInsideItsGridCell == V2(i) < Centre2(i) /\ Centre2(i) < V2(i + 1)
(* reading back: corners = outer vertices, n = number of vertices - 1, cell = edge / n *)
C16_ReaderRecoversMesh == /\ V2(0) = 2 * lo /\ V2(nx) = 2 * (lo + nx * c)
                          /\ (nx + 1) - 1 = nx
                          /\ (V2(nx) - V2(0)) = nx * (2 * c) /\ (V2(nx) - V2(0)) \div nx = 2 * c
(* the x-fastest order is a bijection between the cells and the positions 0 .. nx ny nz - 1 *)
C16_PositionInRange == 0 <= Flat(i, j, k) /\ Flat(i, j, k) < nx * ny * nz
C16_PositionDeterminesCell ==
   LET p == Flat(i, j, k) IN
   /\ p % nx = i
   /\ (p \div nx) % ny = j
   /\ p \div (nx * ny) = k
=============================================================================
