SPECIFICATION Spec
CONSTANTS
  MaxN <- MaxN_thorough
  CProf <- CProf_thorough
  LoProf <- LoProf_all
  CellReq <- CellReq_all
  MoveMaxDim = 4
CHECK_DEADLOCK FALSE
INVARIANT TypeOK
INVARIANT C01_Tiling
INVARIANT C01_CellTimesN
INVARIANT C01_Inverse
INVARIANT C01_OutsideIndexRejected
INVARIANT C01_Contains
INVARIANT C01_DiagContains
INVARIANT C01_Order
INVARIANT C01_AxesAgree
INVARIANT C01_CellRequest
INVARIANT C01_MovedLattice
