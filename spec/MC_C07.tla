------------------------------ MODULE MC_C07 ------------------------------
EXTENDS C07
MaxN_quick    == <<4, 3, 3, 2>>
MaxN_thorough == <<6, 4, 3, 2>>
P1 == << <<0, 0, 0, 0>>, <<4, 4, 4, 4>> >>
P2 == << <<-8, 4, -12, 20>>, <<4, 8, 12, 8>> >>
P3 == << <<40, -36, 8, -4>>, <<8, 4, 4, 12>> >>
Prof_quick    == << {P1, P2}, {P1, P2}, {P2}, {P3} >>
Prof_thorough == << {P1, P2, P3}, {P1, P2, P3}, {P1, P2, P3}, {P1, P3} >>
Layouts_all   == {"none", "A", "B"}
PadW_quick    == {0, 1, 5}
PadW_thorough == {0, 1, 2, 3, 7}
PadModes_all  == {"constant", "edge", "wrap", "symmetric", "reflect"}
ResN_quick    == 1 .. 6
ResN_thorough == 1 .. 9
Other_quick    == {"full", "inner"}
Other_thorough == {"full", "inner", "cell0", "lastq"}
=============================================================================
