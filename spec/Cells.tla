------------------------------- MODULE Cells -------------------------------
(* Arrays over a mesh.  Convention (shared by all property modules and by the harness, *)
(* harness/fld.py): an array over cell counts n is a *flat sequence* of length          *)
(* ProdSeq(n) in the library's iteration order (first dimension fastest); entry         *)
(* Flat(n, i) + 1 belongs to cell i.  A value array holds one sequence of components    *)
(* per cell (length nvdim); a validity array holds one BOOLEAN per cell.               *)
EXTENDS Lattice

At(n, a, i)      == a[Flat(n, i) + 1]
MkArr(n, F(_))   == [k \in 1 .. ProdSeq(n) |-> F(Unflat(n, k - 1))]
ArrLen(n)        == ProdSeq(n)
NV(a)            == Len(a[1])
ConstArr(n, v)   == [k \in 1 .. ProdSeq(n) |-> v]
Map1(a, F(_))    == [k \in DOMAIN a |-> F(a[k])]
Map2(a, b, F(_, _)) == [k \in DOMAIN a |-> F(a[k], b[k])]
AndArr(u, v)     == [k \in DOMAIN u |-> u[k] /\ v[k]]

(* component-wise operations on component sequences, scalar (length 1) broadcasts *)
Bc(x, k, nv)     == IF Len(x) = 1 THEN x[1] ELSE x[k]
OutNV(x, y)      == Max2(Len(x), Len(y))
VecOp(x, y, F(_, _)) == [k \in 1 .. OutNV(x, y) |-> F(Bc(x, k, OutNV(x, y)), Bc(y, k, OutNV(x, y)))]
Dot(x, y)        == SumSeq([k \in 1 .. Len(x) |-> x[k] * y[k]])
Cross(x, y)      == <<x[2] * y[3] - x[3] * y[2], x[3] * y[1] - x[1] * y[3], x[1] * y[2] - x[2] * y[1]>>
Norm2(x)         == Dot(x, x)
Component(a, c)  == [k \in DOMAIN a |-> <<a[k][c]>>]
Stack(a, b)      == [k \in DOMAIN a |-> a[k] \o b[k]]

(* one grid line of an array: cells whose index agrees with i except along axis d *)
LineIdx(n, i, d) == [j \in 1 .. n[d] |-> [i EXCEPT ![d] = j - 1]]
Line(n, a, i, d) == [j \in 1 .. n[d] |-> At(n, a, [i EXCEPT ![d] = j - 1])]
=============================================================================
