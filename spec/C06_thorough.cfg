SPECIFICATION Spec
CONSTANTS
  MaxN <- MaxN_thorough
  CProf <- CProf_thorough
  LoProf <- LoProf_thorough
  NVs <- NVs_thorough
  Pats <- Pats_thorough
  Coefs <- Coefs_thorough
  Shifts <- Shifts_thorough
  Scales <- Scales_thorough
CHECK_DEADLOCK FALSE
INVARIANT TypeOK
INVARIANT C06_VolumeIsSum
INVARIANT C06_DirectionalOnReducedMesh
INVARIANT C06_OneDimScalar
INVARIANT C06_Fubini
INVARIANT C06_CumulativeHalfCell
INVARIANT C06_CumLastPlusHalf
INVARIANT C06_MeanIsIntegralOverExtent
INVARIANT C06_Linear
INVARIANT C06_TranslationInvariant
INVARIANT C06_PerComponent
INVARIANT C06_AfterInplaceScale
