-------------------------------- MODULE C14 --------------------------------
(* C14 - subregions always stay inside, aligned with and measured in cells of their    *)
(* mesh.                                                                               *)
(*                                                                                     *)
(* State: a mesh configuration (Lattice.tla), its ordered subregions (name, box), the  *)
(* history of transformation steps that led here (hist), the last public call (act)    *)
(* and what a query must return (obs).  Transformations (translate / scale / rotate90, *)
(* each in the in-place and in the copying form) change mesh and subregions exactly as *)
(* the library does: the region is transformed, every subregion is transformed about   *)
(* the *same* reference point, the cell counts follow.  All other public calls are     *)
(* queries on the reached state: assigning subregions (accepted / rejected with the    *)
(* previous ones kept), plane and range selection, extraction by name, is_aligned, and *)
(* saving + reloading (JSON side-car, HDF5).                                           *)
(*                                                                                     *)
(* Coordinates stay on the integer lattice: scale factors are <<num, den>> pairs and a *)
(* step is only enabled when every transformed corner is an integer and every cell     *)
(* size stays a multiple of 4 lattice units.                                           *)
EXTENDS Lattice, TLC

CONSTANTS MaxN,        \* <<max n in 1-D, 2-D, 3-D, 4-D>>  (0 = no mesh of that dimension)
          Prof,        \* per number of dimensions: set of <<lo profile, c profile>>
          Layouts,     \* subregion layouts of the initial mesh
          Vecs,        \* translation vectors (4-sequences)
          Factors,     \* scale factors: 4-sequences of <<num, den>>
          Refs,        \* reference point kinds: "default", "corner", "far"
          RotKs,       \* numbers of quarter turns
          Short,       \* the reduced step alphabet from which longer histories are built
          MaxDepth,    \* maximal history length (all steps but the first one from Short)
          QueryDepth,  \* queries are issued on states with Len(hist) <= QueryDepth
          DeepND,      \* a third step, and queries behind a step, only for meshes of at most DeepND dimensions
          FullProbes   \* BOOLEAN: selection probes on the full quarter lattice

VARIABLES mesh, subs, hist, act, obs,
          origin      \* the initial mesh and subregions (constant along a behaviour; lets a state be rebuilt)
vars == <<mesh, subs, hist, act, obs, origin>>

Rej == [ok |-> FALSE]
Prefix(s, k) == [d \in 1 .. k |-> s[d]]
Meshes == UNION {
            {[lo |-> Prefix(p[1], k), c |-> Prefix(p[2], k), n |-> nn] :
                 nn \in [1 .. k -> 1 .. MaxN[k]], p \in Prof[k]}
            : k \in {j \in 1 .. 4 : MaxN[j] > 0}}

(* ---- boxes and subregions ----------------------------------------------------------- *)
CellBox(m, fr, to) == [lo |-> [d \in Dims(m) |-> FaceAx(m, d, fr[d])],
                       hi |-> [d \in Dims(m) |-> FaceAx(m, d, to[d])]]
Sub(name, box) == [name |-> name, box |-> box]
Zero(m) == [d \in Dims(m) |-> 0]
Layout(m, id) ==
   CASE id = "none" -> <<>>
     [] id = "A" -> << Sub("s1", CellBox(m, [d \in Dims(m) |-> IF m.n[d] >= 2 THEN 1 ELSE 0], m.n)) >>
     [] id = "B" -> << Sub("s1", CellBox(m, Zero(m), [d \in Dims(m) |-> (m.n[d] + 1) \div 2])),
                       Sub("s2", CellBox(m, [d \in Dims(m) |-> m.n[d] \div 2], m.n)) >>
        (* three: the whole mesh, the first cell, and the upper part along axis 1 (touches / overlaps) *)
     [] id = "C" -> << Sub("whole", RegionOf(m)),
                       Sub("cell0", CellBox(m, Zero(m), [d \in Dims(m) |-> 1])),
                       Sub("top", CellBox(m, [d \in Dims(m) |-> IF d = 1 THEN m.n[d] - 1 ELSE 0], m.n)) >>

(* the well-formedness the property demands of every subregion a mesh holds *)
SubOK(m, b) == /\ BoxOK(b) /\ BoxInMesh(b, m) /\ BoxAligned(b, m)
               /\ \A d \in Dims(m) : (b.hi[d] - b.lo[d]) % m.c[d] = 0 /\ (b.hi[d] - b.lo[d]) >= m.c[d]
SubsOK(m, ss) == \A k \in DOMAIN ss : SubOK(m, ss[k].box)
Names(ss) == {ss[k].name : k \in DOMAIN ss}

(* order-preserving filter + map over a sequence of subregions *)
KeepMap(ss, Keep(_), Map(_)) ==
   LET S == {k \in DOMAIN ss : Keep(ss[k])}
   IN [j \in 1 .. Cardinality(S) |-> Map(ss[CHOOSE i \in S : Cardinality({x \in S : x <= i}) = j])]
MapSubs(ss, F(_)) == [k \in DOMAIN ss |-> Sub(ss[k].name, F(ss[k].box))]

(* ---- transformations ---------------------------------------------------------------- *)
RefPt(m, kind) ==
   CASE kind = "default" -> [d \in Dims(m) |-> m.lo[d] + (m.c[d] \div 2) * m.n[d]]     \* region centre
     [] kind = "corner"  -> m.lo
     [] kind = "far"     -> [d \in Dims(m) |-> m.lo[d] + (IF d % 2 = 1 THEN 52 ELSE -36)]
TransBox(b, v)  == [lo |-> [d \in DOMAIN b.lo |-> b.lo[d] + v[d]], hi |-> [d \in DOMAIN b.lo |-> b.hi[d] + v[d]]]
TransMesh(m, v) == [m EXCEPT !.lo = [d \in Dims(m) |-> m.lo[d] + v[d]]]

ScaleX(x, r, f)    == r + ((x - r) * f[1]) \div f[2]
ScaleXInt(x, r, f) == ((x - r) * f[1]) % f[2] = 0
ScaleBox(b, r, f)  == [lo |-> [d \in DOMAIN b.lo |-> ScaleX(b.lo[d], r[d], f[d])],
                       hi |-> [d \in DOMAIN b.lo |-> ScaleX(b.hi[d], r[d], f[d])]]
ScaleMesh(m, r, f) == [lo |-> [d \in Dims(m) |-> ScaleX(m.lo[d], r[d], f[d])],
                       c  |-> [d \in Dims(m) |-> (m.c[d] * f[d][1]) \div f[d][2]],
                       n  |-> m.n]
ScaleOK(m, ss, r, f) ==
   /\ \A d \in Dims(m) : /\ (m.c[d] * f[d][1]) % (4 * f[d][2]) = 0
                         /\ ScaleXInt(m.lo[d], r[d], f[d]) /\ ScaleXInt(Hi(m, d), r[d], f[d])
   /\ \A k \in DOMAIN ss : \A d \in Dims(m) :
         ScaleXInt(ss[k].box.lo[d], r[d], f[d]) /\ ScaleXInt(ss[k].box.hi[d], r[d], f[d])

(* quarter turns in the plane (a, b), from a towards b, about r *)
RotPt(p, a, b, k, r) ==
   LET x == p[a] - r[a]  y == p[b] - r[b]  kk == k % 4 IN
   CASE kk = 0 -> p
     [] kk = 1 -> [p EXCEPT ![a] = r[a] - y, ![b] = r[b] + x]
     [] kk = 2 -> [p EXCEPT ![a] = r[a] - x, ![b] = r[b] - y]
     [] kk = 3 -> [p EXCEPT ![a] = r[a] + y, ![b] = r[b] - x]
RotBox(bx, a, b, k, r) ==
   LET p == RotPt(bx.lo, a, b, k, r)  q == RotPt(bx.hi, a, b, k, r) IN
   [lo |-> [d \in DOMAIN p |-> Min2(p[d], q[d])], hi |-> [d \in DOMAIN p |-> Max2(p[d], q[d])]]
RotMesh(m, a, b, k, r) ==
   LET bx == RotBox(RegionOf(m), a, b, k, r) IN
   [lo |-> bx.lo,
    c  |-> IF k % 2 = 1 THEN SwapAt(m.c, a, b) ELSE m.c,
    n  |-> IF k % 2 = 1 THEN SwapAt(m.n, a, b) ELSE m.n]

(* a step: what the call does to (mesh, subs) *)
StepEnabled(m, ss, s) ==
   CASE s.op = "translate" -> TRUE
     [] s.op = "scale"     -> ScaleOK(m, ss, RefPt(m, s.ref), Prefix(s.f, ND(m)))
     [] s.op = "rotate90"  -> s.a <= ND(m) /\ s.b <= ND(m)
StepMesh(m, s) ==
   CASE s.op = "translate" -> TransMesh(m, s.v)
     [] s.op = "scale"     -> ScaleMesh(m, RefPt(m, s.ref), Prefix(s.f, ND(m)))
     [] s.op = "rotate90"  -> RotMesh(m, s.a, s.b, s.k, RefPt(m, s.ref))
StepBox(m, s, bx) ==
   CASE s.op = "translate" -> TransBox(bx, s.v)
     [] s.op = "scale"     -> ScaleBox(bx, RefPt(m, s.ref), Prefix(s.f, ND(m)))
     [] s.op = "rotate90"  -> RotBox(bx, s.a, s.b, s.k, RefPt(m, s.ref))
StepSubs(m, ss, s) == MapSubs(ss, LAMBDA bx : StepBox(m, s, bx))

Steps == {[op |-> "translate", v |-> v, inplace |-> ip] : v \in Vecs, ip \in BOOLEAN}
         \cup {[op |-> "scale", f |-> f, ref |-> r, inplace |-> ip] : f \in Factors, r \in Refs, ip \in BOOLEAN}
         \cup {[op |-> "rotate90", a |-> ab[1], b |-> ab[2], k |-> k, ref |-> r, inplace |-> ip] :
                  ab \in {p \in (1 .. 4) \X (1 .. 4) : p[1] # p[2]}, k \in RotKs, r \in Refs, ip \in BOOLEAN}

(* ---- queries ------------------------------------------------------------------------ *)
Q(m, d) == m.c[d] \div 4
ProbesAx(m, d) == {m.lo[d] - Q(m, d), Hi(m, d) + Q(m, d)} \cup {m.lo[d] + Q(m, d) * j : j \in 0 .. 4 * m.n[d]}
ReducedAx(m, d) == {m.lo[d] - Q(m, d), Hi(m, d) + Q(m, d), m.lo[d] + Q(m, d), Hi(m, d) - Q(m, d)}
                   \cup {FaceAx(m, d, j) : j \in 0 .. m.n[d]}
                   \cup {CentreAx(m, d, j) : j \in 0 .. (m.n[d] - 1)}
RProbesAx(m, d) == IF FullProbes /\ hist = <<>> THEN ProbesAx(m, d) ELSE ReducedAx(m, d)
OutAx(m, d)     == {m.lo[d] - Q(m, d), Hi(m, d) + Q(m, d)}
RangePairs(m, d) == {q \in RProbesAx(m, d) \X RProbesAx(m, d) :
                        /\ q[1] <= q[2]
                        /\ (q[1] \in OutAx(m, d) => q[2] \in OutAx(m, d) \cup {m.lo[d]})
                        /\ (q[2] \in OutAx(m, d) => q[1] \in OutAx(m, d) \cup {Hi(m, d)})}

(* plane selection at cell k of axis d: subregions whose cells include layer k, with the axis removed *)
DropBox(bx, d) == [lo |-> RemoveAt(bx.lo, d), hi |-> RemoveAt(bx.hi, d)]
PlaneSel(m, ss, d, k) ==
   [mesh |-> DropAxis(m, d),
    subs |-> KeepMap(ss, LAMBDA s : BoxSlices(s.box, m)[d][1] <= k /\ k < BoxSlices(s.box, m)[d][2],
                         LAMBDA s : Sub(s.name, DropBox(s.box, d)))]
(* range selection keeping cells ka .. kb of axis d: overlapping subregions, clipped *)
RangeBlock(m, d, ka, kb) == [lo |-> [m.lo EXCEPT ![d] = FaceAx(m, d, ka)],
                             hi |-> [e \in Dims(m) |-> IF e = d THEN FaceAx(m, d, kb + 1) ELSE Hi(m, e)]]
RangeSel(m, ss, d, ka, kb) ==
   LET blk == RangeBlock(m, d, ka, kb) IN
   [mesh |-> SubMesh(blk, m),
    subs |-> KeepMap(ss, LAMBDA s : BoxesOverlap(s.box, blk), LAMBDA s : Sub(s.name, BoxMeet(s.box, blk)))]
SelPointRes(m, ss, d, x) ==
   IF ~InsideAx(m, d, x) THEN Rej
   ELSE [ok |-> TRUE, r |-> PlaneSel(m, ss, d, P2IAx(m, d, x)),
         alt |-> {PlaneSel(m, ss, d, k) : k \in P2IAxAlt(m, d, x)}]
CentreCoord(m, d) == m.lo[d] + (m.c[d] \div 2) * m.n[d]
SelRangeRes(m, ss, d, x1, x2) ==
   LET a == Min2(x1, x2)  b == Max2(x1, x2) IN
   IF ~(InsideAx(m, d, a) /\ InsideAx(m, d, b)) THEN Rej
   ELSE [ok |-> TRUE, r |-> RangeSel(m, ss, d, P2IAx(m, d, a), P2IAx(m, d, b)),
         alt |-> {RangeSel(m, ss, d, p[1], p[2]) :
                     p \in {q \in P2IAxAlt(m, d, a) \X P2IAxAlt(m, d, b) : q[1] <= q[2] /\ (a = b => q[1] = q[2])}}]

(* candidate subregion sets for the setter, relative to the current mesh *)
ShiftAx(bx, d, lo, hi) == [lo |-> [bx.lo EXCEPT ![d] = bx.lo[d] + lo], hi |-> [bx.hi EXCEPT ![d] = bx.hi[d] + hi]]
FirstCell(m) == CellBox(m, Zero(m), [d \in Dims(m) |-> 1])
LastCell(m)  == CellBox(m, [d \in Dims(m) |-> m.n[d] - 1], m.n)
(* kind -> box; d is the axis along which a defect is introduced *)
CandBox(m, kind, d) ==
   CASE kind = "whole"       -> RegionOf(m)
     [] kind = "first"       -> FirstCell(m)
     [] kind = "last"        -> LastCell(m)
     [] kind = "upper"       -> CellBox(m, [e \in Dims(m) |-> IF e = d THEN m.n[e] \div 2 ELSE 0], m.n)
     [] kind = "shift_q"     -> ShiftAx(FirstCell(m), d, Q(m, d), Q(m, d))               \* one cell, a quarter cell off the lattice
     [] kind = "shift_h"     -> ShiftAx(FirstCell(m), d, 2 * Q(m, d), 2 * Q(m, d))       \* half a cell off (outside for n = 1)
     [] kind = "long_q"      -> ShiftAx(FirstCell(m), d, 0, Q(m, d))                     \* 1.25 cells
     [] kind = "long_h"      -> ShiftAx(FirstCell(m), d, 0, 2 * Q(m, d))                 \* 1.5 cells
     [] kind = "short_h"     -> ShiftAx(FirstCell(m), d, 0, -2 * Q(m, d))                \* half a cell
     [] kind = "out_lo"      -> ShiftAx(FirstCell(m), d, -m.c[d], -m.c[d])               \* a whole cell outside, on the lattice
     [] kind = "out_hi"      -> ShiftAx(LastCell(m), d, m.c[d], m.c[d])
     [] kind = "over_hi"     -> ShiftAx(RegionOf(m), d, 0, m.c[d])                       \* one cell too long
     [] kind = "over_q"      -> ShiftAx(RegionOf(m), d, -Q(m, d), Q(m, d))               \* a quarter cell too large on both sides
GoodKinds == {"whole", "first", "last", "upper"}
BadKinds  == {"shift_q", "shift_h", "long_q", "long_h", "short_h", "out_lo", "out_hi", "over_hi", "over_q"}
(* a candidate dictionary: ordered <<name, box>>; `foreign` = handed over with other dimension names / units *)
Cand(names, boxes, foreign) == [subs |-> [k \in DOMAIN names |-> Sub(names[k], boxes[k])], foreign |-> foreign]
Candidates(m) ==
   {Cand(<<"a">>, <<CandBox(m, k, 1)>>, fg) : k \in GoodKinds, fg \in BOOLEAN}
   \cup {Cand(<<"a">>, <<CandBox(m, k, d)>>, FALSE) : k \in BadKinds, d \in Dims(m)}
   \cup {Cand(<<"a", "b">>, <<CandBox(m, "upper", d), CandBox(m, "first", 1)>>, FALSE) : d \in Dims(m)}
   \cup {Cand(<<"good", "bad">>, <<CandBox(m, "whole", 1), CandBox(m, k, d)>>, FALSE) : k \in {"shift_q", "long_h", "out_hi"}, d \in Dims(m)}
   \cup {Cand(<<"bad", "good">>, <<CandBox(m, k, ND(m)), CandBox(m, "last", 1)>>, FALSE) : k \in {"shift_h", "over_q"}}
   \cup {Cand(<<>>, <<>>, FALSE)}
SetRes(m, ss, cand) == IF SubsOK(m, cand.subs) THEN [ok |-> TRUE, after |-> cand.subs] ELSE [ok |-> FALSE, after |-> ss]

(* other meshes for is_aligned: offset of the origin on the quarter lattice along one axis d, a fixed kind of *)
(* offset on the other axes, same or different cell size, n2 cells                                           *)
OffsetsAx(m, d) == {Q(m, d) * j : j \in -8 .. 8}
OtherOff(m, e, kind) == CASE kind = "zero" -> 0 [] kind = "cell" -> -m.c[e] [] kind = "quarter" -> Q(m, e) [] kind = "half" -> 2 * Q(m, e)
OtherMesh(m, d, off, okind, ckind, n2) ==
   [lo |-> [e \in Dims(m) |-> m.lo[e] + (IF e = d THEN off ELSE OtherOff(m, e, okind))],
    c  |-> [e \in Dims(m) |-> IF ckind = "same" THEN m.c[e]
                              ELSE IF (ckind = "diff_d" /\ e = d) \/ (ckind = "diff_last" /\ e = ND(m)) THEN m.c[e] + 4 ELSE m.c[e]],
    n  |-> [e \in Dims(m) |-> n2]]
(* aligned: equal cell sizes and origins a whole number of cells apart *)
Aligned(m1, m2) == /\ m1.c = m2.c
                   /\ \A d \in Dims(m1) : (m2.lo[d] - m1.lo[d]) % m1.c[d] = 0

(* ---- actions ------------------------------------------------------------------------ *)
Init == /\ mesh \in Meshes
        /\ subs \in {Layout(mesh, id) : id \in Layouts}
        /\ hist = <<>>
        /\ origin = [mesh |-> mesh, subs |-> subs]
        /\ act = <<"new">>
        /\ obs = [n |-> mesh.n]

IsStepAct == act[1] \in {"new", "translate", "scale", "rotate90"}
DoStep(s) == /\ IsStepAct
             /\ Len(hist) < MaxDepth
             /\ (Len(hist) >= 1 => s \in Short /\ \A j \in DOMAIN hist : hist[j].s \in Short)
             /\ (Len(hist) >= 2 => ND(mesh) <= DeepND)
             /\ StepEnabled(mesh, subs, s)
             /\ mesh' = StepMesh(mesh, s)
             /\ subs' = StepSubs(mesh, subs, s)
             (* the history records the step and the reference point it used *)
             /\ hist' = Append(hist, [s |-> s, rp |-> IF s.op = "translate" THEN <<>> ELSE RefPt(mesh, s.ref)])
             /\ act' = <<s.op>>
             /\ obs' = [n |-> StepMesh(mesh, s).n]
             /\ UNCHANGED origin
Translate == \E s \in Steps : s.op = "translate" /\ DoStep(s)
Scale     == \E s \in Steps : s.op = "scale" /\ DoStep(s)
Rotate90  == \E s \in Steps : s.op = "rotate90" /\ DoStep(s)

CanQuery == /\ IsStepAct /\ Len(hist) <= QueryDepth
            /\ (Len(hist) >= 1 => ND(mesh) <= DeepND /\ \A j \in DOMAIN hist : hist[j].s \in Short)
QSetSubregions ==
      /\ CanQuery
      /\ act' = <<"set_subregions">>
      /\ obs' = [cand \in Candidates(mesh) |-> SetRes(mesh, subs, cand)]
      /\ UNCHANGED <<mesh, subs, hist, origin>>
QSelCentre == \E d \in Dims(mesh) :
      /\ CanQuery /\ subs # <<>> /\ ND(mesh) >= 2
      /\ act' = <<"sel_centre", d>>
      /\ obs' = SelPointRes(mesh, subs, d, CentreCoord(mesh, d))
      /\ UNCHANGED <<mesh, subs, hist, origin>>
QSelPoint == \E d \in Dims(mesh) :
      /\ CanQuery /\ subs # <<>> /\ ND(mesh) >= 2
      /\ act' = <<"sel_point", d>>
      /\ obs' = [x \in RProbesAx(mesh, d) |-> SelPointRes(mesh, subs, d, x)]
      /\ UNCHANGED <<mesh, subs, hist, origin>>
QSelRange == \E d \in Dims(mesh) :
      /\ CanQuery /\ subs # <<>>
      /\ act' = <<"sel_range", d>>
      /\ obs' = [p \in RangePairs(mesh, d) |-> SelRangeRes(mesh, subs, d, p[1], p[2])]
      /\ UNCHANGED <<mesh, subs, hist, origin>>
QGetName == \E k \in DOMAIN subs :
      /\ CanQuery
      /\ act' = <<"getitem_name", subs[k].name>>
      /\ obs' = [mesh |-> SubMesh(subs[k].box, mesh)]
      /\ UNCHANGED <<mesh, subs, hist, origin>>
QIsAligned == \E d \in Dims(mesh), okind \in {"zero", "cell", "quarter", "half"}, ckind \in {"same", "diff_d", "diff_last"} :
      /\ CanQuery /\ subs = <<>>
      /\ (ckind # "same" => okind = "zero")
      /\ act' = <<"is_aligned", d, okind, ckind>>
      /\ obs' = [p \in OffsetsAx(mesh, d) \X {1, 2} |->
                    [other |-> OtherMesh(mesh, d, p[1], okind, ckind, p[2]),
                     aligned |-> Aligned(mesh, OtherMesh(mesh, d, p[1], okind, ckind, p[2]))]]
      /\ UNCHANGED <<mesh, subs, hist, origin>>
QReload == \E fmt \in {"json", "hdf5"} :
      /\ CanQuery /\ subs # <<>>
      /\ act' = <<"reload", fmt>>
      /\ obs' = [mesh |-> mesh, subs |-> subs]             \* persistence is the identity on the subregions
      /\ UNCHANGED <<mesh, subs, hist, origin>>

Next == \/ Translate \/ Scale \/ Rotate90
        \/ QSetSubregions \/ QSelCentre \/ QSelPoint \/ QSelRange \/ QGetName \/ QIsAligned \/ QReload
Spec == Init /\ [][Next]_vars

(* ---- the property, clause by clause ------------------------------------------------- *)
TypeOK == MeshOK(mesh) /\ Len(hist) <= MaxDepth

(* whatever the history: inside, whole cells, on the lattice *)
C14_SubregionsWellFormed == SubsOK(mesh, subs)

(* a transformation moves mesh and subregions together: every subregion keeps its cells  *)
(* (translate, scale), resp. its number of cells and its extent on the untouched axes    *)
(* (rotate90); names and order are kept                                                  *)
BoxCells(m, bx) == ProdSeq([d \in Dims(m) |-> BoxSlices(bx, m)[d][2] - BoxSlices(bx, m)[d][1]])
C14_TransformKeepsCells ==
   [][ (hist' # hist) =>
         LET s == hist'[Len(hist')].s IN
         /\ Len(subs') = Len(subs)
         /\ \A k \in DOMAIN subs :
               /\ subs'[k].name = subs[k].name
               /\ BoxCells(mesh', subs'[k].box) = BoxCells(mesh, subs[k].box)
               /\ (s.op \in {"translate", "scale"} => BoxSlices(subs'[k].box, mesh') = BoxSlices(subs[k].box, mesh))
               /\ (s.op = "rotate90" =>
                     \A d \in Dims(mesh) : (d # s.a /\ d # s.b) => BoxSlices(subs'[k].box, mesh')[d] = BoxSlices(subs[k].box, mesh)[d])
               /\ (s.op = "rotate90" /\ s.k % 2 = 1 =>
                     /\ BoxSlices(subs'[k].box, mesh')[s.a][2] - BoxSlices(subs'[k].box, mesh')[s.a][1]
                           = BoxSlices(subs[k].box, mesh)[s.b][2] - BoxSlices(subs[k].box, mesh)[s.b][1]
                     /\ BoxSlices(subs'[k].box, mesh')[s.b][2] - BoxSlices(subs'[k].box, mesh')[s.b][1]
                           = BoxSlices(subs[k].box, mesh)[s.a][2] - BoxSlices(subs[k].box, mesh)[s.a][1])
     ]_vars
(* four quarter turns (or k = 4 j) give the subregions back; k and k mod 4 agree *)
C14_RotationPeriod ==
   \A r \in Refs : \A k \in DOMAIN subs : ND(mesh) >= 2 =>
      /\ RotBox(RotBox(RotBox(RotBox(subs[k].box, 1, 2, 1, RefPt(mesh, r)), 1, 2, 1, RefPt(mesh, r)), 1, 2, 1, RefPt(mesh, r)), 1, 2, 1, RefPt(mesh, r))
            = subs[k].box
      /\ RotBox(subs[k].box, 1, 2, -1, RefPt(mesh, r)) = RotBox(subs[k].box, 1, 2, 3, RefPt(mesh, r))
      /\ RotBox(RotBox(subs[k].box, 1, 2, 1, RefPt(mesh, r)), 2, 1, 1, RefPt(mesh, r)) = subs[k].box

(* assignment: accepted iff every candidate is well-formed; otherwise the previous subregions stay *)
C14_SetterRejectsAndKeeps == act[1] = "set_subregions" =>
   \A cand \in DOMAIN obs :
      /\ obs[cand].ok <=> \A k \in DOMAIN cand.subs : SubOK(mesh, cand.subs[k].box)
      /\ obs[cand].ok => obs[cand].after = cand.subs /\ SubsOK(mesh, obs[cand].after)
      /\ ~obs[cand].ok => obs[cand].after = subs
(* vacuity: both outcomes occur, and every bad kind really is bad, every good kind good *)
C14_CandidatesNonVacuous == act[1] = "set_subregions" =>
   /\ \E cand \in DOMAIN obs : obs[cand].ok /\ cand.subs # <<>>
   /\ \E cand \in DOMAIN obs : ~obs[cand].ok
   /\ \A k \in BadKinds, d \in Dims(mesh) : ~SubOK(mesh, CandBox(mesh, k, d))
   /\ \A k \in GoodKinds, d \in Dims(mesh) : SubOK(mesh, CandBox(mesh, k, d))

(* selections keep exactly the overlapping subregions, clipped, and these are well-formed in the result *)
SelCases == CASE act[1] = "sel_centre" -> {<<obs, CentreCoord(mesh, act[2])>>}
              [] act[1] \in {"sel_point", "sel_range"} -> {<<obs[p], p>> : p \in DOMAIN obs}
              [] OTHER -> {}
SelResOK(r, d, plane) ==
   /\ MeshOK(r.mesh)
   /\ SubsOK(r.mesh, r.subs)
   /\ Names(r.subs) \subseteq Names(subs)
   /\ \A k \in DOMAIN subs :
         LET s == subs[k]
             reg == RegionOf(r.mesh)
             (* the part of the subregion inside the selected block (the dropped axis ignored for a plane) *)
             sb  == IF plane THEN DropBox(s.box, d) ELSE s.box
             kept == \E j \in DOMAIN r.subs : r.subs[j].name = s.name
         IN IF plane
            THEN (* kept iff the selected layer of cells belongs to the subregion *)
                 /\ kept <=> (\E j \in DOMAIN r.subs : r.subs[j] = Sub(s.name, sb))
            ELSE /\ kept <=> BoxesOverlap(sb, reg)
                 /\ kept => \E j \in DOMAIN r.subs : r.subs[j] = Sub(s.name, BoxMeet(sb, reg))
C14_SelKeepsOverlappingClipped == act[1] \in {"sel_centre", "sel_point", "sel_range"} =>
   \A cs \in SelCases : cs[1].ok =>
      /\ cs[1].r \in cs[1].alt
      /\ \A r \in cs[1].alt : SelResOK(r, act[2], act[1] # "sel_range")
      /\ (act[1] # "sel_range" =>
            \A k \in DOMAIN subs :
               LET sl == BoxSlices(subs[k].box, mesh)[act[2]]
                   kc == P2IAx(mesh, act[2], cs[2])
               IN (\E j \in DOMAIN cs[1].r.subs : cs[1].r.subs[j].name = subs[k].name) <=> (sl[1] <= kc /\ kc < sl[2]))
C14_SelNonVacuous == act[1] = "sel_range" =>
   /\ \E cs \in SelCases : cs[1].ok /\ Len(cs[1].r.subs) >= 1
   /\ \E cs \in SelCases : ~cs[1].ok

(* the mesh of a named subregion: exactly that region, the parent's cell size *)
C14_NamedExtraction == act[1] = "getitem_name" =>
   LET s == subs[CHOOSE k \in DOMAIN subs : subs[k].name = act[2]] IN
      /\ RegionOf(obs.mesh) = s.box
      /\ obs.mesh.c = mesh.c
      /\ \A d \in Dims(mesh) : obs.mesh.n[d] * mesh.c[d] = s.box.hi[d] - s.box.lo[d] /\ obs.mesh.n[d] >= 1

(* aligned exactly when the cell sizes agree and the origins differ by whole cells *)
C14_IsAligned == act[1] = "is_aligned" =>
   /\ \A p \in DOMAIN obs :
         obs[p].aligned <=> (/\ obs[p].other.c = mesh.c
                             /\ \A d \in Dims(mesh) : \E j \in -40 .. 40 : obs[p].other.lo[d] = mesh.lo[d] + j * mesh.c[d])
   /\ (act[4] = "same" /\ act[3] \in {"zero", "cell"} => \E p \in DOMAIN obs : obs[p].aligned)
   /\ \E p \in DOMAIN obs : ~obs[p].aligned

C14_ReloadIdentity == act[1] = "reload" => obs.subs = subs /\ obs.mesh = mesh /\ SubsOK(obs.mesh, obs.subs)
=============================================================================
