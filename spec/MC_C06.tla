------------------------------ MODULE MC_C06 ------------------------------
EXTENDS C06
MaxN_quick    == <<4, 3, 3, 2>>
MaxN_thorough == <<6, 4, 3, 2>>
(* pairwise different cell sizes along the axes of every mesh (anisotropic cells) *)
CProf_quick    == {<<1, 2, 3, 5>>, <<3, 1, 5, 2>>}
CProf_thorough == {<<1, 2, 3, 5>>, <<3, 1, 5, 2>>, <<5, 3, 2, 1>>}
LoProf_quick    == {<<0, 0, 0, 0>>, <<-7, 4, -12, 20>>}
LoProf_thorough == {<<0, 0, 0, 0>>, <<40, -36, 9, -4>>}
NVs_quick     == {1, 3}
NVs_thorough  == {1, 2, 3, 4}
Pats_quick    == {1}
Pats_thorough == {1, 4}
Coefs_quick    == {<<2, -3>>}
Coefs_thorough == {<<2, -3>>, <<1, 1>>, <<-1, 4>>}
Shifts_quick    == {<<5, -3, 2, -8>>}
Shifts_thorough == {<<5, -3, 2, -8>>, <<-11, 0, 6, 1>>}
Scales_quick    == {3}
Scales_thorough == {2, 3}
=============================================================================
