------------------------------ MODULE C08Trace ------------------------------
(* Channel T for C08: programs executed on the real library (random 1-4-D meshes,       *)
(* random masks; algebra, derived fields, cell-mapping methods, HDF5/VTK round trips,   *)
(* the validity setter, in-place writes into result masks) are checked call by call.    *)
(* The machine's variables are bound to the *observed* registers - values projected to  *)
(* exact rationals, masks, mask dtype, and `vo` = identity of the observed validity     *)
(* array (two registers get the same vo iff `is` or numpy.shares_memory holds) - and    *)
(* the clauses C08_* are evaluated on them; the observed mask is also compared with     *)
(* the specification's own operators.  Verdicts are total.                              *)
EXTENDS C08, Json, IOUtils

VARIABLES tid, l, rest, inb, fin
tvars == <<init, regs, prog, obs, tid, l, rest, inb, fin>>

Traces == JsonDeserialize(IOEnv.TRACE_FILE)
VerdAt(c, name, evno) == IF c THEN TRUE ELSE PrintT(<<"VERDICT", tid, evno, name>>)
Verd(c, name) == VerdAt(c, name, l + 1)
SeqToSet(s) == {s[k] : k \in DOMAIN s}

TInit == LET TT == Traces
         IN \E k \in 1 .. Len(TT) :
               /\ tid = TT[k].id
               /\ l = 0
               /\ rest = TT[k].ev
               /\ init = <<<<>>, [d |-> 0, x |-> {}]>>
               /\ regs = TT[k].regs
               /\ prog = <<>>
               /\ obs = [ok |-> TRUE, live |-> TRUE, r |-> 0, ch |-> {}]
               /\ inb = FALSE /\ fin = FALSE

(* valid='norm' on observed value classes: "big" (> 1.001e-8) valid, "zero"/"tiny" (< 0.999e-8) invalid, "band" unconstrained *)
NormOnClasses(cls, valid) == \A k \in DOMAIN cls : cls[k] # "band" => (valid[k] <=> cls[k] = "big")

(* the clauses of the property on the observed registers (evaluated at the start of the   *)
(* following step: TLC evaluates primed operator applications very slowly)                *)
ClausesOnObserved ==
   l > 0 => /\ (inb => VerdAt(C08_Propagation, "C08_Propagation", l))
            /\ VerdAt(C08_OwnMaskNew, "C08_OwnMask-new", l)
            /\ VerdAt(C08_OwnMaskWrite, "C08_OwnMask-write", l)
            /\ VerdAt(C08_OwnMaskSetter, "C08_OwnMask-setter", l)
            /\ VerdAt(C08_BoolOfMeshShapeNew, "C08_BoolOfMeshShape", l)
            /\ (inb => VerdAt(C08_SetValidKeepsValues, "C08_SetValidKeepsValues", l))
            /\ (inb => VerdAt(C08_NormMarksNonzero, "C08_NormMarksNonzero", l))
            /\ VerdAt(C08_SetValidMask, "C08_SetValidMask", l)

TFinish == /\ rest = <<>> /\ ~fin
           /\ ClausesOnObserved
           /\ fin' = TRUE
           /\ UNCHANGED <<init, regs, prog, obs, tid, l, rest, inb>>

TStep ==
   /\ rest # <<>>
   /\ ClausesOnObserved
   /\ LET e   == Head(rest)
          ins == e.ins
          inm == InModel(regs, ins)
          acc == Accepted(regs, ins)
          w   == IF ins[1] \in {"set_valid", "mutate_valid"} THEN ins[2] ELSE Len(regs) + 1
      IN /\ prog' = Append(prog, ins)
         (* adopt the observed register file: every register as observed after the call *)
         /\ regs' = IF ~e.ok THEN regs ELSE IF e.full THEN e.regs ELSE Append(regs, e.reg)
         /\ obs'  = IF e.ok THEN [ok |-> TRUE, live |-> TRUE, r |-> w, reg |-> IF e.full THEN e.regs[w] ELSE e.reg, ch |-> SeqToSet(e.ch),
                                  pre |-> IF w <= Len(regs) THEN regs[w] ELSE <<>>]
                    ELSE Rej
         /\ inb' = (inm /\ acc /\ e.ok)
         (* the observed masks against the specification's own operators *)
         /\ IF inm /\ acc /\ e.ok
            THEN LET rs2 == Apply(regs, ins, l + 1)
                     er  == IF e.full THEN e.regs ELSE Append(regs, e.reg)
                     cl  == IF ins[1] = "mutate_valid" THEN "C08_OwnMask-spec" ELSE IF ins[1] = "set_valid" THEN "C08_SetValidMask" ELSE "C08_Propagation"
                 IN /\ Verd(Len(er) = Len(rs2), "C08-registers")
                    \* an in-place write: only the written register is compared with the model (a partial view
                    \* of another register's mask changes a different cell there; C08_OwnMaskWrite judges that)
                    /\ Verd(Len(er) = Len(rs2) => \A k \in DOMAIN rs2 : (IsField(rs2[k]) /\ (ins[1] \in {"mutate_valid", "set_valid"} => k = w))
                                                                          => er[k].valid = rs2[k].valid, cl)
                    /\ Verd(Len(er) = Len(rs2) => \A k \in DOMAIN rs2 : IsField(rs2[k]) => er[k].m.n = rs2[k].m.n, "C08_BoolOfMeshShape-n")
            ELSE TRUE
         /\ (e.ok /\ ins[1] = "set_valid" /\ ins[4][1] = "norm") => Verd(NormOnClasses(e.cls, e.regs[w].valid), "C08_NormMarksNonzero-classes")
   /\ l' = l + 1
   /\ rest' = Tail(rest)
   /\ UNCHANGED <<init, tid, fin>>
TNext == TStep \/ TFinish
TSpec == TInit /\ [][TNext]_tvars
=============================================================================
