SPECIFICATION Spec
CONSTANTS
  Scenarios <- Scen_A2
  Acts <- Acts_alias
  MaxDepth = 2
  MaxFields = 3
  AllowAlias = "all"
  TransVs <- TransVs_def
  ScaleFs <- ScaleFs_q
  RotKs <- RotKs_q2
  RotRefs <- RotRefs_q
  RotPairs <- RotPairs_q2
  Rich = FALSE
  LastFresh = TRUE
  PadSpecs <- Pad_q2
  Masks <- Masks_q
  Nums <- Nums_q
CHECK_DEADLOCK FALSE
INVARIANT DF_RegionNormal
INVARIANT DF_MeshNormal
INVARIANT DF_FieldShapes
INVARIANT DF_SubregionsWellFormed
INVARIANT DF_OwnValidity
INVARIANT DF_OwnArray
INVARIANT DF_Labels
INVARIANT DF_RootsLive
INVARIANT DF_RejectUnchanged_S
INVARIANT DF_OperandsUnchanged_S
INVARIANT DF_ValidityRule_S
INVARIANT DF_SetValid_S
INVARIANT DF_Update_S
INVARIANT DF_Cellwise_S
INVARIANT DF_PositionsKept_S
INVARIANT DF_CellAligned_S
INVARIANT DF_SelSubregions_S
INVARIANT DF_Persist_S
INVARIANT DF_InplaceEqualsCopy_S
INVARIANT DF_InplaceReturnsSelf_S
INVARIANT DF_AffineExact_S
INVARIANT DF_Integrate_S
INVARIANT DF_SetSub_S
INVARIANT DF_QueryPure_S
INVARIANT DF_Relabel_S
