------------------------------ MODULE C18Trace ------------------------------
(* Channel T for C18: programs of rotate()/clear_rotation() executed on the real       *)
(* FieldRotator with GENERAL-AXIS rational rotations (integer quaternions), random     *)
(* meshes, default or explicit target resolution.  The accumulated rotation is tracked *)
(* by the specification (left multiplication); region, classes and values are          *)
(* recomputed by the operators of C18 from the OBSERVED resolution and compared with   *)
(* the observed region / cell values.  Verdicts are total.                             *)
EXTENDS C18, Json, IOUtils

VARIABLES tid, l
tvars == <<mesh, fld, prog, rot, act, obs, tid, l>>

Traces == JsonDeserialize(IOEnv.TRACE_FILE)
T  == Traces[tid]
Ev == Traces[tid].ev[l + 1]
Verd(c, name) == IF c THEN TRUE ELSE PrintT(<<"VERDICT", Traces[tid].id, l + 1, name>>)

(* rotation of the integer quaternion (x, y, z, w), scalar last *)
QuatRot(q) == LET x == q[1]  y == q[2]  z == q[3]  w == q[4] IN
   Reduce(<<<<w * w + x * x - y * y - z * z, 2 * (x * y - w * z), 2 * (x * z + w * y)>>,
            <<2 * (x * y + w * z), w * w - x * x + y * y - z * z, 2 * (y * z - w * x)>>,
            <<2 * (x * z - w * y), 2 * (y * z + w * x), w * w - x * x - y * y + z * z>>>>,
          w * w + x * x + y * y + z * z)
Proper(r) == MMul(r.m, MT(r.m)) = MScal(r.d * r.d) /\ Det3(r.m) = r.d * r.d * r.d

TInit == /\ tid \in 1 .. Len(Traces)
         /\ l = 0
         /\ mesh = Traces[tid].mesh
         /\ fld = Traces[tid].fld
         /\ prog = <<>>
         /\ rot = IdRot
         /\ act = <<"new">>
         /\ obs = [ok |-> TRUE]

CellExp(r2, c) == CellObsQ(mesh, fld, r2, QVec(mesh, r2, Ev.n, c.t), Qden(r2, Ev.n), UV(r2, fld))
StepRotate ==
   /\ Ev.op = "rotate"
   /\ LET r2    == RMulRot(QuatRot(Ev.q), rot)
          depth == Len(SinceClear(prog)) + 1
          name  == IF depth >= 2 THEN "C18_Composition" ELSE "C18_Values"
          exps  == [k \in DOMAIN Ev.cells |-> CellExp(r2, Ev.cells[k])]
      IN /\ rot' = r2
         /\ prog' = Append(prog, "q")
         /\ act' = <<"rotate", Ev.q, Ev.n>>
         /\ Verd(Proper(r2), "C18_ProperRotation")
         /\ Verd(Ev.ok, "rotate-raised")
         /\ Verd(Ev.ok => Ev.halfok /\ \A i \in D3 : Ev.half[i] = RNorm(Hnum(mesh, r2, i), 2 * r2.d), "C18_BoundingBox")
         /\ Verd(Ev.ok /\ Ev.nreq # <<>> => Ev.n = Ev.nreq, "C18_Region-n")
         /\ \A k \in DOMAIN Ev.cells :
               LET c == Ev.cells[k]  e == exps[k] IN
               Verd(e.val # <<>> => (\A j \in DOMAIN c.ok : c.ok[j]) /\ c.val = e.val,
                    IF e.cls = 0 THEN "C18_ZeroOutside" ELSE name)
         /\ PrintT(<<"DONE", Traces[tid].id, l + 1,
                     Cardinality({k \in DOMAIN exps : exps[k].cls = 1}),
                     Cardinality({k \in DOMAIN exps : exps[k].cls = 0}),
                     Cardinality({k \in DOMAIN exps : exps[k].cls \in {2, 3, 4}})>>)
StepClear ==
   /\ Ev.op = "clear"
   /\ rot' = IdRot
   /\ prog' = Append(prog, "clear")
   /\ act' = <<"clear">>
   /\ Verd(Ev.same, "C18_ClearRestores")

TNext == /\ l < Len(Traces[tid].ev)
         /\ (StepRotate \/ StepClear)
         /\ l' = l + 1
         /\ obs' = [ok |-> TRUE]
         /\ UNCHANGED <<mesh, fld, tid>>
TSpec == TInit /\ [][TNext]_tvars
=============================================================================
