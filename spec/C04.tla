-------------------------------- MODULE C04 --------------------------------
(* C04 - derivatives are exact on low-degree polynomials, linear, and blind across     *)
(* gaps; a periodic direction is a ring.                                               *)
(*                                                                                     *)
(* State: one grid line configuration cfg = [L, valid, order, pbc, r2v] (line length,   *)
(* validity pattern, derivative order, periodic direction?, restrict2valid flag), the  *)
(* last public call `act` and what that call returns `obs`.  The public call is        *)
(* Field.diff(direction, order, restrict2valid); it is issued                          *)
(*   - on the L unit vectors (QDiffUnit): obs.m is the operator as an L x L matrix of  *)
(*     numerators (first derivative over 2h, second over h^2), and                     *)
(*   - on data whose derivative the PROPERTY determines without reference to any       *)
(*     stencil (QDiffData): an own low-degree polynomial on every run, garbage on the  *)
(*     invalid cells and on runs too short to differentiate; arbitrary data on a ring. *)
(* The reference operator (C04Lib layer 1, a transcription of operators.py) produces   *)
(* obs; the invariants C04_* (C04Lib layer 2) state the property on obs and never      *)
(* mention the stencil.  TLC proves the reference operator is in the class for every   *)
(* L <= MaxL, every validity pattern, both orders, open and periodic, r2v on and off.  *)
EXTENDS C04Lib, TLC

CONSTANTS MaxL,        \* longest line
          Variants     \* set of data variants (positive integers)

VARIABLES cfg, act, obs
vars == <<cfg, act, obs>>

Configs == UNION {
   {[L |-> L, valid |-> v, order |-> o, pbc |-> p, r2v |-> r] :
        v \in [1 .. L -> BOOLEAN], o \in {1, 2}, p \in BOOLEAN, r \in BOOLEAN}
   : L \in 1 .. MaxL}

Eff(c)    == EffValid(c.valid, c.r2v)
Ring(c)   == IsRing(c.valid, c.pbc, c.r2v)
Runs(c)   == LineRuns(c.valid, c.pbc, c.r2v)
Diff(c, f) == DiffLine(f, c.valid, c.order, c.pbc, c.r2v)

(* ---- data whose derivative is determined by the property --------------------------- *)
(* coefficient of q^p of the polynomial on the run that starts at cell r1, variant w    *)
Coef(w, r1, p) == CASE p = 0 -> 5 - 2 * r1 + w
                    [] p = 1 -> 2 * r1 - 2 * w - 1
                    [] p = 2 -> w + (r1 % 3)
                    [] p = 3 -> 1 + ((r1 + w) % 2)
PolyVal(w, r1, deg, q) == SumSeq([pp \in 1 .. (deg + 1) |-> Coef(w, r1, pp - 1) * Pow(q, pp - 1)])
PolyDer(w, r1, deg, order, q) == SumSeq([pp \in 1 .. (deg + 1) |-> Coef(w, r1, pp - 1) * ExactD(order, q, pp - 1)])
Data(c, w) ==
   [j \in 1 .. c.L |->
      IF Ring(c) THEN ((j * j * (w + 1) + 3 * j * w) % 7) - 3
      ELSE IF ~Eff(c)[j] THEN 11 + 7 * j * w - j * j                      \* must not matter
      ELSE LET r == RunOf(Runs(c), j) IN
           IF Len(r) <= c.order THEN 2 * j + w                            \* too short: result 0
           ELSE PolyVal(w, r[1], MaxDeg(c.order, Len(r)), PosIn(r, j))]
(* what the property demands for that data (numerators)                                 *)
ExactOut(c, w) ==
   IF Ring(c) THEN RingDiff(Data(c, w), c.order)
   ELSE [j \in 1 .. c.L |->
           IF ~Eff(c)[j] THEN 0
           ELSE LET r == RunOf(Runs(c), j) IN
                IF Len(r) <= c.order THEN 0
                ELSE PolyDer(w, r[1], MaxDeg(c.order, Len(r)), c.order, PosIn(r, j))]

(* which clause of the property decides cell j (used to key disagreements)              *)
CellClass(c, j) ==
   IF Ring(c) THEN [kind |-> "ring", seam |-> FALSE]
   ELSE IF ~Eff(c)[j] THEN [kind |-> "invalid", seam |-> FALSE]
   ELSE LET r == RunOf(Runs(c), j) IN
        [kind |-> IF Len(r) <= c.order THEN "short" ELSE "run", seam |-> c.pbc /\ CrossesSeam(r, c.L)]

(* ---- actions ----------------------------------------------------------------------- *)
(* queries are issued from the fresh field only: they do not change it                  *)
Fresh == act[1] = "new"
Init == cfg \in Configs /\ act = <<"new">> /\ obs = [valid |-> cfg.valid]

QDiffUnit == /\ Fresh
             /\ act' = <<"diff_unit">>
             /\ obs' = [m |-> RefMatrix(cfg.valid, cfg.order, cfg.pbc, cfg.r2v), valid |-> cfg.valid,
                        code |-> CodeMatrix(cfg.valid, cfg.order, cfg.pbc, cfg.r2v)]
             /\ UNCHANGED cfg
QDiffData == Fresh /\ \E w \in Variants :
             /\ act' = <<"diff_data", w>>
             /\ obs' = [f |-> Data(cfg, w), out |-> Diff(cfg, Data(cfg, w)), valid |-> cfg.valid,
                        cls |-> [j \in 1 .. cfg.L |-> CellClass(cfg, j)]]
             /\ UNCHANGED cfg

Next == QDiffUnit \/ QDiffData
Spec == Init /\ [][Next]_vars

(* ---- the property, clause by clause ------------------------------------------------ *)
TypeOK == /\ cfg.L \in 1 .. MaxL /\ Len(cfg.valid) = cfg.L /\ cfg.order \in {1, 2}
          /\ act[1] = "diff_unit" => Len(obs.m) = cfg.L
          /\ act[1] = "diff_data" => Len(obs.out) = cfg.L
IsUnit == act[1] = "diff_unit"
(* each maximal run of valid cells is differentiated on its own, exactly on polynomials *)
C04_PolyExact     == IsUnit /\ ~Ring(cfg) => PolyExact(obs.m, 1, Runs(cfg), cfg.order)
C04_ShortRunsZero == IsUnit /\ ~Ring(cfg) => ShortRunsZero(obs.m, Runs(cfg), cfg.order)
C04_InvalidZero   == IsUnit /\ ~Ring(cfg) => InvalidZero(obs.m, Eff(cfg))
C04_Local         == IsUnit /\ ~Ring(cfg) => LocalToRuns(obs.m, Runs(cfg))
(* restriction switched off: the whole line is one run (open) or a ring (periodic)      *)
C04_UnrestrictedIsOneRun == ~cfg.r2v =>
      IF cfg.pbc THEN Ring(cfg) ELSE Runs(cfg) = {[k \in 1 .. cfg.L |-> k]}
(* a ring without ends: centred difference with wrap-around, every L >= 1               *)
C04_RingIsCentredWrap == IsUnit /\ Ring(cfg) => RingExact(obs.m, 1, cfg.order)
(* periodic direction: commutes with cyclic shifts of data and validity together        *)
C04_ShiftCommutes == IsUnit /\ cfg.pbc =>
      LET Ms == [s \in 1 .. cfg.L |-> IF s = 1 THEN obs.m
                                     ELSE RefMatrix(Roll(cfg.valid, s - 1), cfg.order, cfg.pbc, cfg.r2v)]
      IN ShiftCommutesOn(Ms, LAMBDA s, i : TRUE)
(* the runs that matter exist in the model (vacuity guard, checked by the harness too)  *)
(* linear in the field values: the call on data equals the unit-vector matrix applied   *)
C04_Linear == act[1] = "diff_data" =>
      obs.out = MatVec(RefMatrix(cfg.valid, cfg.order, cfg.pbc, cfg.r2v), obs.f)
(* the reference operator returns exactly what the property determines                  *)
C04_ExactOnRunPolynomials == act[1] = "diff_data" => obs.out = ExactOut(cfg, act[2])
(* validity is kept                                                                     *)
C04_KeepsValidity == obs.valid = cfg.valid

(* NOT part of the property and expected to be VIOLATED (C04_d13.cfg): the transcription  *)
(* of what Field.diff does today in a periodic direction (wrap-pad ONE cell, split,       *)
(* crop) does not commute with cyclic shifts once a run crosses the seam - the model-     *)
(* level witness of the known finding D13.                                                *)
D13_TodaysCodeCommutesWithShifts == IsUnit /\ cfg.pbc =>
      LET Ms == [s \in 1 .. cfg.L |-> CodeMatrix(Roll(cfg.valid, s - 1), cfg.order, cfg.pbc, cfg.r2v)]
      IN ShiftCommutesOn(Ms, LAMBDA s, i : TRUE)
=============================================================================
