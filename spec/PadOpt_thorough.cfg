SPECIFICATION Spec
CONSTANTS
  Shapes <- Shapes_thorough
  CfgPats <- CfgPats_thorough
  WPairs <- WPairs_thorough
  Opts <- Opts_thorough
CHECK_DEADLOCK FALSE
INVARIANT TypeOK
INVARIANT PadOpt_AddsCells
INVARIANT PadOpt_PaddingFollowsMode
INVARIANT PadOpt_ValidityLikeData
INVARIANT PadOpt_LinesIndependent
