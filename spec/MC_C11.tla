------------------------------ MODULE MC_C11 ------------------------------
EXTENDS C11
MaxN_quick    == <<8, 5, 3, 2>>
MaxN_thorough == <<12, 6, 4, 2>>
MaxCells_quick    == 20
MaxCells_thorough == 32
CProf_quick    == {<<1, 2, 3, 5>>, <<3, 1, 5, 2>>}
CProf_thorough == {<<1, 2, 3, 5>>, <<3, 1, 5, 2>>}
LoProf_quick    == {<<-7, 4, -12, 20>>}
LoProf_thorough == {<<0, 0, 0, 0>>, <<-7, 4, -12, 20>>}
NVs_quick     == {1, 3}
NVs_thorough  == {1, 2, 3}
Pats_all      == {1}
Coefs_all     == {<<2, -3>>}
=============================================================================
