------------------------------ MODULE C13Core ------------------------------
(* The one-dimensional integer core of C13, for UNBOUNDED coordinates, vectors, factors and    *)
(* reference points: a region [lo, hi] cut into n cells on the integer lattice.  TLC explores   *)
(* histories of the full model within small bounds (C13.tla); here Apalache proves that the      *)
(* normal form  lo < hi /\ n >= 1 /\ cell * n = hi - lo  is an INDUCTIVE invariant of the three   *)
(* transformation steps (translation by any vector, scaling by any non-zero integer factor about *)
(* any reference point, the point reflection that a half turn is in one dimension), i.e. it     *)
(* holds after histories of any length with arguments of any size.                              *)
(*   apalache-mc check --init=IndInit --inv=IndInv --length=1 C13Core.tla                        *)
(*   apalache-mc check --init=Init    --inv=IndInv --length=0 C13Core.tla                        *)
EXTENDS Integers

VARIABLES
  \* @type: Int;
  lo,
  \* @type: Int;
  hi,
  \* @type: Int;
  n,
  \* @type: Int;
  c

Min2(a, b) == IF a <= b THEN a ELSE b
Max2(a, b) == IF a <= b THEN b ELSE a

(* c is the cell size the mesh reports: "cell * n equal to the region edges" *)
IndInv == lo < hi /\ n >= 1 /\ c >= 1 /\ hi - lo = n * c
Abs(x) == IF x < 0 THEN 0 - x ELSE x

Init == lo = 0 /\ hi = 12 /\ n = 3 /\ c = 4
IndInit == lo \in Int /\ hi \in Int /\ n \in Int /\ c \in Int /\ IndInv

Translate == \E v \in Int : lo' = lo + v /\ hi' = hi + v /\ n' = n /\ c' = c
(* x -> r + s (x - r), corners sorted afterwards (negative factors); a zero factor is refused *)
Scale == \E s \in Int, r \in Int :
            /\ s # 0
            /\ lo' = Min2(r + s * (lo - r), r + s * (hi - r))
            /\ hi' = Max2(r + s * (lo - r), r + s * (hi - r))
            /\ n' = n /\ c' = Abs(s) * c
(* a half turn about r in the plane of this axis: x -> 2 r - x *)
HalfTurn == \E r \in Int : lo' = 2 * r - hi /\ hi' = 2 * r - lo /\ n' = n /\ c' = c

Next == Translate \/ Scale \/ HalfTurn
=============================================================================
