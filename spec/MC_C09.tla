------------------------------ MODULE MC_C09 ------------------------------
(* Bounds of the C09 model: curated families of fields (meshes to 3x2x2 / 4x3x2, 1-6    *)
(* components, label classes, units, subregions) instead of a full product, so that     *)
(* every state can also be replayed on the real library.                                *)
EXTENDS C09

(* value ids: id = (7 cell + 5 component + offset) mod K with K prime - every axis       *)
(* transposition and every component mix-up changes some token                          *)
MkVals(n, nv, off, K) == [k \in 1 .. ProdSeq(n) |-> [c \in 1 .. nv |-> ((k - 1) * 7 + (c - 1) * 5 + off) % K]]
G1 == <<<<0, 0, 0>>, <<4, 4, 4>>>>
G2 == <<<<-8, 4, 20>>, <<4, 8, 12>>>>
G3 == <<<<40, -36, 8>>, <<12, 4, 8>>>>
(* subregion layouts: none / the first x-layer / the whole region listed BEFORE the first layer *)
SubsOf(kind, g, n) ==
   LET lo == g[1]
       hi == [d \in 1 .. 3 |-> g[1][d] + g[2][d] * n[d]]
       a  == [name |-> "a", lo |-> lo, hi |-> [hi EXCEPT ![1] = lo[1] + g[2][1]]]
       w  == [name |-> "w2", lo |-> lo, hi |-> hi]
       t  == [name |-> "top", lo |-> [lo EXCEPT ![3] = hi[3] - g[2][3]], hi |-> hi]
   IN CASE kind = 0 -> <<>> [] kind = 1 -> <<a>> [] kind = 2 -> <<w, a>> [] kind = 3 -> <<t, w, a>>
LS == [s1 |-> [nv |-> 1, l |-> <<>>, c |-> "scalar"],
       p2 |-> [nv |-> 2, l |-> <<"a", "b">>, c |-> "plain"],
       p3 |-> [nv |-> 3, l |-> <<"x", "y", "z">>, c |-> "plain"],
       m3 |-> [nv |-> 3, l |-> <<"mx", "my", "mz">>, c |-> "multi"],
       u3 |-> [nv |-> 3, l |-> <<"m_x", "m_y", "m_z">>, c |-> "under"],
       v3 |-> [nv |-> 3, l |-> <<"m_x", "b", "c">>, c |-> "under"],
       f3 |-> [nv |-> 3, l |-> <<"ft_x", "ft_y", "ft_z">>, c |-> "under"],
       d3 |-> [nv |-> 3, l |-> <<"a-b", "c", "d">>, c |-> "nonword"],
       r3 |-> [nv |-> 3, l |-> <<"m_mean", "m_y", "m_z">>, c |-> "reserved"],     \* the part after `_` is a method name of Field
       m4 |-> [nv |-> 4, l |-> <<"v0", "v1", "v2", "v3">>, c |-> "multi"],
       m6 |-> [nv |-> 6, l |-> <<"xx", "yy", "zz", "xy", "xz", "yz">>, c |-> "multi"]]
Mk(n, g, ls, unit, munit, sk, off, K) ==
   [lo |-> g[1], c |-> g[2], n |-> n, nv |-> LS[ls].nv, labels |-> LS[ls].l, lclass |-> LS[ls].c,
    unit |-> unit, munit |-> munit, vals |-> MkVals(n, LS[ls].nv, off, K), subs |-> SubsOf(sk, g, n)]

UM_quick == {<<None, "m">>, <<"A/m", "m">>, <<"T", "nm">>, <<"J m-3", "m">>}      \* the last unit contains a blank
UM_all   == {<<u, m>> : u \in {None, "A/m", "T", "J/m^3", "J m-3"}, m \in {"m", "nm"}}
(* A: data order and geometry;  B: labels and units;  C: subregions *)
FamA(NS, GS, K)  == {Mk(n, g, ls, "A/m", "m", 0, 0, K) : n \in NS, g \in GS, ls \in {"s1", "p3"}}
FamB(n, UM, K)   == {Mk(n, G1, ls, um[1], um[2], 0, 1, K) : ls \in DOMAIN LS, um \in UM}
FamC(NS, SK, K)  == {Mk(n, G2, ls, None, "nm", sk, 3, K) : n \in NS, sk \in SK, ls \in {"s1", "m3"}}

Fields_quick == FamA({<<1, 1, 1>>, <<2, 1, 1>>, <<1, 2, 1>>, <<1, 1, 2>>, <<3, 2, 2>>, <<2, 3, 2>>}, {G1, G2}, 13)
                \cup FamB(<<2, 2, 1>>, UM_quick, 13)
                \cup FamC({<<3, 2, 2>>}, {1, 2}, 13)
(* the third file has twelve values: room for a hole of the footer's length in both binary forms *)
Fault_quick  == {Mk(<<1, 1, 1>>, G1, "s1", "A/m", "m", 0, 0, 13), Mk(<<2, 1, 1>>, G2, "p3", "A/m", "m", 0, 0, 13),
                 Mk(<<2, 2, 1>>, G1, "p3", "A/m", "m", 0, 1, 13)}

Fields_thorough == FamA({<<1, 1, 1>>, <<2, 1, 1>>, <<1, 2, 1>>, <<1, 1, 2>>, <<2, 2, 1>>, <<1, 2, 2>>, <<3, 2, 2>>, <<2, 3, 2>>,
                         <<2, 2, 3>>, <<4, 3, 2>>}, {G1, G2, G3}, 17)
                   \cup FamB(<<2, 2, 1>>, UM_all, 17) \cup FamB(<<1, 2, 3>>, UM_quick, 17)
                   \cup FamC({<<3, 2, 2>>, <<2, 2, 2>>}, {1, 2, 3}, 17)
Fault_thorough  == {Mk(n, g, ls, "A/m", "m", 0, 0, 17) : n \in {<<1, 1, 1>>, <<2, 1, 1>>, <<1, 2, 1>>, <<1, 1, 2>>},
                                                          g \in {G1}, ls \in {"s1", "p3"}}
                   \cup {Mk(<<2, 1, 1>>, G2, "p3", "A/m", "m", 0, 0, 17), Mk(<<2, 2, 1>>, G1, "p3", "A/m", "m", 0, 0, 17),
                         Mk(<<1, 2, 3>>, G1, "m4", "A/m", "m", 0, 1, 17)}
HdrCuts_all == 0 .. 3
=============================================================================
