SPECIFICATION TSpec
CONSTANTS
  TableND = {}
  TableNV = {}
  MeshCfgs = {}
  RotCfgs = {}
  RotK = {}
CHECK_DEADLOCK FALSE
