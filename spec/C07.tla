-------------------------------- MODULE C07 --------------------------------
(* C07 - sub-selection, padding and resampling keep every value at its physical        *)
(* position; the result mesh is cell-aligned with the source.                          *)
(*                                                                                     *)
(* State: a mesh configuration (Lattice.tla), a subregion layout, the last public call *)
(* (act) and what that call must return (obs).  A field over the mesh is an array in   *)
(* the convention of Cells.tla; every operation of this property is an *index map*     *)
(* that is separable per axis, so a result is described per axis:                      *)
(*                                                                                     *)
(*   block results (sel, [], region2slices): per axis a segment [f, t, lo] - the       *)
(*     result keeps source cells f .. t-1 of that axis and its lower corner is lo;     *)
(*     a plane selection additionally drops axis `drop` (its segment is one cell);     *)
(*     `alt` lists, per axis, every segment that is admissible when the float          *)
(*     realisation of a coordinate lying exactly on an inner cell face may fall on     *)
(*     either side of it (DESIGN 5.2) - dyadic embeddings must return `ax`;            *)
(*   map results (pad, resample): per axis the sequence of *sets* of admissible source *)
(*     indices of every result cell (-1 = constant fill), plus region and cell count.  *)
(*                                                                                     *)
(* ApplyBlock / ApplyMap turn a source array into the result array; the trace spec     *)
(* uses them on recorded arrays, the replay harness uses the per-axis description.     *)
EXTENDS Cells, TLC

CONSTANTS MaxN,        \* <<max n in 1-D, 2-D, 3-D, 4-D>>
          Prof,        \* per number of dimensions: set of <<lo profile, c profile>> (4-sequences)
          Layouts,     \* subset of {"none", "A", "B"}: subregion layouts
          FullProbes,  \* BOOLEAN: range/box probes on the full quarter lattice
          PadW,        \* set of pad widths
          PadModes,    \* subset of {"constant","edge","wrap","symmetric","reflect"}
          ResN,        \* set of target cell counts for resampling
          OtherKinds   \* how the other axes of a probe box are spanned

VARIABLES mesh, subs, act, obs
vars == <<mesh, subs, act, obs>>

Rej == [ok |-> FALSE]

Prefix(s, k) == [d \in 1 .. k |-> s[d]]
Meshes == UNION {
            {[lo |-> Prefix(p[1], k), c |-> Prefix(p[2], k), n |-> nn] :
                 nn \in [1 .. k -> 1 .. MaxN[k]], p \in Prof[k]}
            : k \in 1 .. 4}

(* ---- subregion layouts (deterministic per mesh) ------------------------------------ *)
CellBox(m, fr, to) == [lo |-> [d \in Dims(m) |-> FaceAx(m, d, fr[d])],
                       hi |-> [d \in Dims(m) |-> FaceAx(m, d, to[d])]]
Layout(m, id) ==
   CASE id = "none" -> <<>>
     [] id = "A" -> << [name |-> "s1",
                        box |-> CellBox(m, [d \in Dims(m) |-> IF m.n[d] >= 2 THEN 1 ELSE 0], m.n)] >>
     [] id = "B" -> << [name |-> "s1",
                        box |-> CellBox(m, [d \in Dims(m) |-> 0], [d \in Dims(m) |-> (m.n[d] + 1) \div 2])],
                       [name |-> "s2",
                        box |-> CellBox(m, [d \in Dims(m) |-> m.n[d] \div 2], m.n)] >>

(* ---- probes ------------------------------------------------------------------------ *)
Q(m, d) == m.c[d] \div 4
(* quarter lattice of the axis plus a quarter cell outside on both sides *)
ProbesAx(m, d) == {m.lo[d] - Q(m, d), Hi(m, d) + Q(m, d)}
                  \cup {m.lo[d] + Q(m, d) * j : j \in 0 .. 4 * m.n[d]}
(* reduced set: outside, corners, every face, every centre, first/last quarter point *)
ReducedAx(m, d) == {m.lo[d] - Q(m, d), Hi(m, d) + Q(m, d), m.lo[d] + Q(m, d), Hi(m, d) - Q(m, d)}
                   \cup {FaceAx(m, d, j) : j \in 0 .. m.n[d]}
                   \cup {CentreAx(m, d, j) : j \in 0 .. (m.n[d] - 1)}
RProbesAx(m, d) == IF FullProbes THEN ProbesAx(m, d) ELSE ReducedAx(m, d)
(* whole-cell coordinates incl. one cell outside, for region2slices *)
FaceProbesAx(m, d) == {FaceAx(m, d, j) : j \in -1 .. (m.n[d] + 1)}

OtherSpan(m, e, kind) ==
   CASE kind = "full"  -> <<m.lo[e], Hi(m, e)>>
     [] kind = "inner" -> <<m.lo[e] + Q(m, e), Hi(m, e) - Q(m, e)>>
     [] kind = "cell0" -> <<m.lo[e], m.lo[e] + m.c[e]>>
     [] kind = "lastq" -> <<Hi(m, e) - Q(m, e), Hi(m, e)>>
BoxFor(m, d, kind, a, b) ==
   [lo |-> [e \in Dims(m) |-> IF e = d THEN a ELSE OtherSpan(m, e, kind)[1]],
    hi |-> [e \in Dims(m) |-> IF e = d THEN b ELSE OtherSpan(m, e, kind)[2]]]
(* diagonal boxes: the same kind of corner on every axis *)
DiagKinds == {"out_lo", "lo", "q1", "face1", "c_last", "q_last", "hi", "out_hi"}
DiagAx(m, d, kind) ==
   CASE kind = "out_lo" -> m.lo[d] - Q(m, d)
     [] kind = "lo"     -> m.lo[d]
     [] kind = "q1"     -> m.lo[d] + Q(m, d)
     [] kind = "face1"  -> m.lo[d] + m.c[d]
     [] kind = "c_last" -> Hi(m, d) - 2 * Q(m, d)
     [] kind = "q_last" -> Hi(m, d) - Q(m, d)
     [] kind = "hi"     -> Hi(m, d)
     [] kind = "out_hi" -> Hi(m, d) + Q(m, d)

(* ---- block results ------------------------------------------------------------------ *)
Seg(m, d, f, t)  == [f |-> f, t |-> t, lo |-> FaceAx(m, d, f)]
FullSeg(m, d)    == Seg(m, d, 0, m.n[d])
BlockRes(m, drop, ax, alt) == [ok |-> TRUE, drop |-> drop, ax |-> ax, alt |-> alt]
(* the mesh of a block result *)
SegMesh(m, ax)   == [lo |-> [d \in Dims(m) |-> ax[d].lo], c |-> m.c, n |-> [d \in Dims(m) |-> ax[d].t - ax[d].f]]
ResMesh(m, r)    == IF r.drop = 0 THEN SegMesh(m, r.ax) ELSE DropAxis(SegMesh(m, r.ax), r.drop)

(* plane selection at coordinate x of axis d *)
SelPointRes(m, d, x) ==
   IF ~InsideAx(m, d, x) THEN Rej
   ELSE BlockRes(m, d,
                 [e \in Dims(m) |-> IF e = d THEN Seg(m, d, P2IAx(m, d, x), P2IAx(m, d, x) + 1) ELSE FullSeg(m, e)],
                 [e \in Dims(m) |-> IF e = d THEN {Seg(m, d, k, k + 1) : k \in P2IAxAlt(m, d, x)} ELSE {FullSeg(m, e)}])
CentreCoord(m, d) == m.lo[d] + (m.c[d] \div 2) * m.n[d]
SelCentreRes(m, d) == SelPointRes(m, d, CentreCoord(m, d))
(* range selection between x1 and x2 (either order) along axis d *)
SelRangeRes(m, d, x1, x2) ==
   LET a == Min2(x1, x2)  b == Max2(x1, x2) IN
   IF ~(InsideAx(m, d, a) /\ InsideAx(m, d, b)) THEN Rej
   ELSE BlockRes(m, 0,
                 [e \in Dims(m) |-> IF e = d THEN Seg(m, d, P2IAx(m, d, a), P2IAx(m, d, b) + 1) ELSE FullSeg(m, e)],
                 [e \in Dims(m) |-> IF e = d
                      THEN {Seg(m, d, ka, kb + 1) : <<ka, kb>> \in
                              {p \in P2IAxAlt(m, d, a) \X P2IAxAlt(m, d, b) : p[1] <= p[2] /\ (a = b => p[1] = p[2])}}
                      ELSE {FullSeg(m, e)}])
(* extraction by region: smallest block of whole cells containing box b *)
HiIdxAx(m, d, x) == Clip(CeilDiv(x - m.lo[d], m.c[d]) - 1, 0, m.n[d] - 1)
HiIdxAxAlt(m, d, x) == IF OnInnerFaceAx(m, d, x) THEN {HiIdxAx(m, d, x), HiIdxAx(m, d, x) + 1} ELSE {HiIdxAx(m, d, x)}
GetBoxRes(m, b) ==
   IF ~(BoxOK(b) /\ BoxInMesh(b, m)) THEN Rej
   ELSE BlockRes(m, 0,
                 [d \in Dims(m) |-> Seg(m, d, P2IAx(m, d, b.lo[d]), HiIdxAx(m, d, b.hi[d]) + 1)],
                 [d \in Dims(m) |-> {Seg(m, d, ka, kb + 1) : <<ka, kb>> \in P2IAxAlt(m, d, b.lo[d]) \X HiIdxAxAlt(m, d, b.hi[d])}])
(* a whole-cell box (subregion, region2slices argument): exactly its cells *)
AlignedBoxRes(m, b) ==
   IF ~(BoxOK(b) /\ BoxInMesh(b, m)) THEN Rej
   ELSE BlockRes(m, 0,
                 [d \in Dims(m) |-> Seg(m, d, BoxSlices(b, m)[d][1], BoxSlices(b, m)[d][2])],
                 [d \in Dims(m) |-> {Seg(m, d, BoxSlices(b, m)[d][1], BoxSlices(b, m)[d][2])}])

(* ---- map results -------------------------------------------------------------------- *)
PadIdx(mode, n, k) ==
   IF 0 <= k /\ k < n THEN k
   ELSE CASE mode = "constant"  -> -1
          [] mode = "edge"      -> Clip(k, 0, n - 1)
          [] mode = "wrap"      -> k % n
          [] mode = "symmetric" -> LET r == k % (2 * n) IN IF r < n THEN r ELSE 2 * n - 1 - r
          [] mode = "reflect"   -> IF n = 1 THEN 0
                                   ELSE LET r == k % (2 * n - 2) IN IF r < n THEN r ELSE 2 * n - 2 - r
(* w[d] = <<cells added below, cells added above>> *)
PadRes(m, mode, w) ==
   [ok  |-> TRUE,
    reg |-> [lo |-> [d \in Dims(m) |-> m.lo[d] - w[d][1] * m.c[d]],
             hi |-> [d \in Dims(m) |-> Hi(m, d) + w[d][2] * m.c[d]]],
    n   |-> [d \in Dims(m) |-> m.n[d] + w[d][1] + w[d][2]],
    src |-> [d \in Dims(m) |-> [j \in 1 .. (m.n[d] + w[d][1] + w[d][2]) |-> {PadIdx(mode, m.n[d], j - 1 - w[d][1])}]]]
PadOK(w) == \A d \in DOMAIN w : w[d][1] >= 0 /\ w[d][2] >= 0
(* nearest source cell of target cell j when n cells are resampled to n2 cells:          *)
(* target centre = lo + (2j+1) E / (2 n2); it lies on a source face iff the division is  *)
(* exact, then both neighbours are admissible                                            *)
NearestSet(n, n2, j) == LET num == (2 * j + 1) * n
                            den == 2 * n2
                        IN IF num % den = 0 THEN {num \div den - 1, num \div den} ELSE {num \div den}
ResampleRes(m, t) ==
   [ok  |-> TRUE,
    reg |-> RegionOf(m),
    n   |-> t,
    src |-> [d \in Dims(m) |-> [j \in 1 .. t[d] |-> NearestSet(m.n[d], t[d], j - 1)]]]

(* ---- arrays (Cells.tla convention): the result array of a result description --------- *)
(* source index of result cell j (an index of the result mesh) under a block result *)
BlockSrcIdx(m, r, j) ==
   [d \in Dims(m) |-> IF r.drop = d THEN r.ax[d].f
                      ELSE r.ax[d].f + j[IF r.drop # 0 /\ d > r.drop THEN d - 1 ELSE d]]
ApplyBlock(m, r, a) == LET rn == ResMesh(m, r).n
                       IN [k \in 1 .. ProdSeq(rn) |-> At(m.n, a, BlockSrcIdx(m, r, Unflat(rn, k - 1)))]
(* map results: admissible source cells of result cell j; fill = value of constant cells *)
RECURSIVE SeqProd(_)
SeqProd(ss) == IF ss = <<>> THEN {<<>>} ELSE {<<x>> \o t : x \in Head(ss), t \in SeqProd(Tail(ss))}
MapSrcSet(m, r, j)  == SeqProd([d \in Dims(m) |-> r.src[d][j[d] + 1]])
MapIsFill(r, j)     == \E d \in DOMAIN j : -1 \in r.src[d][j[d] + 1]
MapAdmissible(m, r, a, fill, j) == IF MapIsFill(r, j) THEN {fill} ELSE {At(m.n, a, s) : s \in MapSrcSet(m, r, j)}

(* ---- per-axis tabulation ------------------------------------------------------------ *)
(* Every request of one action differs from the others only along one axis d, so a      *)
(* state tabulates the per-axis part of each result ([ok, s, alt]) next to a `base`     *)
(* result holding the other axes; WithAx puts them together again (C07_TabFaithful).    *)
AxPart(r, d)       == IF r.ok THEN [ok |-> TRUE, s |-> r.ax[d], alt |-> r.alt[d]] ELSE Rej
WithAx(base, d, a) == IF a.ok THEN [base EXCEPT !.ax[d] = a.s, !.alt[d] = a.alt] ELSE Rej
(* requests with a coordinate outside the region are paired with a few partners only     *)
(* (rejections are all alike, and expensive in the library)                              *)
OutAx(m, d)        == {m.lo[d] - Q(m, d), Hi(m, d) + Q(m, d)}
FewAx(m, d)        == OutAx(m, d) \cup {m.lo[d], m.lo[d] + Q(m, d), Hi(m, d)}
OutPairOK(m, d, q) == /\ (q[1] \in OutAx(m, d) => q[2] \in FewAx(m, d))
                      /\ (q[2] \in OutAx(m, d) => q[1] \in FewAx(m, d))
RangePairs(m, d)   == {q \in RProbesAx(m, d) \X RProbesAx(m, d) :
                          /\ OutPairOK(m, d, q)
                          /\ (q[1] <= q[2] \/ q[2] \in {m.lo[d] - Q(m, d), m.lo[d], m.lo[d] + Q(m, d)})}
BoxPairs(m, d)     == {q \in RProbesAx(m, d) \X RProbesAx(m, d) : q[1] < q[2] /\ OutPairOK(m, d, q)}
FacePairs(m, d)    == {q \in FaceProbesAx(m, d) \X FaceProbesAx(m, d) : q[1] < q[2]}
DiagPairs(m)       == {q \in DiagKinds \X DiagKinds : \A d \in Dims(m) : DiagAx(m, d, q[1]) < DiagAx(m, d, q[2])}
DiagBox(m, q)      == [lo |-> [d \in Dims(m) |-> DiagAx(m, d, q[1])], hi |-> [d \in Dims(m) |-> DiagAx(m, d, q[2])]]
(* per-axis part of a map result *)
PadAx(m, d, mode, wl, wh) ==
   [lo  |-> m.lo[d] - wl * m.c[d], hi |-> Hi(m, d) + wh * m.c[d], n |-> m.n[d] + wl + wh,
    src |-> [j \in 1 .. (m.n[d] + wl + wh) |-> {PadIdx(mode, m.n[d], j - 1 - wl)}]]
ResAx(m, d, k) ==
   [lo |-> m.lo[d], hi |-> Hi(m, d), n |-> k, src |-> [j \in 1 .. k |-> NearestSet(m.n[d], k, j - 1)]]
(* a map result from its per-axis parts *)
MapOfAx(m, ax) == [ok  |-> TRUE,
                   reg |-> [lo |-> [d \in Dims(m) |-> ax[d].lo], hi |-> [d \in Dims(m) |-> ax[d].hi]],
                   n   |-> [d \in Dims(m) |-> ax[d].n],
                   src |-> [d \in Dims(m) |-> ax[d].src]]

(* ---- actions ------------------------------------------------------------------------ *)
Init == /\ mesh \in Meshes
        /\ subs \in {Layout(mesh, id) : id \in Layouts}
        /\ act = <<"new">>
        /\ obs = [n |-> mesh.n]

Fresh == act[1] = "new"
QSelCentre == \E d \in Dims(mesh) :
      /\ Fresh
      /\ act' = <<"sel_centre", d>>
      /\ obs' = SelCentreRes(mesh, d)
      /\ UNCHANGED <<mesh, subs>>
QSelPoint == \E d \in Dims(mesh) :
      /\ Fresh
      /\ act' = <<"sel_point", d>>
      /\ obs' = [base |-> SelPointRes(mesh, d, mesh.lo[d]),
                 tab  |-> [x \in ProbesAx(mesh, d) |-> AxPart(SelPointRes(mesh, d, x), d)]]
      /\ UNCHANGED <<mesh, subs>>
QSelRange == \E d \in Dims(mesh) :
      /\ Fresh
      /\ act' = <<"sel_range", d>>
      /\ obs' = [base |-> SelRangeRes(mesh, d, mesh.lo[d], mesh.lo[d]),
                 tab  |-> [p \in RangePairs(mesh, d) |-> AxPart(SelRangeRes(mesh, d, p[1], p[2]), d)]]
      /\ UNCHANGED <<mesh, subs>>
QGetName == \E k \in DOMAIN subs :
      /\ Fresh
      /\ act' = <<"getitem_name", subs[k].name>>
      /\ obs' = AlignedBoxRes(mesh, subs[k].box)
      /\ UNCHANGED <<mesh, subs>>
QGetBox == \E d \in Dims(mesh), kind \in OtherKinds :
      /\ subs = <<>>
      /\ Fresh
      /\ act' = <<"getitem_box", d, kind>>
      /\ obs' = [box  |-> BoxFor(mesh, d, kind, mesh.lo[d], Hi(mesh, d)),
                 base |-> GetBoxRes(mesh, BoxFor(mesh, d, kind, mesh.lo[d], Hi(mesh, d))),
                 tab  |-> [p \in BoxPairs(mesh, d) |-> AxPart(GetBoxRes(mesh, BoxFor(mesh, d, kind, p[1], p[2])), d)]]
      /\ UNCHANGED <<mesh, subs>>
QGetDiag ==
      /\ subs = <<>>
      /\ Fresh
      /\ act' = <<"getitem_diag">>
      /\ obs' = [p \in DiagPairs(mesh) |-> [box |-> DiagBox(mesh, p), r |-> GetBoxRes(mesh, DiagBox(mesh, p))]]
      /\ UNCHANGED <<mesh, subs>>
QRegion2Slices == \E d \in Dims(mesh) :
      /\ subs = <<>>
      /\ Fresh
      /\ act' = <<"region2slices", d>>
      /\ obs' = [box  |-> RegionOf(mesh),
                 base |-> AlignedBoxRes(mesh, RegionOf(mesh)),
                 tab  |-> [p \in FacePairs(mesh, d) |-> AxPart(AlignedBoxRes(mesh, BoxFor(mesh, d, "full", p[1], p[2])), d)]]
      /\ UNCHANGED <<mesh, subs>>
(* pad: per axis and per <<cells below, cells above>> *)
QPad == \E mode \in PadModes :
      /\ subs = <<>>
      /\ Fresh
      /\ act' = <<"pad", mode>>
      /\ obs' = [d \in Dims(mesh) |-> [w \in PadW \X PadW |-> PadAx(mesh, d, mode, w[1], w[2])]]
      /\ UNCHANGED <<mesh, subs>>
(* resample: per axis and per target count (the unchanged count included) *)
QResample ==
      /\ subs = <<>>
      /\ Fresh
      /\ act' = <<"resample">>
      /\ obs' = [d \in Dims(mesh) |-> [k \in ResN \cup {mesh.n[d]} |-> ResAx(mesh, d, k)]]
      /\ UNCHANGED <<mesh, subs>>

(* queries are issued from the fresh state only: they do not change the mesh, so nothing new is  *)
(* reachable behind a query state (deadlock checking is off)                                     *)
Next == \/ QSelCentre \/ QSelPoint \/ QSelRange \/ QGetName \/ QGetBox \/ QGetDiag
        \/ QRegion2Slices \/ QPad \/ QResample
Spec == Init /\ [][Next]_vars

(* ---- the property, clause by clause ------------------------------------------------- *)
TypeOK == /\ MeshOK(mesh)
          /\ \A k \in DOMAIN subs : BoxOK(subs[k].box) /\ BoxInMesh(subs[k].box, mesh) /\ BoxAligned(subs[k].box, mesh)

(* a segment is a run of whole source cells on the source's lattice *)
SegOK(m, d, s) == /\ 0 <= s.f /\ s.f < s.t /\ s.t <= m.n[d]
                  /\ s.lo = FaceAx(m, d, s.f)
                  /\ (s.lo - m.lo[d]) % m.c[d] = 0
(* every point of result cell j of the segment (its quarter lattice, lower-inclusive)   *)
(* lies in source cell f + j: value and validity at any point of the result are the     *)
(* source's at that point                                                               *)
SegPointwise(m, d, s) ==
   \A j \in 0 .. (s.t - s.f - 1) : \A q \in 0 .. 4 :
      LET x == s.lo + m.c[d] * j + Q(m, d) * q IN
         /\ InClosedCellAx(m, d, s.f + j, x)
         /\ (q < 4 => P2IAx(m, d, x) = s.f + j)

(* all block results described by obs, each with the request that produced it, and the  *)
(* result the operators give when asked directly (must agree: C07_TabFaithful)          *)
TabAct  == act[1] \in {"sel_point", "sel_range", "getitem_box", "region2slices"}
BlockAct == TabAct \/ act[1] \in {"sel_centre", "getitem_name", "getitem_diag"}
TabBox(p) == IF act[1] = "getitem_box" THEN BoxFor(mesh, act[2], act[3], p[1], p[2])
             ELSE BoxFor(mesh, act[2], "full", p[1], p[2])
BlockCases ==
   CASE act[1] = "sel_centre"   -> {<<obs, CentreCoord(mesh, act[2])>>}
     [] act[1] = "getitem_name" -> {<<obs, act[2]>>}
     [] act[1] = "getitem_diag" -> {<<obs[p].r, obs[p].box>> : p \in DOMAIN obs}
     [] act[1] \in {"sel_point", "sel_range"} -> {<<WithAx(obs.base, act[2], obs.tab[p]), p>> : p \in DOMAIN obs.tab}
     [] act[1] \in {"getitem_box", "region2slices"} -> {<<WithAx(obs.base, act[2], obs.tab[p]), TabBox(p)>> : p \in DOMAIN obs.tab}
     [] OTHER -> {}
Direct(cs) ==
   CASE act[1] = "sel_point"     -> SelPointRes(mesh, act[2], cs[2])
     [] act[1] = "sel_range"     -> SelRangeRes(mesh, act[2], cs[2][1], cs[2][2])
     [] act[1] = "getitem_box"   -> GetBoxRes(mesh, cs[2])
     [] act[1] = "region2slices" -> AlignedBoxRes(mesh, cs[2])
C07_TabFaithful == TabAct => /\ obs.base.ok
                             /\ DOMAIN obs.tab # {}
                             /\ \A cs \in BlockCases : cs[1] = Direct(cs)

C07_CellAligned == BlockAct =>
   \A cs \in BlockCases : cs[1].ok =>
      \A d \in Dims(mesh) : SegOK(mesh, d, cs[1].ax[d]) /\ \A s \in cs[1].alt[d] : SegOK(mesh, d, s)
C07_PointwiseAgreement == BlockAct =>
   \A cs \in BlockCases : cs[1].ok =>
      /\ \A d \in Dims(mesh) : SegPointwise(mesh, d, cs[1].ax[d]) /\ cs[1].ax[d] \in cs[1].alt[d]
      /\ ResMesh(mesh, cs[1]).c = (IF cs[1].drop = 0 THEN mesh.c ELSE RemoveAt(mesh.c, cs[1].drop))
(* plane selection: exactly the chosen axis disappears, at the cell containing x *)
C07_PlaneRemovesAxisAtContainingCell == act[1] \in {"sel_centre", "sel_point"} =>
   \A cs \in BlockCases : cs[1].ok =>
      LET d == act[2]  r == cs[1]  x == cs[2] IN
         /\ r.drop = d
         /\ ND(ResMesh(mesh, r)) = ND(mesh) - 1
         /\ r.ax[d].t = r.ax[d].f + 1
         /\ InOwnCellAx(mesh, d, r.ax[d].f, x)
         /\ \A s \in r.alt[d] : InClosedCellAx(mesh, d, s.f, x) /\ s.t = s.f + 1
         /\ \A e \in Dims(mesh) : e # d => r.ax[e] = FullSeg(mesh, e) /\ r.alt[e] = {FullSeg(mesh, e)}
C07_CentralCell == act[1] = "sel_centre" =>
   /\ obs.ok
   /\ LET d == act[2]  k == obs.ax[d].f IN
        (* as many cells below as above (odd n), or the upper of the two middle cells (even n) *)
        k = mesh.n[d] - 1 - k \/ k = mesh.n[d] - k
C07_RangeKeepsFromTo == act[1] = "sel_range" =>
   \A cs \in BlockCases : cs[1].ok =>
      LET d == act[2]  r == cs[1]  a == Min2(cs[2][1], cs[2][2])  b == Max2(cs[2][1], cs[2][2]) IN
         /\ r.drop = 0
         /\ InOwnCellAx(mesh, d, r.ax[d].f, a)
         /\ InOwnCellAx(mesh, d, r.ax[d].t - 1, b)
         /\ \A s \in r.alt[d] : InClosedCellAx(mesh, d, s.f, a) /\ InClosedCellAx(mesh, d, s.t - 1, b)
         /\ \A e \in Dims(mesh) : e # d => r.ax[e] = FullSeg(mesh, e) /\ r.alt[e] = {FullSeg(mesh, e)}
         (* the order of the two bounds is irrelevant *)
         /\ (<<cs[2][2], cs[2][1]>> \in DOMAIN obs.tab => obs.tab[<<cs[2][2], cs[2][1]>>] = obs.tab[cs[2]])
(* extraction by region: the block contains the box and no smaller block does *)
SegCovers(m, d, s, lo, hi)  == s.lo <= lo /\ hi <= FaceAx(m, d, s.t)
SegMinimal(m, d, s, lo, hi) == lo < FaceAx(m, d, s.f + 1) /\ FaceAx(m, d, s.t - 1) < hi
C07_SmallestCoveringBlock == act[1] \in {"getitem_box", "getitem_diag"} =>
   \A cs \in BlockCases : cs[1].ok =>
      \A d \in Dims(mesh) :
         LET r == cs[1]  b == cs[2] IN
            /\ r.drop = 0
            /\ SegCovers(mesh, d, r.ax[d], b.lo[d], b.hi[d])
            /\ SegMinimal(mesh, d, r.ax[d], b.lo[d], b.hi[d])
            (* alternatives: covering, and minimal up to a cell that the box only touches *)
            /\ \A s \in r.alt[d] : /\ SegCovers(mesh, d, s, b.lo[d], b.hi[d])
                                   /\ b.lo[d] <= FaceAx(mesh, d, s.f + 1) /\ FaceAx(mesh, d, s.t - 1) <= b.hi[d]
C07_NamedAndSlicesExact == act[1] \in {"getitem_name", "region2slices"} =>
   \A cs \in BlockCases : cs[1].ok =>
      LET box == IF act[1] = "getitem_name"
                 THEN subs[CHOOSE k \in DOMAIN subs : subs[k].name = cs[2]].box ELSE cs[2] IN
         /\ RegionOf(ResMesh(mesh, cs[1])) = box
         /\ \A d \in Dims(mesh) : cs[1].alt[d] = {cs[1].ax[d]}
C07_OutsideRejected ==
   /\ act[1] = "sel_point" => \A cs \in BlockCases : cs[1].ok <=> InsideAx(mesh, act[2], cs[2])
   /\ act[1] = "sel_range" => \A cs \in BlockCases : cs[1].ok <=> (InsideAx(mesh, act[2], cs[2][1]) /\ InsideAx(mesh, act[2], cs[2][2]))
   /\ act[1] \in {"getitem_box", "getitem_diag", "region2slices"} =>
         \A cs \in BlockCases : cs[1].ok <=> BoxInMesh(cs[2], mesh)
   /\ act[1] = "sel_centre" => obs.ok
   /\ act[1] = "getitem_name" => obs.ok
(* vacuity guards: every tabulating state holds accepted and (where possible) rejected requests *)
C07_NonVacuous == TabAct =>
   /\ \E cs \in BlockCases : cs[1].ok
   /\ \E cs \in BlockCases : ~cs[1].ok

(* padding: the requested number of cells per side, old cells keep their place, new     *)
(* cells follow the mode                                                                *)
PadModeOK(mode, n, k, s) ==
   CASE mode = "constant"  -> s = -1
     [] mode = "edge"      -> s = (IF k < 0 THEN 0 ELSE n - 1)
     [] mode = "wrap"      -> 0 <= s /\ s < n /\ (k - s) % n = 0
     [] mode = "symmetric" -> 0 <= s /\ s < n /\ ((k - s) % (2 * n) = 0 \/ (k + s + 1) % (2 * n) = 0)
     [] mode = "reflect"   -> 0 <= s /\ s < n /\ (IF n = 1 THEN s = 0
                                                 ELSE ((k - s) % (2 * n - 2) = 0 \/ (k + s) % (2 * n - 2) = 0))
C07_PadAddsCells == act[1] = "pad" =>
   \A d \in Dims(mesh) : \A w \in DOMAIN obs[d] :
      LET r == obs[d][w] IN
         /\ r.n = mesh.n[d] + w[1] + w[2]
         /\ r.lo = mesh.lo[d] - w[1] * mesh.c[d]
         /\ r.hi = Hi(mesh, d) + w[2] * mesh.c[d]
         /\ r.hi - r.lo = mesh.c[d] * r.n                       \* same cell size
         /\ Len(r.src) = r.n
         /\ \A j \in 1 .. r.n :
               LET k == j - 1 - w[1] IN
                  /\ Cardinality(r.src[j]) = 1
                  /\ \A s \in r.src[j] :
                        IF 0 <= k /\ k < mesh.n[d]
                        THEN s = k                 \* result cell j-1 *is* source cell k: same position
                        ELSE PadModeOK(act[2], mesh.n[d], k, s)
(* the full result is the product of the per-axis parts *)
C07_PadSeparable == act[1] = "pad" =>
   \A w \in PadW \X PadW :
      /\ MapOfAx(mesh, [d \in Dims(mesh) |-> obs[d][w]]) = PadRes(mesh, act[2], [d \in Dims(mesh) |-> w])
      /\ \A e \in Dims(mesh) : <<0, 0>> \in DOMAIN obs[e] =>
            MapOfAx(mesh, [d \in Dims(mesh) |-> IF d = e THEN obs[d][w] ELSE obs[d][<<0, 0>>]])
               = PadRes(mesh, act[2], [d \in Dims(mesh) |-> IF d = e THEN w ELSE <<0, 0>>])
(* resampling: same region, requested counts, every result cell takes the source cell   *)
(* that contains its centre                                                             *)
C07_ResampleKeepsRegion == act[1] = "resample" =>
   \A d \in Dims(mesh) : \A k \in DOMAIN obs[d] :
      LET r == obs[d][k] IN
         /\ r.lo = mesh.lo[d] /\ r.hi = Hi(mesh, d) /\ r.n = k /\ Len(r.src) = k
         /\ \A j \in 1 .. k :
               (* centre of result cell j-1 relative to lo, scaled by 2k:  (2j-1) E  *)
               LET cx == (2 * j - 1) * Edge(mesh, d) IN
                  /\ r.src[j] # {}
                  /\ r.src[j] = {s \in 0 .. (mesh.n[d] - 1) :
                                    2 * k * mesh.c[d] * s <= cx /\ cx <= 2 * k * mesh.c[d] * (s + 1)}
         /\ (k = mesh.n[d] => \A j \in 1 .. k : r.src[j] = {j - 1})          \* same resolution: identity
C07_ResampleSeparable == act[1] = "resample" =>
   \A k \in ResN : MapOfAx(mesh, [d \in Dims(mesh) |-> obs[d][k]]) = ResampleRes(mesh, [d \in Dims(mesh) |-> k])
=============================================================================
