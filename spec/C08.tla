-------------------------------- MODULE C08 --------------------------------
(* C08 - validity masks follow the data through every operation that keeps or maps     *)
(* cells; a result's validity is its own.                                               *)
(*                                                                                     *)
(* The register machine of FieldAlg.tla with every Field-returning call that keeps or   *)
(* maps cells, the validity setter (SetValid) and an in-place write into a mask         *)
(* (MutateValid).  Validity arrays are heap objects: `vo` is the identity of the array  *)
(* a field's `valid` refers to; MutateValid writes through it, so a register that       *)
(* shared its mask with another one would change with it.  The clauses are stated       *)
(* pointwise on the operand(s) and the result.                                          *)
EXTENDS FieldAlg

OpA == IF obs.ok /\ obs.r <= Len(regs) /\ LastIns[1] \in {"set_valid", "mutate_valid"} THEN obs.pre ELSE regs[LastIns[2]]
OpB == IF LastIns[3] > 0 THEN regs[LastIns[3]] ELSE OpA
Produced == prog # <<>> /\ obs.ok /\ LastIns[1] \notin {"set_valid", "mutate_valid"}

PassThrough1 == UnaryOps \cup {"comp", "restack", "ufunc1", "diff", "grad", "divg", "curl", "laplace", "h5", "vtk"}
TwoOperand   == EWOps \cup {"dot", "cross", "angle", "lshift", "ufunc2"}
MappingOps   == {"sel", "selrange", "getitem", "pad", "resample", "rotate90"}

(* the cell a piece of data came from is recognisable when the magnitudes of all values  *)
(* of the operand are pairwise different and non-zero                                    *)
AbsKey(v)  == {<<Abs(v[c][1]), Abs(v[c][2]), v[c][3]>> : c \in DOMAIN v}
Traceable(f) == /\ f.vx
                /\ \A k \in DOMAIN f.val : \A c \in 1 .. f.nv : ~GIsZero(f.val[k][c])
                /\ \A k1, k2 \in DOMAIN f.val : k1 # k2 => AbsKey(f.val[k1]) \cap AbsKey(f.val[k2]) = {}

(* ---- validity follows the data ------------------------------------------------------- *)
C08_Propagation ==
   Produced =>
      LET op == LastIns[1]  r == obs.reg
      IN /\ op \in PassThrough1 => Len(r.valid) = Len(OpA.valid) /\ \A k \in DOMAIN r.valid : r.valid[k] = OpA.valid[k]
         /\ op \in TwoOperand =>
               IF IsField(OpA) /\ IsField(OpB)
               THEN Len(r.valid) = Len(OpA.valid) /\ \A k \in DOMAIN r.valid : r.valid[k] = (OpA.valid[k] /\ OpB.valid[k])
               ELSE LET f == SelfOf(OpA, OpB) IN Len(r.valid) = Len(f.valid) /\ \A k \in DOMAIN r.valid : r.valid[k] = f.valid[k]
         (* cells are mapped: every result cell holds the data of exactly one source cell (or padding) *)
         (* and its validity is that cell's (padding by a constant is invalid)                         *)
         /\ (op \in MappingOps /\ Traceable(OpA)) =>
               /\ Len(r.valid) = NCellsM(r.m) /\ Len(r.val) = NCellsM(r.m)
               /\ \A k \in DOMAIN r.val :
                     LET S == {s \in DOMAIN OpA.val : AbsKey(OpA.val[s]) = AbsKey(r.val[k])}
                     IN IF S # {} THEN Cardinality(S) = 1 /\ \A s \in S : r.valid[k] = OpA.valid[s]
                        ELSE (\A c \in 1 .. r.nv : GIsZero(r.val[k][c])) => ~r.valid[k]
                             \* data that is neither a source cell's nor padding is C07/C12's business, not C08's
(* ---- a result's validity is its own -------------------------------------------------- *)
C08_OwnMaskHeap == \A i, j \in DOMAIN regs : (i # j /\ IsField(regs[i]) /\ IsField(regs[j])) => regs[i].vo # regs[j].vo
(* the mask of a fresh result is a new object *)
C08_OwnMaskNew  == Produced => \A i \in DOMAIN regs : (i # obs.r /\ IsField(regs[i])) => regs[i].vo # obs.reg.vo
(* an in-place write into a mask changes that register only, and exactly that cell *)
C08_OwnMaskWrite ==
   (prog # <<>> /\ LastIns[1] = "mutate_valid") =>
         /\ obs.ok /\ obs.ch = {obs.r}
         /\ \A k \in DOMAIN obs.reg.valid : obs.reg.valid[k] = (IF k = LastIns[4] THEN ~obs.pre.valid[k] ELSE obs.pre.valid[k])
(* assigning a new validity to one field leaves every other register alone *)
C08_OwnMaskSetter == (prog # <<>> /\ LastIns[1] = "set_valid") => obs.ch \subseteq {obs.r}
C08_OwnMask == C08_OwnMaskHeap /\ C08_OwnMaskNew /\ C08_OwnMaskWrite /\ C08_OwnMaskSetter
C08_OwnMaskStep == [][\A i \in DOMAIN regs : (regs'[i] # regs[i]) => (prog' # <<>> /\ prog'[Len(prog')][1] \in {"set_valid", "mutate_valid"}
                                                                       /\ prog'[Len(prog')][2] = i)]_vars
(* ---- setting validity ---------------------------------------------------------------- *)
C08_SetValidKeepsValues ==
   (prog # <<>> /\ LastIns[1] = "set_valid") =>
      /\ obs.ok
      /\ obs.reg.val = obs.pre.val /\ obs.reg.nv = obs.pre.nv /\ obs.reg.m = obs.pre.m
      /\ obs.reg.vdims = obs.pre.vdims /\ obs.reg.map = obs.pre.map
(* ... for the register written last; a non-Boolean mask inherited from an operand is not charged to the operation *)
OperandsBool == (IsField(OpA) => OpA.vt = "bool") /\ (IsField(OpB) => OpB.vt = "bool")
C08_BoolOfMeshShapeNew ==
   (prog # <<>> /\ obs.ok /\ LastIns[1] # "mutate_valid") =>
      /\ (LastIns[1] = "set_valid" \/ OperandsBool) => obs.reg.vt = "bool"
      /\ Len(obs.reg.valid) = NCellsM(obs.reg.m)
C08_BoolOfMeshShape == \A i \in DOMAIN regs : IsField(regs[i]) => regs[i].vt = "bool" /\ Len(regs[i].valid) = NCellsM(regs[i].m)
C08_NormMarksNonzero ==
   (prog # <<>> /\ LastIns[1] = "set_valid" /\ LastIns[4][1] = "norm") =>
      \A k \in DOMAIN obs.reg.valid : obs.reg.valid[k] <=> \E c \in 1 .. obs.reg.nv : ~GIsZero(obs.reg.val[k][c])
C08_SetValidMask ==
   (prog # <<>> /\ LastIns[1] = "set_valid") =>
      LET sp == LastIns[4]
      IN /\ sp[1] \in {"array", "intarray", "func"} => \A k \in DOMAIN obs.reg.valid : obs.reg.valid[k] = BitAt(sp[2], k)
         /\ sp[1] = "const" => \A k \in DOMAIN obs.reg.valid : obs.reg.valid[k] = (sp[2] = 1)
         /\ sp[1] = "none" => \A k \in DOMAIN obs.reg.valid : obs.reg.valid[k]
=============================================================================
