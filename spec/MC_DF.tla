------------------------------- MODULE MC_DF -------------------------------
EXTENDS DF
H(a, b) == <<a, b>>
Scen_quick == {"A2", "B3"}
Scen_all   == {"A2", "S2", "B3", "D3"}
Scen_small == {"A2", "S2", "B3"}
ActsAll == {"Translate", "Scale", "MeshRotate90", "FieldRotate90", "MkField",
            "Neg", "Pos", "Abs", "Add", "Mul", "MulNum", "Comp", "LShift", "Diff",
            "Sub", "Dot", "Cross", "Norm", "Orientation", "Integrate", "FromField", "SetSub",
            "QMeshClose", "QFieldClose", "QRegionIn", "QAligned", "QEq", "QMean", "QCall", "Mean", "SetVdims",
            "AddNum", "Pow2", "Angle", "IntegrateCum",
            "SetValidArray", "SetValidNorm", "SetValidNone", "MutateValid", "UpdateConst", "SetArray", "WriteArray",
            "SelPlane", "SelRange", "GetSub", "GetRegion", "Pad", "Resample",
            "H5", "Ovf", "Vtk", "Xarray"}
Scen_A2 == {"A2"}
(* depth 3: the calls that create sharing (algebra, field[name], resample), in-place steps, and the calls that read through it *)
Acts_d3 == {"WriteArray", "Norm", "FromField", "SetSub", "Neg", "Add", "GetSub", "Resample", "SelRange", "Pad", "FieldRotate90", "Translate", "MutateValid", "SetValidNorm", "UpdateConst", "H5", "Diff"}
Acts_alias == {"Neg", "GetSub", "Resample", "Translate", "FieldRotate90", "MeshRotate90"}
TransVs_def == {<<R(4), H(-3, 2), R(1)>>, <<R(0), R(0), R(0)>>}    \* the zero vector is a vector like any other
ScaleFs_q   == {<<R(2), R(2), R(2)>>}
ScaleFs_all == {<<R(2), R(2), R(2)>>, <<H(1, 2), H(1, 2), H(1, 2)>>, <<R(-1), R(-1), R(-1)>>}
RotKs_q     == {1, 2}
RotKs_all   == {1, 2, 3, -1}
RotRefs_q   == {<<>>}
RotRefs_all == {<<>>, <<R(0), R(1), R(0)>>}
RotPairs_q   == {<<1, 2>>, <<2, 1>>, <<3, 1>>}
RotPairs_all == {p \in (1 .. 3) \X (1 .. 3) : p[1] # p[2]}
RotKs_q2     == {1}
RotPairs_q2  == {<<1, 2>>, <<3, 1>>}
Pad_q2       == {<<1, 0, "constant">>}
Pad_q       == {<<1, 0, "constant">>, <<0, 1, "wrap">>}
Pad_all     == {<<1, 0, "constant">>, <<0, 1, "wrap">>, <<1, 1, "edge">>, <<2, 0, "wrap">>}
Masks_q     == {5}
Masks_all   == {5, 58}
Nums_q      == {-2}
Nums_all    == {-2, 3}
=============================================================================
