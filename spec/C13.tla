-------------------------------- MODULE C13 --------------------------------
(* C13 - geometric invariants and in-place == copy hold after any transformation       *)
(* sequence.  The state is the object heap with references (Geom.tla) plus the user's   *)
(* variables (`roots`).  A step is one public call `X.op(args, inplace)` on a variable; *)
(* the in-place form mutates through the references, the copying form allocates fresh   *)
(* objects and rebinds X (`X = X.op(args)`).  `hist` records the calls (with their     *)
(* outcome) so that the conformance harness can replay every state on the real library. *)
EXTENDS Geom, TLC

CONSTANTS Scenarios,  \* names of initial heaps
          TransVs,    \* translation vectors (3-sequences of rationals, cut to ndim)
          ScaleFs,    \* scale factors (3-sequences of rationals, cut to ndim)
          RefPts,     \* reference points (3-sequences of rationals, or <<>> = default)
          RotKs,      \* numbers of quarter turns
          BadKinds,   \* kinds of malformed arguments tried
          MaxDepth,   \* history length bound
          AllowAlias  \* "all" | "noP1" | "noP1P2": which known aliasing patterns are excluded (see AliasGuard)

VARIABLES heap, roots, hist
vars == <<heap, roots, hist>>
Last == hist[Len(hist)]

Cut(s, k) == IF s = <<>> THEN <<>> ELSE [d \in 1 .. k |-> s[d]]

(* ---- initial heaps ------------------------------------------------------------------- *)
(* 2-D box [0,12]x[-4,4] (n = 3x2) and 3-D box with n = 2x3x1; integer data, all distinct *)
R2 == Reg(<<R(0), R(-4)>>, <<R(12), R(4)>>, <<"m", "s">>)
R3 == Reg(<<R(-2), R(0), R(1)>>, <<R(2), R(9), R(3)>>, <<"m", "s", "K">>)
Sub2a == Reg(<<R(0), R(-4)>>, <<R(8), R(0)>>, <<"m", "s">>)
Sub2b == Reg(<<R(4), R(-4)>>, <<R(12), R(4)>>, <<"m", "s">>)
(* 1-D box [-4,8] cut into 3 cells with a two-cell subregion: the API takes plain numbers for vectors, factors and    *)
(* reference points there                                                                                          *)
R1 == Reg(<<R(-4)>>, <<R(8)>>, <<"m">>)
Sub1a == Reg(<<R(0)>>, <<R(8)>>, <<"m">>)
Sub3a == Reg(<<R(0), R(3)>>  \o <<R(1)>>, <<R(2), R(9), R(3)>>, <<"m", "s", "K">>)
Vec2(j) == <<10 * j + 1, 10 * j + 2>>
Vec3(j) == <<10 * j + 1, 10 * j + 2, 10 * j + 3>>
Mask(j) == j % 3 # 0
ScenarioHeap(sc) ==
   CASE sc = "region2" -> [h |-> (1 :> R2), r |-> [r |-> 1]]
     [] sc = "region3" -> [h |-> (1 :> R3), r |-> [r |-> 1]]
     [] sc = "mesh2"   -> [h |-> (1 :> R2 @@ 2 :> Sub2a @@ 3 :> Sub2b @@ 4 :> Msh(1, <<3, 2>>, <<2, 3>>)),
                           r |-> [r |-> 1, m |-> 4]]
     [] sc = "mesh1"   -> [h |-> (1 :> R1 @@ 2 :> Sub1a @@ 3 :> Msh(1, <<3>>, <<2>>)), r |-> [r |-> 1, m |-> 3]]
     [] sc = "mesh3"   -> [h |-> (1 :> R3 @@ 2 :> Sub3a @@ 3 :> Msh(1, <<2, 3, 1>>, <<2>>)),
                           r |-> [r |-> 1, m |-> 3]]
     [] sc = "twomesh" -> [h |-> (1 :> R2 @@ 2 :> Msh(1, <<3, 2>>, <<>>) @@ 3 :> Msh(1, <<6, 1>>, <<>>)),
                           r |-> [m |-> 2, w |-> 3]]
     [] sc = "field2"  -> [h |-> (1 :> R2 @@ 2 :> Sub2a @@ 3 :> Msh(1, <<3, 2>>, <<2>>)
                                 @@ 4 :> Fld(3, 2, [j \in 1 .. 6 |-> Vec2(j)], [j \in 1 .. 6 |-> Mask(j)], <<2, 1>>, <<3, 2>>)),
                           r |-> [m |-> 3, f |-> 4]]
     [] sc = "field3"  -> [h |-> (1 :> R3 @@ 2 :> Msh(1, <<2, 3, 1>>, <<>>)
                                 @@ 3 :> Fld(2, 3, [j \in 1 .. 6 |-> Vec3(j)], [j \in 1 .. 6 |-> Mask(j)], <<3, 1, 2>>, <<2, 3, 1>>)),
                           r |-> [f |-> 3]]
     [] sc = "scalar2" -> [h |-> (1 :> R2 @@ 2 :> Msh(1, <<3, 2>>, <<>>)
                                 @@ 3 :> Fld(2, 1, [j \in 1 .. 6 |-> <<j>>], [j \in 1 .. 6 |-> Mask(j)], <<0>>, <<3, 2>>)),
                           r |-> [f |-> 3]]
     [] sc = "unmapped" -> [h |-> (1 :> R2 @@ 2 :> Msh(1, <<3, 2>>, <<>>)
                                 @@ 3 :> Fld(2, 3, [j \in 1 .. 6 |-> Vec3(j)], [j \in 1 .. 6 |-> TRUE], <<0, 0, 0>>, <<3, 2>>)),
                           r |-> [f |-> 3]]
     [] sc = "shared"  -> [h |-> (1 :> R2 @@ 2 :> Msh(1, <<3, 2>>, <<>>)
                                 @@ 3 :> Fld(2, 2, [j \in 1 .. 6 |-> Vec2(j)], [j \in 1 .. 6 |-> Mask(j)], <<1, 2>>, <<3, 2>>)
                                 @@ 4 :> Fld(2, 1, [j \in 1 .. 6 |-> <<j>>], [j \in 1 .. 6 |-> TRUE], <<0>>, <<3, 2>>)),
                           r |-> [f |-> 3, g |-> 4]]

(* further initial heaps used by C12 (rotations): every permutation of the mapping on a 3-D  *)
(* mesh, a partial mapping, a 4-D field, a complex-free scalar field with a mask in 3-D        *)
R4 == Reg(<<R(0), R(-1), R(2), R(-3)>>, <<R(4), R(1), R(8), R(3)>>, <<"m", "s", "K", "A">>)
Vec4(j) == <<10 * j + 1, 10 * j + 2, 10 * j + 3, 10 * j + 4>>
Perm3 == {<<1, 2, 3>>, <<1, 3, 2>>, <<2, 1, 3>>, <<2, 3, 1>>, <<3, 1, 2>>, <<3, 2, 1>>}
PermName(p) == "perm" \o ToString(p[1]) \o ToString(p[2]) \o ToString(p[3])
RotScenarioHeap(sc) ==
   IF \E p \in Perm3 : sc = PermName(p)
   THEN LET p == CHOOSE q \in Perm3 : sc = PermName(q) IN
        [h |-> (1 :> R3 @@ 2 :> Sub3a @@ 3 :> Msh(1, <<2, 3, 1>>, <<2>>)
                @@ 4 :> Fld(3, 3, [j \in 1 .. 6 |-> Vec3(j)], [j \in 1 .. 6 |-> Mask(j)], p, <<2, 3, 1>>)),
         r |-> [f |-> 4]]
   ELSE CASE sc = "partial3" -> [h |-> (1 :> R3 @@ 2 :> Msh(1, <<2, 3, 1>>, <<>>)
                                        @@ 3 :> Fld(2, 2, [j \in 1 .. 6 |-> Vec2(j)], [j \in 1 .. 6 |-> Mask(j)], <<3, 1>>, <<2, 3, 1>>)),
                                  r |-> [f |-> 3]]
          [] sc = "field4"   -> [h |-> (1 :> R4 @@ 2 :> Msh(1, <<2, 1, 3, 2>>, <<>>)
                                        @@ 3 :> Fld(2, 4, [j \in 1 .. 12 |-> Vec4(j)], [j \in 1 .. 12 |-> Mask(j)], <<2, 4, 1, 3>>, <<2, 1, 3, 2>>)),
                                  r |-> [f |-> 3]]
          [] sc = "scalar3"  -> [h |-> (1 :> R3 @@ 2 :> Sub3a @@ 3 :> Msh(1, <<2, 3, 1>>, <<2>>)
                                        @@ 4 :> Fld(3, 1, [j \in 1 .. 6 |-> <<j>>], [j \in 1 .. 6 |-> Mask(j)], <<0>>, <<2, 3, 1>>)),
                                  r |-> [m |-> 3, f |-> 4]]
          [] sc = "region4"  -> [h |-> (1 :> R4), r |-> [r |-> 1]]
          [] OTHER -> ScenarioHeap(sc)

NDof(h, o) == RegND(OwnRegion(h, o))
AxisPairs(nd) == {p \in (1 .. nd) \X (1 .. nd) : p[1] # p[2]}

Init == \E sc \in Scenarios :
          /\ heap = RotScenarioHeap(sc).h
          /\ roots = RotScenarioHeap(sc).r
          /\ hist = <<[kind |-> "init", sc |-> sc]>>

(* ---- one public call ------------------------------------------------------------------ *)
GC(h, rts) == Restrict(h, Reach(h, {rts[x] : x \in DOMAIN rts}))

Step(x, kind, args, inplace, outcome) == [x |-> x, kind |-> kind, args |-> args, inplace |-> inplace, outcome |-> outcome]
Call(x, kind, args, inplace) ==
   LET o == roots[x] IN
   IF Accepts(heap, o, kind, args)
   THEN LET cp == Copying(heap, o, kind, args) IN
        /\ hist' = Append(hist, Step(x, kind, args, inplace, "ok"))
        /\ IF inplace
           THEN /\ heap' = InPlace(heap, o, kind, args)
                /\ roots' = roots
           ELSE /\ roots' = [roots EXCEPT ![x] = cp[2]]
                /\ heap' = GC(cp[1], [roots EXCEPT ![x] = cp[2]])
   ELSE /\ hist' = Append(hist, Step(x, kind, args, inplace, "reject"))
        /\ UNCHANGED <<heap, roots>>

NotField(x) == heap[roots[x]].k # "field"
Translate == \E x \in DOMAIN roots, v \in TransVs, ip \in BOOLEAN :
               NotField(x) /\ Call(x, "translate", [v |-> Cut(v, NDof(heap, roots[x]))], ip)
Scale     == \E x \in DOMAIN roots, s \in ScaleFs, ref \in RefPts, ip \in BOOLEAN :
               NotField(x) /\ Call(x, "scale", [s |-> Cut(s, NDof(heap, roots[x])), ref |-> Cut(ref, NDof(heap, roots[x]))], ip)
Rotate90  == \E x \in DOMAIN roots, k \in RotKs, ref \in RefPts, ip \in BOOLEAN :
               \E p \in AxisPairs(NDof(heap, roots[x])) :
                  Call(x, "rotate90", [a |-> p[1], b |-> p[2], k |-> k, ref |-> Cut(ref, NDof(heap, roots[x]))], ip)
(* malformed arguments: rejected by both forms, nothing modified *)
AllBadKinds == {"vector-too-long", "vector-of-strings", "factor-too-long", "factor-string", "ref-too-long",
                "same-axis", "unknown-axis", "float-k", "vector-complex", "factor-complex", "ref-complex", "rot-ref-complex"}
Malformed == \E x \in DOMAIN roots, bad \in BadKinds, ip \in BOOLEAN :
               /\ hist' = Append(hist, Step(x, "malformed", [bad |-> bad], ip, "reject"))
               /\ UNCHANGED <<heap, roots>>

(* ---- known model-level findings (DESIGN 9, D6): in-place steps act through references, *)
(* so objects that share the moved region / mesh without taking part in the call are      *)
(* left inconsistent.  The two patterns below are excluded from the exhaustive run by     *)
(* (narrow) state constraints unless AllowAlias; a separate witness run replays them on   *)
(* the real library and reports them as known findings while they persist.                *)
TargetMesh(h, o) == CASE h[o].k = "mesh" -> o [] h[o].k = "field" -> h[o].mesh [] OTHER -> 0
MovedRegs(h, o)  == CASE h[o].k = "region" -> {o} [] h[o].k = "mesh" -> MeshRegs(h, o) [] h[o].k = "field" -> MeshRegs(h, h[o].mesh)
InPlaceOk(st)    == st.kind \in {"translate", "scale", "rotate90"} /\ st.outcome = "ok" /\ st.inplace
(* P1: an in-place odd quarter turn swaps the cell counts of a mesh that another field uses *)
AliasP1 == /\ InPlaceOk(Last) /\ Last.kind = "rotate90" /\ OddK(Last.args.k)
           /\ LET o == roots[Last.x]  m == TargetMesh(heap, o) IN
                 /\ m # 0
                 /\ heap[m].n[Last.args.a] # heap[m].n[Last.args.b]
                 /\ \E f \in DOMAIN heap : heap[f].k = "field" /\ f # o /\ heap[f].mesh = m
(* P2: an in-place step moves the region of a mesh with subregions without that mesh taking part *)
AliasP2 == /\ InPlaceOk(Last)
           /\ LET o == roots[Last.x] IN
                 \E m \in DOMAIN heap : /\ heap[m].k = "mesh" /\ m # TargetMesh(heap, o)
                                        /\ heap[m].sub # <<>> /\ heap[m].region \in MovedRegs(heap, o)
(* AllowAlias = "all": faithful reference semantics, nothing excluded (the witness configuration);  *)
(* "noP1": steps realising P1 are not taken; "noP1P2": neither P1 nor P2.  (TLC evaluates           *)
(* invariants on states that violate a CONSTRAINT too, so the exclusion is a guard of Next.)         *)
AliasGuard == CASE AllowAlias = "all"    -> TRUE
                [] AllowAlias = "noP1"   -> ~AliasP1
                [] AllowAlias = "noP1P2" -> ~(AliasP1 \/ AliasP2)

Bounded == Len(hist) <= MaxDepth
Next == Bounded /\ (Translate \/ Scale \/ Rotate90 \/ Malformed) /\ AliasGuard'
Spec == Init /\ [][Next]_vars

(* ---- the property ------------------------------------------------------------------- *)
C13_RegionNormal == \A o \in DOMAIN heap : heap[o].k = "region" => RegNormal(heap[o])
C13_MeshNormal   == \A o \in DOMAIN heap : heap[o].k = "mesh" => MeshNormal(heap, o)
C13_FieldShapes  == \A o \in DOMAIN heap : heap[o].k = "field" => FieldShapeOK(heap, o)
(* ---- step properties (action level: they relate the state before and after a call) --- *)
Ok     == Last'.kind \in {"translate", "scale", "rotate90"} /\ Last'.outcome = "ok"
Before == Deep(heap, roots[Last'.x])
After  == Deep(heap', roots'[Last'.x])
RegOfDeep(d) == IF "region" \in DOMAIN d THEN d.region ELSE IF "mesh" \in DOMAIN d THEN d.mesh.region ELSE d
MeshOfDeep(d) == IF "mesh" \in DOMAIN d THEN d.mesh ELSE d
RefOf(st, reg) == IF st.args.ref = <<>> THEN RegCentre(reg) ELSE st.args.ref
Image(st, reg, p) == CASE st.kind = "translate" -> RVAdd(p, st.args.v)
                       [] st.kind = "scale"     -> ScalePoint(p, st.args.s, RefOf(st, reg))
                       [] st.kind = "rotate90"  -> RotPoint(p, st.args.a, st.args.b, st.args.k, RefOf(st, reg))
(* each step realises its documented affine map exactly (corner images, re-ordered) *)
AffineExact == Ok =>
   LET b == RegOfDeep(Before)  a == RegOfDeep(After) IN
      /\ a.lo = RVMin(Image(Last', b, b.lo), Image(Last', b, b.hi))
      /\ a.hi = RVMax(Image(Last', b, b.lo), Image(Last', b, b.hi))
(* scaling and translation keep n and units; odd quarter turns swap both for the two axes *)
CountsAndUnits == (Ok /\ heap[roots[Last'.x]].k # "region") =>
   LET b == MeshOfDeep(Before)  a == MeshOfDeep(After) IN
   IF Last'.kind = "rotate90"
   THEN /\ a.n = RotN(b.n, Last'.args.a, Last'.args.b, Last'.args.k)
        /\ a.region.units = (IF OddK(Last'.args.k) THEN SwapAt(b.region.units, Last'.args.a, Last'.args.b) ELSE b.region.units)
   ELSE a.n = b.n /\ a.region.units = b.region.units
InplaceEqualsCopy == Ok => LET cp == Copying(heap, roots[Last'.x], Last'.kind, Last'.args) IN After = Deep(cp[1], cp[2])
InplaceReturnsSelf == (Ok /\ Last'.inplace) => roots' = roots
CopyLeavesOriginal == (Ok /\ ~Last'.inplace) => \A o \in DOMAIN heap \cap DOMAIN heap' : heap'[o] = heap[o]
RejectUnchanged == (Last'.outcome = "reject") => heap' = heap /\ roots' = roots
C13_AffineExact        == [][AffineExact]_vars
C13_CountsAndUnits     == [][CountsAndUnits]_vars
C13_InplaceEqualsCopy  == [][InplaceEqualsCopy]_vars
C13_InplaceReturnsSelf == [][InplaceReturnsSelf]_vars
C13_CopyLeavesOriginal == [][CopyLeavesOriginal]_vars
C13_RejectUnchanged    == [][RejectUnchanged]_vars
(* subregions stay well-formed (C14 clause, checked here because the histories live here) *)
C14_SubregionsWellFormed == \A o \in DOMAIN heap : heap[o].k = "mesh" => SubsWellFormed(heap, o)
=============================================================================
