------------------------------ MODULE C14Trace ------------------------------
(* Channel T for C14: random histories recorded from the real library (larger meshes,  *)
(* random overlapping subregion layouts, arbitrary integer translation vectors and     *)
(* reference points, candidate boxes anywhere on the integer lattice).  Every event    *)
(* carries the *observed* mesh and subregions after the call (projected to lattice     *)
(* integers; `exact` tells whether the projection was clean, `meta` whether every      *)
(* subregion carries the mesh's dimension names and units).  The well-formedness       *)
(* clause is evaluated on the observation, the observation is compared with the        *)
(* specification's own operators, and the observed state is adopted for the next step. *)
EXTENDS C14, Json, IOUtils

VARIABLES tid, l
tvars == <<mesh, subs, hist, act, obs, origin, tid, l>>

Traces == JsonDeserialize(IOEnv.TRACE_FILE)
T  == Traces[tid]
Ev == Traces[tid].ev[l + 1]
Verd(c, name) == IF c THEN TRUE ELSE PrintT(<<"VERDICT", Traces[tid].id, l + 1, name>>)

TInit == /\ tid \in 1 .. Len(Traces)
         /\ l = 0
         /\ mesh = Traces[tid].mesh
         /\ subs = Traces[tid].subs
         /\ hist = <<>>
         /\ origin = [mesh |-> Traces[tid].mesh, subs |-> Traces[tid].subs]
         /\ act = <<"new">>
         /\ obs = [n |-> Traces[tid].mesh.n]

(* transformation with an explicit reference point e.rp *)
TMesh(e) == CASE e.op = "translate" -> TransMesh(mesh, e.v)
              [] e.op = "scale"     -> ScaleMesh(mesh, e.rp, e.f)
              [] e.op = "rotate90"  -> RotMesh(mesh, e.a, e.b, e.kq, e.rp)
TBox(e, bx) == CASE e.op = "translate" -> TransBox(bx, e.v)
                 [] e.op = "scale"     -> ScaleBox(bx, e.rp, e.f)
                 [] e.op = "rotate90"  -> RotBox(bx, e.a, e.b, e.kq, e.rp)
PostOK(p) == p.exact /\ p.meta /\ MeshOK(p.mesh) /\ SubsOK(p.mesh, p.subs)
(* a malformed state that the library was already in (reported when it arose) is not reported again *)
PreOK == SubsOK(mesh, subs)

StepTransform ==
   /\ Ev.k = "step"
   /\ act' = <<Ev.op>>
   /\ obs' = Ev.ok
   /\ hist' = <<>>
   /\ LET e == Ev  xm == TMesh(Ev)  xs == MapSubs(subs, LAMBDA bx : TBox(Ev, bx)) IN
        /\ Verd(PreOK => e.ok, "C14_SubregionsWellFormed:" \o (IF e.inplace THEN "inplace" ELSE "copy") \o "-raises")
        /\ Verd((e.ok /\ PreOK) => PostOK(e.post), "C14_SubregionsWellFormed:state")
        /\ Verd((e.ok /\ e.post.exact /\ PreOK) => e.post.mesh = xm /\ e.post.subs = xs, "C14_TransformKeepsCells:result")
        /\ Verd(PreOK => SubsOK(xm, xs), "spec-step-well-formed")
        /\ LET adopt == e.ok /\ e.post.exact /\ MeshOK(e.post.mesh) IN
             /\ mesh' = IF adopt THEN e.post.mesh ELSE xm
             /\ subs' = IF adopt THEN e.post.subs ELSE xs
StepSet ==
   /\ Ev.k = "set"
   /\ act' = <<"set_subregions">>
   /\ obs' = Ev.ok
   /\ LET e == Ev  x == SetRes(mesh, subs, [subs |-> Ev.cand, foreign |-> FALSE]) IN
        /\ Verd(x.ok = e.ok, IF x.ok THEN "C14_SetterRejectsAndKeeps:aligned-rejected" ELSE "C14_SetterRejectsAndKeeps:malformed-accepted")
        /\ Verd(PostOK(e.post), "C14_SubregionsWellFormed:set-observed")
        /\ Verd((x.ok = e.ok /\ e.post.exact) => e.post.subs = x.after,
                IF x.ok THEN "C14_SetterRejectsAndKeeps:after-accept" ELSE "C14_SetterRejectsAndKeeps:previous-not-kept")
        /\ subs' = IF e.post.exact THEN e.post.subs ELSE x.after
        /\ UNCHANGED <<mesh, hist>>
(* a request inside the region that the library refused: name the circumstance *)
SelRaise(e, x) ==
   IF e.k = "sel_range"
   THEN IF \E r \in x.alt : \E k \in DOMAIN subs :
              {subs[k].box.lo[e.d], subs[k].box.hi[e.d]} \cap {r.mesh.lo[e.d], Hi(r.mesh, e.d)} # {}
        THEN "C14_SelKeepsOverlappingClipped:raises-bound-on-subregion-face"
        ELSE "C14_SelKeepsOverlappingClipped:raises"
   ELSE "C14_SelKeepsOverlappingClipped:raises"
StepSel ==
   /\ Ev.k \in {"sel_point", "sel_range"}
   /\ act' = <<Ev.k, Ev.d>>
   /\ obs' = Ev.ok
   /\ LET e == Ev
          x == IF Ev.k = "sel_point" THEN SelPointRes(mesh, subs, Ev.d, Ev.x) ELSE SelRangeRes(mesh, subs, Ev.d, Ev.x1, Ev.x2)
      IN
        /\ Verd((PreOK \/ ~x.ok) => x.ok = e.ok, IF x.ok THEN SelRaise(e, x) ELSE "outside-accepted")
        /\ Verd((x.ok /\ e.ok /\ PreOK) => PostOK(e.post), "C14_SubregionsWellFormed:sel-observed")
        /\ Verd((x.ok /\ e.ok /\ e.post.exact /\ PreOK) =>
                    LET got == [mesh |-> e.post.mesh, subs |-> e.post.subs] IN
                    IF e.dy THEN got = x.r ELSE got \in x.alt,
                "C14_SelKeepsOverlappingClipped:result")
        (* the clause on the observation alone *)
        /\ Verd((x.ok /\ e.ok /\ e.post.exact /\ PreOK /\ MeshOK(e.post.mesh) /\ e.k = "sel_range") =>
                    LET reg == RegionOf(e.post.mesh) IN
                    /\ Len(e.post.subs) = Cardinality({k \in DOMAIN subs : BoxesOverlap(subs[k].box, reg)})
                    /\ \A k \in DOMAIN subs : BoxesOverlap(subs[k].box, reg) =>
                          \E j \in DOMAIN e.post.subs : e.post.subs[j] = Sub(subs[k].name, BoxMeet(subs[k].box, reg)),
                "C14_SelKeepsOverlappingClipped:observed")
        /\ UNCHANGED <<mesh, subs, hist>>
StepGetName ==
   /\ Ev.k = "getitem_name"
   /\ act' = <<"getitem_name", Ev.name>>
   /\ obs' = Ev.ok
   /\ LET e == Ev  s == subs[CHOOSE k \in DOMAIN subs : subs[k].name = Ev.name] IN
        /\ Verd(PreOK => e.ok, "C14_NamedExtraction:raises")
        /\ Verd((e.ok /\ PreOK) => e.exact /\ e.mesh = SubMesh(s.box, mesh), "C14_NamedExtraction:result")
        /\ Verd((e.ok /\ e.exact) => RegionOf(e.mesh) = s.box /\ e.mesh.c = mesh.c, "C14_NamedExtraction:observed")
        /\ UNCHANGED <<mesh, subs, hist>>
StepAligned ==
   /\ Ev.k = "is_aligned"
   /\ act' = <<"is_aligned">>
   /\ obs' = Ev.got
   (* stretch = 1: the other mesh has the logged origin and counts but its upper corner lies 4e-4 of a cell beyond the     *)
   (* lattice (cell sizes differ by 8e-6 relative over 50 cells): the cell sizes do not agree - not aligned                *)
   /\ LET want == Ev.stretch = 0 /\ Aligned(mesh, Ev.other) IN
         Verd(Ev.got = want, IF want THEN "C14_IsAligned:aligned-reported-unaligned" ELSE "C14_IsAligned:unaligned-reported-aligned")
   /\ Verd(Ev.back = Ev.got, "C14_IsAligned:not-symmetric")
   /\ UNCHANGED <<mesh, subs, hist>>
StepReload ==
   /\ Ev.k = "reload"
   /\ act' = <<"reload", Ev.fmt>>
   /\ obs' = Ev.ok
   /\ Verd(PreOK => Ev.ok, "C14_ReloadIdentity:" \o Ev.fmt \o "-raises")
   /\ Verd((Ev.ok /\ PreOK) => PostOK(Ev.post), "C14_SubregionsWellFormed:reload-observed")
   /\ Verd((Ev.ok /\ Ev.post.exact) => Ev.post.subs = subs /\ Ev.post.mesh = mesh, "C14_ReloadIdentity:" \o Ev.fmt)
   /\ UNCHANGED <<mesh, subs, hist>>

TNext == /\ l < Len(Traces[tid].ev)
         /\ (StepTransform \/ StepSet \/ StepSel \/ StepGetName \/ StepAligned \/ StepReload)
         /\ l' = l + 1
         /\ UNCHANGED <<tid, origin>>
TSpec == TInit /\ [][TNext]_tvars
=============================================================================
