------------------------------ MODULE C09Trace ------------------------------
(* Channel T for C09: executions recorded from the real library on random fields        *)
(* (meshes to 6x5x4, 1-6 components, random labels, units, subregions, a 40-value pool,  *)
(* random embeddings) are checked event by event.  The clauses of C09 are evaluated on   *)
(* the OBSERVED file tokens (as decoded by the independent reader) and on the OBSERVED    *)
(* read-back record, and compared with the specification's own operators.  Observed      *)
(* values are projected by the harness to the smallest pool id that stands in the        *)
(* representation's relation to them (-1: none); T.cls[rel] names that id for every      *)
(* written id, so that ids which the relation cannot tell apart compare equal.           *)
(* Verdicts are total: a disagreement prints one VERDICT line and the trace goes on.     *)
EXTENDS C09, Json, IOUtils

VARIABLES tid, l
tvars == <<fld, file, act, obs, tid, l>>

Traces == JsonDeserialize(IOEnv.TRACE_FILE)
T  == Traces[tid]
Ev == Traces[tid].ev[l + 1]
Verd(c, name) == IF c THEN TRUE ELSE PrintT(<<"VERDICT", Traces[tid].id, l + 1, name>>)

Canon(rel, id) == T.cls[rel][id + 1]
FldC(rel) == LET v == T.fld.vals
             IN [T.fld EXCEPT !.vals = [k \in DOMAIN v |-> [c \in DOMAIN v[k] |-> Canon(rel, v[k][c])]]]
(* the file the specification itself would have produced for the current provenance *)
SpecFile == LET fc == FldC(RelOf(file.repr))
            IN IF file.by[1] = "own" THEN OwnFile(fc, file.by[2], file.by[3])
               ELSE ForeignFile(fc, file.by[2], file.by[3], file.by[4])
ObsFile(by, o, over) == [by |-> by, ver |-> o.ver, repr |-> o.repr, hdr |-> o.hdr, check |-> o.check, bit |-> -1,
                   data |-> o.data, side |-> o.side, cut |-> NoCut, lj |-> FALSE, over |-> over]

TInit == /\ tid \in 1 .. Len(Traces)
         /\ l = 0
         /\ fld = Traces[tid].fld
         /\ file = NoFile
         /\ act = <<"new">>
         /\ obs = [st |-> "new"]

StepWrite ==
   /\ Ev.k = "write"
   /\ act' = <<IF Ev.over THEN "writeover" ELSE "write", Ev.repr, Ev.ext>>
   /\ obs' = [st |-> "written"]
   /\ LET fc == FldC(RelOf(Ev.repr)) IN
      IF ~Ev.ok THEN /\ file' = NoFile
                     /\ Verd(FALSE, "C09_FileIsOVF2:write-raises")
      ELSE /\ file' = ObsFile(<<"own", Ev.repr, Ev.ext>>, Ev.file, Ev.over)
           /\ Verd(Ev.file.conform, "C09_FileIsOVF2:format")
           /\ Verd(Ev.file.exact, "C09_FileIsOVF2:header-on-lattice")
           /\ Verd(FI_Struct(fc, Ev.repr, Ev.ext, Ev.file), "C09_FileIsOVF2:struct")
           /\ Verd(Ev.file.exact => FI_Mesh(fc, Ev.file), "C09_FileIsOVF2:mesh")
           /\ Verd(FI_Data(fc, Ev.ext, Ev.file), "C09_FileIsOVF2:data")
           (* the clause, evaluated on the observation, agrees with the specification's own writer *)
           /\ Verd(FI_Data(fc, Ev.ext, Ev.file) <=> (OwnFile(fc, Ev.repr, Ev.ext).data = Ev.file.data), "spec:data-tokens")
StepForeign ==
   /\ Ev.k = "foreign"
   /\ act' = <<"foreign", Ev.ver, Ev.repr, Ev.style>>
   /\ obs' = [st |-> "written"]
   /\ LET sf == ForeignFile(FldC(RelOf(Ev.repr)), Ev.ver, Ev.repr, Ev.style) IN
        /\ file' = sf
        (* the harness's own writer must have produced the specification's tokens *)
        /\ Verd(Ev.file.exact /\ Ev.file.data = sf.data /\ Ev.file.ver = sf.ver /\ Ev.file.repr = sf.repr
                /\ Ev.file.check = sf.check /\ Ev.file.hdr.nodes = sf.hdr.nodes /\ Ev.file.hdr.min = sf.hdr.min
                /\ Ev.file.hdr.max = sf.hdr.max /\ Ev.file.hdr.step = sf.hdr.step
                /\ Ev.file.hdr.valuedim = sf.hdr.valuedim /\ Ev.file.hdr.labels = sf.hdr.labels
                /\ Ev.file.hdr.units = sf.hdr.units, "harness:foreign-writer")
StepRead ==
   /\ Ev.k = "read" /\ file # NoFile
   /\ act' = <<"read">>
   /\ UNCHANGED file
   /\ LET sf  == SpecFile
          fc  == FldC(RelOf(file.repr))
          dec == Decode(sf)
          out == IF Ev.ok THEN Ok([Ev.v EXCEPT !.unit = [j |-> dec.unit.j, v |-> Ev.v.unit],
                                               !.labels = [j |-> dec.labels.j, v |-> Ev.v.labels]])
                 ELSE Rej
          own == file.by[1] = "own"
          cl  == IF own THEN "C09_RoundTrip" ELSE "C09_ReadsForeign"
      IN /\ obs' = out
         /\ Verd(Ev.ok, cl \o ":read-raises")
         /\ Ev.ok =>
             /\ Verd(Ev.exact /\ RT_Geo(fc, out), cl \o ":corners-n")
             /\ Verd(RT_MUnit(fc, out), cl \o ":meshunit")
             /\ Verd(out.v.rel = RelOf(file.repr), "harness:relation")
             /\ IF own THEN /\ Verd(RT_NV(fc, file.by[3], out), cl \o ":nvdim")
                            /\ Verd(RT_Unit(fc, out), cl \o ":unit")
                            /\ Verd(RT_Labels(fc, out), cl \o ":labels")
                            /\ Verd(RT_Subs(fc, out), cl \o ":subregions")
                            /\ Verd(RT_NV(fc, file.by[3], out) => RT_Vals(fc, file.by[2], file.by[3], out), cl \o ":values")
                            /\ Verd(Ev.exact => RoundTripOK(fc, file.by[2], file.by[3], out) =
                                    (/\ RT_Geo(fc, out) /\ RT_MUnit(fc, out) /\ RT_NV(fc, file.by[3], out) /\ RT_Unit(fc, out)
                                     /\ RT_Labels(fc, out) /\ RT_Subs(fc, out) /\ RT_Vals(fc, file.by[2], file.by[3], out)),
                                    "spec:clause-split")
               ELSE /\ Verd(out.v.nv = fc.nv, cl \o ":nvdim")
                    /\ Verd(FO_Unit(fc, file.by[2], file.by[4], out), cl \o ":unit")
                    /\ Verd(FO_Labels(fc, file.by[2], file.by[4], out), cl \o ":labels")
                    /\ Verd(out.v.nv = fc.nv => FO_Vals(fc, file.by[3], out), cl \o ":values")
             (* the specification's own reader on the specification's own file *)
             /\ Verd(ReadResult(sf).st = "ok", "spec:read-outcome")
             /\ Verd(Ev.exact =>
                       ((IF own THEN RT_Geo(fc, out) /\ RT_NV(fc, file.by[3], out) /\ RT_Vals(fc, file.by[2], file.by[3], out)
                                ELSE RT_Geo(fc, out) /\ out.v.nv = fc.nv /\ FO_Vals(fc, file.by[3], out))
                        <=> (dec.lo = out.v.lo /\ dec.hi = out.v.hi /\ dec.n = out.v.n /\ dec.nv = out.v.nv
                             /\ dec.rel = out.v.rel /\ dec.vals = out.v.vals)), "spec:read-record")
Fault(fl, what) ==
   /\ obs' = [st |-> Ev.out]
   /\ UNCHANGED file
   /\ Verd(DamagedRejected(fl, [st |-> Ev.out]), "C09_DamagedBinaryRejected:" \o what)
   /\ Verd((ReadResult(fl).st \in {"any", Ev.out}) <=> DamagedRejected(fl, [st |-> Ev.out]), "spec:fault-outcome")
StepTruncate ==
   /\ Ev.k = "truncate" /\ file # NoFile
   /\ act' = <<"truncate", Ev.cut>>
   /\ Verd(Ev.cut \in CutsOf(SpecFile), "harness:cut-class")
   /\ Fault([SpecFile EXCEPT !.cut = Ev.cut], Ev.cut[1])
StepCorrupt ==
   /\ Ev.k = "corrupt" /\ file # NoFile
   /\ act' = <<"corrupt", Ev.bit>>
   /\ Fault([SpecFile EXCEPT !.check = "bad", !.bit = Ev.bit], "check-bit")

TNext == /\ l < Len(Traces[tid].ev)
         /\ (StepWrite \/ StepForeign \/ StepRead \/ StepTruncate \/ StepCorrupt)
         /\ l' = l + 1
         /\ UNCHANGED <<fld, tid>>
         /\ Verd(FieldOK(fld), "harness:field-ok")
TSpec == TInit /\ [][TNext]_tvars
=============================================================================
