------------------------------ MODULE C20Trace ------------------------------
(* Channel T for C20: random larger 2-d fields are plotted by the real library on a       *)
(* recording Agg Axes; what was handed to matplotlib is logged as integers (values         *)
(* divided by the value scale; coordinates converted back to lattice units through the    *)
(* multiplier that the library itself printed on the axis label) and compared with the    *)
(* specification's own operators.  Verdicts are total.                                     *)
EXTENDS C20, Json, IOUtils

VARIABLES tid, l
tvars == <<fld, aux, act, obs, tid, l>>

Traces == JsonDeserialize(IOEnv.TRACE_FILE)
T  == Traces[tid]
Ev == Traces[tid].ev[l + 1]
TraceScales == <<>>
Verd(c, name) == IF c THEN TRUE ELSE PrintT(<<"VERDICT", Traces[tid].id, l + 1, name>>)

TInit == /\ tid \in 1 .. Len(Traces)
         /\ l = 0
         /\ fld = Traces[tid].fld
         /\ aux = Traces[tid].aux
         /\ act = <<"new">>
         /\ obs = Refuse(FALSE)

Flags(rows) == [r \in DOMAIN rows |-> [c \in DOMAIN rows[r] |-> rows[r][c][1]]]
(* equal on the cells the specification draws *)
SameWhereDrawn(got, want) == /\ DOMAIN got = DOMAIN want
                             /\ \A r \in DOMAIN want : /\ DOMAIN got[r] = DOMAIN want[r]
                                                       /\ \A c \in DOMAIN want[r] : want[r][c][1] = 1 => got[r][c] = want[r][c]

Expected == CASE Ev.kind = "scalar"    -> PlotScalar(fld, aux, Ev.mo, Ev.uf)
              [] Ev.kind = "contour"   -> PlotContour(fld, aux, Ev.mo, Ev.uf)
              [] Ev.kind = "vector"    -> PlotVector(fld, aux, Ev.mo, Ev.pair, Ev.col)
              [] Ev.kind = "lightness" -> PlotLightness(fld, aux, Ev.mo, Ev.uf, Ev.ul)
              [] Ev.kind = "call"      -> PlotCall(fld, aux, Ev.mo)

StepPlot ==
   /\ Ev.k = "plot"
   /\ act' = CASE Ev.kind \in {"scalar", "contour"} -> <<Ev.kind, Ev.mo, Ev.uf>>
               [] Ev.kind = "vector"    -> <<Ev.kind, Ev.mo, Ev.pair, Ev.col>>
               [] Ev.kind = "lightness" -> <<Ev.kind, Ev.mo, Ev.uf, Ev.ul>>
               [] Ev.kind = "call"      -> <<Ev.kind, Ev.mo>>
   /\ LET exp  == Expected
          m    == fld.mesh
          both == Ev.ok /\ exp.ok
          off  == OffOf(fld, Ev.mo)
      IN /\ obs' = exp
         /\ Verd(TypeOK, "trace-precondition")
         /\ Verd(exp.dem => Ev.ok = exp.ok, IF exp.ok THEN "C20_Draws-raises" ELSE "C20_Refusals-accepted")
         /\ Verd(~exp.dem => Ev.ok = exp.ok, "silent-outcome")
         /\ Verd(Ev.unchanged, "C20_PlotMutatesNothing-changed")
         /\ Verd(both => Ev.artists, "C20_ArtistsAgree-artist")
         /\ Verd(both => (Ev.xl = exp.xl /\ Ev.yl = exp.yl), "C20_AxisLabels-labels")
         /\ Verd(both => (Ev.labok /\ Ev.offobs = off), "C20_AxisLabels-multiplier")
         (* image *)
         /\ Verd(both => Ev.img.has = exp.img.has, "C20_ImageShowsCellAtPoint-presence")
         /\ Verd((both /\ Ev.img.has /\ exp.img.has) => Ev.img.origin = "lower", "C20_ImageShowsCellAtPoint-origin")
         /\ Verd((both /\ Ev.img.has /\ exp.img.has) =>
                    (Ev.img.exact /\ Ev.img.ext = <<m.lo[1], Hi(m, 1), m.lo[2], Hi(m, 2)>>), "C20_ImageShowsCellAtPoint-extent")
         /\ Verd((both /\ Ev.img.has /\ exp.img.has) => Ev.img.flagsonly = exp.img.flagsonly, "C20_ImageShowsCellAtPoint-kind")
         /\ Verd((both /\ Ev.img.has /\ exp.img.has) => Flags(Ev.img.rows) = Flags(exp.img.rows), "C20_HiddenCells-filter")
         /\ Verd((both /\ Ev.img.has /\ exp.img.has /\ ~exp.img.flagsonly /\ ~exp.img.free) =>
                    SameWhereDrawn(Ev.img.rows, exp.img.rows), "C20_ImageShowsCellAtPoint-values")
         (* arrows *)
         /\ Verd(both => Ev.quiv.has = exp.quiv.has, "C20_ArrowsAtCentres-presence")
         /\ Verd((both /\ Ev.quiv.has /\ exp.quiv.has) =>
                    (Ev.quiv.exact /\ Ev.quiv.X = CentresAx(m, 1) /\ Ev.quiv.Y = CentresAx(m, 2)), "C20_ArrowsAtCentres-positions")
         /\ Verd((both /\ Ev.quiv.has /\ exp.quiv.has) =>
                    (Flags(Ev.quiv.U) = Flags(exp.quiv.U) /\ Flags(Ev.quiv.V) = Flags(exp.quiv.V)), "C20_HiddenCells-arrows")
         /\ Verd((both /\ Ev.quiv.has /\ exp.quiv.has) =>
                    (SameWhereDrawn(Ev.quiv.U, exp.quiv.U) /\ SameWhereDrawn(Ev.quiv.V, exp.quiv.V)), "C20_ArrowsAtCentres-components")
         /\ Verd((both /\ Ev.quiv.has /\ exp.quiv.has) => Ev.quiv.chas = exp.quiv.C.has, "C20_ArrowsAtCentres-colour-presence")
         /\ Verd((both /\ Ev.quiv.has /\ exp.quiv.has /\ Ev.quiv.chas /\ exp.quiv.C.has /\ ~exp.quiv.C.free) =>
                    (Ev.quiv.cexact /\ SameWhereDrawn(Ev.quiv.C, exp.quiv.C.rows)), "C20_ArrowsAtCentres-colour")
         (* contour *)
         /\ Verd(both => Ev.cont.has = exp.cont.has, "C20_ContourAtCentres-presence")
         /\ Verd((both /\ Ev.cont.has /\ exp.cont.has) =>
                    (Ev.cont.exact /\ Ev.cont.X = CentresAx(m, 1) /\ Ev.cont.Y = CentresAx(m, 2)), "C20_ContourAtCentres-positions")
         /\ Verd((both /\ Ev.cont.has /\ exp.cont.has) => Flags(Ev.cont.Z) = Flags(exp.cont.Z), "C20_HiddenCells-filter")
         /\ Verd((both /\ Ev.cont.has /\ exp.cont.has) => SameWhereDrawn(Ev.cont.Z, exp.cont.Z), "C20_ContourAtCentres-values")

TNext == /\ l < Len(Traces[tid].ev)
         /\ StepPlot
         /\ l' = l + 1
         /\ UNCHANGED <<fld, aux, tid>>
TSpec == TInit /\ [][TNext]_tvars
=============================================================================
