SPECIFICATION Spec
CONSTANTS
  Shapes <- Shapes_thorough
  CProf <- CProf_thorough
  LoProf <- LoProf_thorough
  Masks <- Masks_thorough
  ScaleSeq <- Scales_thorough
  Diagonal = TRUE
  AuxKinds <- Aux_all
  MapKinds <- Maps_thorough
  NameSchemes <- Names_all
  MultOpts <- Mult_thorough
  PairOpts = "all"
  BadShapes <- Bad_all
CHECK_DEADLOCK FALSE
INVARIANT TypeOK
INVARIANT C20_ImageShowsCellAtPoint
INVARIANT C20_ArrowsAtCentres
INVARIANT C20_ContourAtCentres
INVARIANT C20_AxisLabels
INVARIANT C20_Refusals
PROPERTY C20_PlotMutatesNothing
