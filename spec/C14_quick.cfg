SPECIFICATION Spec
CONSTANTS
  MaxN <- MaxN_quick
  Prof <- Prof_quick
  Layouts <- Layouts_all
  Vecs <- Vecs_all
  Factors <- Factors_quick
  Refs <- Refs_all
  RotKs <- RotKs_quick
  Short <- Short_quick
  MaxDepth = 2
  QueryDepth = 0
  DeepND = 2
  FullProbes = FALSE
CHECK_DEADLOCK FALSE
INVARIANT TypeOK
INVARIANT C14_SubregionsWellFormed
INVARIANT C14_RotationPeriod
INVARIANT C14_SetterRejectsAndKeeps
INVARIANT C14_CandidatesNonVacuous
INVARIANT C14_SelKeepsOverlappingClipped
INVARIANT C14_SelNonVacuous
INVARIANT C14_NamedExtraction
INVARIANT C14_IsAligned
INVARIANT C14_ReloadIdentity
PROPERTY C14_TransformKeepsCells
