-------------------------------- MODULE C20 --------------------------------
(* C20 - matplotlib plots draw the field's own numbers at their physical coordinates.    *)
(*                                                                                     *)
(* State: a field `fld` (mesh, dimension names/units, 1-4 components, values, validity, *)
(* labels, component->axis mapping, physical scale of the lattice unit), an auxiliary   *)
(* scalar field `aux` on the same region (used as filter / colour / lightness field,    *)
(* same or different resolution), the last plot call (`act`) and `obs`: what must be    *)
(* HANDED TO MATPLOTLIB - the image matrix (row = second axis, column = first axis,     *)
(* hidden cells), origin and extent; quiver X, Y, U, V, C; contour X, Y, Z; the axis    *)
(* labels - or a refusal.  Coordinates handed to matplotlib are lattice coordinates     *)
(* times the physical size of the lattice unit divided by the SI multiplier: exact      *)
(* rationals <<num, den>> here.  Colour values (HLS->RGB), colour bars and the in-plane *)
(* angle are outside the specification.                                                 *)
EXTENDS Cells, TLC

CONSTANTS Shapes,      \* cell counts of the 2-d meshes
          CProf,       \* cell sizes (multiples of 12 lattice units: thirds and halves stay on the lattice)
          LoProf,      \* lower corners
          Masks,       \* subset of {"all", "hole", "alt", "none"}
          ScaleSeq,    \* sequence of physical sizes of one lattice unit: [qm |-> <<num, den>>, k |-> e] = qm * 1000^e metres
          Diagonal,    \* BOOLEAN, see Pick
          AuxKinds,    \* subset of {"none", "same", "coarse", "fine"}
          MapKinds,    \* component->axis mappings, by name (see MapsOf)
          NameSchemes, \* subset of {1, 2}
          MultOpts,    \* subset of {DFLT, -1, 0, 1}: default (DFLT) or explicit multiplier 1000^(k + offset)
          PairOpts,    \* explicit component pairs handed to vector(): "few" or "all"
          BadShapes    \* meshes that are not 2-d

VARIABLES fld, aux, act, obs
vars == <<fld, aux, act, obs>>

DFLT     == 9                 \* "the default multiplier" among the integer multiplier options
DEFPAIR == <<-1, -1>>        \* "no labels given" among the component pairs

(* ---- configurations ------------------------------------------------------------------ *)
ValOf(k, c)   == (5 * k + 2 * c + 1) * (IF (k + c) % 3 = 0 THEN -1 ELSE 1)
ValsOf(n, nv) == [k \in 1 .. ProdSeq(n) |-> [c \in 1 .. nv |-> ValOf(k, c)]]
MaskOf(n, kind) == [k \in 1 .. ProdSeq(n) |->
                      CASE kind = "all"  -> TRUE
                        [] kind = "none" -> FALSE
                        [] kind = "hole" -> ~(k = 2 \/ k = ProdSeq(n))
                        [] kind = "alt"  -> LET i == Unflat(n, k - 1)
                                            IN SumSeq([d \in DOMAIN n |-> d * i[d]]) % 3 # 1]
DimsOf(s, nd)  == IF nd = 2 THEN (IF s = 1 THEN <<"x", "y">> ELSE <<"z", "x">>)
                  ELSE [d \in 1 .. nd |-> <<"x", "y", "z", "w">>[d]]
UnitsOf(s, nd) == IF nd = 2 THEN (IF s = 1 THEN <<"m", "m">> ELSE <<"m", "rad">>) ELSE [d \in 1 .. nd |-> "m"]
LabelsOf(s, nv) == IF nv = 1 THEN <<>>
                   ELSE IF s = 1 THEN [c \in 1 .. nv |-> <<"x", "y", "z", "v3">>[c]]
                        ELSE [c \in 1 .. nv |-> <<"mb", "ma", "mc", "md">>[c]]
(* component -> axis mapping as a sequence over the components: 1 / 2 = first / second   *)
(* dimension, 0 = not mapped; `hasmap` = the mapping dictionary is not empty             *)
MapsOf(nv) == CASE nv = 1 -> {[name |-> "none", m |-> <<>>, has |-> FALSE]}
                [] nv = 2 -> {[name |-> "id", m |-> <<1, 2>>, has |-> TRUE], [name |-> "swap", m |-> <<2, 1>>, has |-> TRUE],
                              [name |-> "none", m |-> <<0, 0>>, has |-> FALSE]}
                [] nv = 3 -> {[name |-> "id", m |-> <<1, 2, 0>>, has |-> TRUE], [name |-> "swap", m |-> <<2, 1, 0>>, has |-> TRUE],
                              [name |-> "p3", m |-> <<0, 1, 2>>, has |-> TRUE], [name |-> "p4", m |-> <<2, 0, 1>>, has |-> TRUE],
                              [name |-> "p5", m |-> <<1, 0, 2>>, has |-> TRUE], [name |-> "p6", m |-> <<0, 2, 1>>, has |-> TRUE],
                              [name |-> "partial", m |-> <<1, 0, 0>>, has |-> TRUE],
                              [name |-> "none", m |-> <<0, 0, 0>>, has |-> FALSE]}
                [] nv = 4 -> {[name |-> "none", m |-> <<0, 0, 0, 0>>, has |-> FALSE]}

Meshes2 == {[lo |-> lp, c |-> cp, n |-> nn] : nn \in Shapes, cp \in CProf, lp \in LoProf}
BadMeshes == {[lo |-> [d \in DOMAIN nn |-> 12 * d], c |-> [d \in DOMAIN nn |-> 12], n |-> nn] : nn \in BadShapes}
FieldOn(m, nv, mk, mp, s, sc) ==
   [mesh |-> m, dims |-> DimsOf(s, Len(m.n)), units |-> UnitsOf(s, Len(m.n)), nv |-> nv, vals |-> ValsOf(m.n, nv),
    valid |-> MaskOf(m.n, mk), labels |-> LabelsOf(s, nv), map |-> mp.m, hasmap |-> mp.has, scale |-> sc]
(* the auxiliary scalar field: zero in places; on the field's mesh, on one with half as   *)
(* many cells (where even) or with three times as many - never a field centre on a face   *)
AuxN(m, kind) == CASE kind = "same"   -> m.n
                   [] kind = "coarse" -> [d \in Dims(m) |-> IF m.n[d] % 2 = 0 THEN m.n[d] \div 2 ELSE m.n[d]]
                   [] kind = "fine"   -> [d \in Dims(m) |-> 3 * m.n[d]]
                   [] kind = "none"   -> m.n
AuxVal(k) == IF k % 3 = 1 THEN 0 ELSE IF k % 3 = 2 THEN -(2 * k + 1) ELSE 2 * k + 1        \* zero, negative, positive
AuxOn(m, kind) == [kind |-> kind, n |-> AuxN(m, kind),
                   vals |-> IF kind = "none" THEN <<>> ELSE [k \in 1 .. ProdSeq(AuxN(m, kind)) |-> <<AuxVal(k)>>]]

(* Diagonal = TRUE: scale, name scheme and the auxiliary field's resolution are not multiplied with the *)
(* other parameters but chosen from them (every value still occurs, with varying partners)          *)
Scales == {ScaleSeq[j] : j \in DOMAIN ScaleSeq}
MaskIdx(mk) == CASE mk = "all" -> 0 [] mk = "hole" -> 1 [] mk = "alt" -> 2 [] mk = "none" -> 3
MapIdx(nm)  == CASE nm = "id" -> 0 [] nm = "swap" -> 1 [] nm = "p3" -> 2 [] nm = "p4" -> 3 [] nm = "p5" -> 4
                 [] nm = "p6" -> 5 [] nm = "partial" -> 6 [] nm = "none" -> 7
Hash(m, nv, mk, mp) == m.n[1] + 2 * m.n[2] + m.c[1] \div 12 + nv + MaskIdx(mk) + MapIdx(mp.name)
AuxSeq == <<"same", "coarse", "fine">>
Pick(m, nv, mk, mp, s, sc, ak) ==
   Diagonal => LET h == Hash(m, nv, mk, mp)
               IN /\ sc = ScaleSeq[1 + (h % Len(ScaleSeq))]
                  /\ s = 1 + ((h \div 2) % 2)
                  /\ ak \in {"none", AuxSeq[1 + (h % 3)]}
Combos(nv) == {t \in Meshes2 \X Masks \X {q \in MapsOf(nv) : nv = 1 \/ q.name \in MapKinds} \X NameSchemes \X Scales \X AuxKinds :
                  Pick(t[1], nv, t[2], t[3], t[4], t[5], t[6])}
InitStates == UNION {{<<FieldOn(t[1], nv, t[2], t[3], t[4], t[5]), AuxOn(t[1], t[6])>> : t \in Combos(nv)} : nv \in 1 .. 3}
OneScale == CHOOSE sc \in Scales : TRUE
BadInit == {<<FieldOn(m, 1, "all", [m |-> <<>>, has |-> FALSE], 1, OneScale), AuxOn(m, "none")>> : m \in BadMeshes}
           \cup {<<FieldOn(m, 4, "all", [m |-> <<0, 0, 0, 0>>, has |-> FALSE], 1, OneScale), AuxOn(m, "none")>> :
                    m \in {mm \in Meshes2 : mm.lo = (CHOOSE l \in LoProf : TRUE) /\ mm.c = (CHOOSE c \in CProf : TRUE)}}

(* ---- scale, multiplier, coordinates handed to matplotlib -------------------------------- *)
Pow1000(e) == IF e = 0 THEN 1 ELSE IF e = 1 THEN 1000 ELSE 1000000
(* lattice coordinate q in units of the multiplier 1000^(k + off) *)
ScaleR(f, q, off) == LET qm == f.scale.qm
                     IN IF off >= 0 THEN RNorm(q * qm[1], qm[2] * Pow1000(off))
                        ELSE RNorm(q * qm[1] * Pow1000(-off), qm[2])
(* SI multiplier of a length e (lattice units): 1000^(k + j) with 1 <= e*qm/1000^j < 1000 *)
EdgeClass(f, e) == LET qm == f.scale.qm
                   IN IF e * qm[1] >= 1000 * qm[2] THEN 1 ELSE IF e * qm[1] >= qm[2] THEN 0 ELSE -1
(* no edge within 0.1 % of a decade boundary (there the float quotient decides), unless    *)
(* the scale is exactly representable (k = 0, power-of-two denominator)                     *)
EdgeSafe(f, e) == LET qm == f.scale.qm
                  IN \/ (f.scale.k = 0 /\ qm[2] \in {1, 2, 4, 8, 16})
                     \/ \A b \in {1, 1000} : (1000 * e * qm[1] < 999 * b * qm[2] \/ 1000 * e * qm[1] > 1001 * b * qm[2])
DefaultOff(f) == LET m == f.mesh IN Max2(EdgeClass(f, Edge(m, 1)), EdgeClass(f, Edge(m, 2)))
OffOf(f, mopt) == IF mopt = DFLT THEN DefaultOff(f) ELSE mopt
Prefix(j) == CASE j = -4 -> "p" [] j = -3 -> "n" [] j = -2 -> "u" [] j = -1 -> "m" [] j = 0 -> ""
               [] j = 1 -> "k" [] j = 2 -> "M" [] j = 3 -> "G"
AxisLabel(f, d, off) == f.dims[d] \o " (" \o Prefix(f.scale.k + off) \o f.units[d] \o ")"
Extent(f, off) == LET m == f.mesh IN <<ScaleR(f, m.lo[1], off), ScaleR(f, Hi(m, 1), off),
                                       ScaleR(f, m.lo[2], off), ScaleR(f, Hi(m, 2), off)>>
CentresR(f, d, off) == [j \in 1 .. f.mesh.n[d] |-> ScaleR(f, CentreAx(f.mesh, d, j - 1), off)]

(* ---- what is drawn --------------------------------------------------------------------------- *)
(* the auxiliary field's value at the centre of cell i of the field's mesh (resampling)    *)
AuxMesh(f, a) == [lo |-> f.mesh.lo, n |-> a.n, c |-> [d \in Dims(f.mesh) |-> Edge(f.mesh, d) \div a.n[d]]]
AuxAt(f, a, i) == At(a.n, a.vals, P2I(AuxMesh(f, a), Centre(f.mesh, i)))[1]
(* hidden: invalid, or zero in the filter field *)
Hidden(f, a, usefilter, i) == ~At(f.mesh.n, f.valid, i) \/ (usefilter /\ AuxAt(f, a, i) = 0)
Cell(h, v) == IF h THEN <<0, 0>> ELSE <<1, v>>          \* <<drawn?, value>>
(* a matrix as matplotlib wants it: row = index along the second axis, column = first      *)
Matrix(f, g) == [r \in 1 .. f.mesh.n[2] |-> [c \in 1 .. f.mesh.n[1] |-> g[<<c - 1, r - 1>>]]]      \* g: function over the cell indices
CompAt(f, i, c) == At(f.mesh.n, f.vals, i)[c]
(* component mapped to axis d (0 = none), through the reversed mapping *)
RIdx(f, d) == IF \E c \in DOMAIN f.map : f.map[c] = d THEN CHOOSE c \in DOMAIN f.map : f.map[c] = d ELSE 0
ThirdOf(nv, a, b) == CHOOSE c \in 1 .. nv : c # a /\ c # b

NoImg  == [has |-> FALSE, rows |-> <<>>, extent |-> <<>>, origin |-> "", flagsonly |-> FALSE, free |-> FALSE]
NoQuiv == [has |-> FALSE, X |-> <<>>, Y |-> <<>>, U |-> <<>>, V |-> <<>>, C |-> [has |-> FALSE, rows |-> <<>>, free |-> FALSE]]
NoCont == [has |-> FALSE, X |-> <<>>, Y |-> <<>>, Z |-> <<>>]
Refuse(dem) == [ok |-> FALSE, dem |-> dem, img |-> NoImg, quiv |-> NoQuiv, cont |-> NoCont, xl |-> "", yl |-> ""]
Drawn(f, off, img, quiv, cont) == [ok |-> TRUE, dem |-> TRUE, img |-> img, quiv |-> quiv, cont |-> cont,
                                   xl |-> AxisLabel(f, 1, off), yl |-> AxisLabel(f, 2, off)]

Image(f, a, usefilter, comp, off, flagsonly, free) ==
   [has |-> TRUE, origin |-> "lower", extent |-> Extent(f, off), flagsonly |-> flagsonly, free |-> free,
    rows |-> Matrix(f, [i \in Indices(f.mesh) |-> Cell(Hidden(f, a, usefilter, i), IF flagsonly \/ free THEN 0 ELSE CompAt(f, i, comp))])]
(* arrows: at the cell centres; U / V = the chosen components (0 = none: zeros); hidden = invalid *)
Quiver(f, a, ca, cb, off, col) ==
   [has |-> TRUE, X |-> CentresR(f, 1, off), Y |-> CentresR(f, 2, off),
    U |-> Matrix(f, [i \in Indices(f.mesh) |-> Cell(Hidden(f, a, FALSE, i), IF ca = 0 THEN 0 ELSE CompAt(f, i, ca))]),
    V |-> Matrix(f, [i \in Indices(f.mesh) |-> Cell(Hidden(f, a, FALSE, i), IF cb = 0 THEN 0 ELSE CompAt(f, i, cb))]),
    C |-> CASE col = "off"  -> [has |-> FALSE, rows |-> <<>>, free |-> FALSE]
            [] col = "aux"  -> [has |-> TRUE, free |-> FALSE,
                                rows |-> Matrix(f, [i \in Indices(f.mesh) |-> Cell(Hidden(f, a, FALSE, i), AuxAt(f, a, i))])]
            [] col = "auto" -> IF f.nv # 3 THEN [has |-> FALSE, rows |-> <<>>, free |-> FALSE]
                               ELSE IF ca = 0 \/ cb = 0              \* two candidates: the choice is not specified
                                    THEN [has |-> TRUE, free |-> TRUE, rows |-> <<>>]
                                    ELSE [has |-> TRUE, free |-> FALSE,
                                          rows |-> Matrix(f, [i \in Indices(f.mesh) |-> Cell(Hidden(f, a, FALSE, i), CompAt(f, i, ThirdOf(3, ca, cb)))])]]

Is2D(f) == Len(f.mesh.n) = 2

(* Field.mpl.scalar(multiplier, filter_field) *)
PlotScalar(f, a, mopt, usefilter) ==
   IF ~Is2D(f) \/ f.nv # 1 THEN Refuse(TRUE)
   ELSE Drawn(f, OffOf(f, mopt), Image(f, a, usefilter, 1, OffOf(f, mopt), FALSE, FALSE), NoQuiv, NoCont)
(* Field.mpl.contour(multiplier, filter_field) *)
PlotContour(f, a, mopt, usefilter) ==
   IF ~Is2D(f) \/ f.nv # 1 THEN Refuse(TRUE)
   ELSE LET off == OffOf(f, mopt)
        IN Drawn(f, off, NoImg, NoQuiv,
                 [has |-> TRUE, X |-> CentresR(f, 1, off), Y |-> CentresR(f, 2, off),
                  Z |-> Matrix(f, [i \in Indices(f.mesh) |-> Cell(Hidden(f, a, usefilter, i), CompAt(f, i, 1))])])
(* Field.mpl.vector(multiplier, vdims, use_color, color_field): pair = DEFPAIR or <<ca, cb>> *)
PlotVector(f, a, mopt, pair, col) ==
   IF ~Is2D(f) \/ f.nv = 1 THEN Refuse(TRUE)
   ELSE LET ca == IF pair = DEFPAIR THEN RIdx(f, 1) ELSE pair[1]
            cb == IF pair = DEFPAIR THEN RIdx(f, 2) ELSE pair[2]
        IN IF (pair = DEFPAIR /\ ~f.hasmap) \/ (ca = 0 /\ cb = 0)
           THEN Refuse(FALSE)      \* nothing selects the arrows: the library refuses (not stated by the property)
           ELSE Drawn(f, OffOf(f, mopt), NoImg, Quiver(f, a, ca, cb, OffOf(f, mopt), col), NoCont)
(* Field.mpl.lightness(multiplier, filter_field, lightness_field): which cells are drawn, where *)
PlotLightness(f, a, mopt, usefilter, uselight) ==
   IF ~Is2D(f) \/ f.nv > 3 THEN Refuse(TRUE)
   ELSE IF f.nv > 1 /\ (RIdx(f, 1) = 0 \/ RIdx(f, 2) = 0) THEN Refuse(FALSE)     \* an in-plane component is not known
   ELSE IF f.nv = 3 /\ ~uselight /\ ~f.hasmap THEN Refuse(FALSE)
   ELSE Drawn(f, OffOf(f, mopt), Image(f, a, usefilter, 1, OffOf(f, mopt), TRUE, FALSE), NoQuiv, NoCont)
(* Field.mpl(multiplier): scalar image (validity as filter) and/or arrows without colour *)
PlotCall(f, a, mopt) ==
   IF ~Is2D(f) \/ f.nv > 3 THEN Refuse(TRUE)
   ELSE LET off == OffOf(f, mopt)
            ca  == RIdx(f, 1)
            cb  == RIdx(f, 2)
        IN IF f.nv = 1 THEN Drawn(f, off, Image(f, a, FALSE, 1, off, FALSE, FALSE), NoQuiv, NoCont)
           ELSE IF ~f.hasmap \/ (ca = 0 /\ cb = 0) THEN Refuse(FALSE)
           ELSE IF f.nv = 2 THEN Drawn(f, off, NoImg, Quiver(f, a, ca, cb, off, "off"), NoCont)
           ELSE Drawn(f, off,
                      IF ca = 0 \/ cb = 0 THEN Image(f, a, FALSE, 1, off, FALSE, TRUE)     \* which component: not specified
                      ELSE Image(f, a, FALSE, ThirdOf(3, ca, cb), off, FALSE, FALSE),
                      Quiver(f, a, ca, cb, off, "off"), NoCont)

(* ---- actions ------------------------------------------------------------------------------------ *)
Fresh == act[1] = "new"
HasAux == aux.kind # "none"
Filters == IF HasAux THEN BOOLEAN ELSE {FALSE}
Pairs(nv) == IF PairOpts = "all"
             THEN {<<x, y>> : x \in 0 .. nv, y \in 0 .. nv} \ ({<<x, x>> : x \in 1 .. nv})
             ELSE CASE nv = 2 -> {<<2, 1>>, <<1, 0>>} [] nv = 3 -> {<<3, 1>>, <<0, 2>>} [] OTHER -> {<<0, 0>>}

Init == /\ \E fa \in InitStates \cup BadInit : fld = fa[1] /\ aux = fa[2]
        /\ act = <<"new">>
        /\ obs = Refuse(FALSE)

Scalar == \E mo \in MultOpts, uf \in Filters :
             /\ Fresh /\ (fld.nv = 1 \/ (mo = DFLT /\ ~uf))
             /\ act' = <<"scalar", mo, uf>> /\ obs' = PlotScalar(fld, aux, mo, uf) /\ UNCHANGED <<fld, aux>>
Contour == \E mo \in MultOpts, uf \in Filters :
             /\ Fresh /\ (fld.nv = 1 \/ (mo = DFLT /\ ~uf))
             /\ (Is2D(fld) => \A d \in 1 .. 2 : fld.mesh.n[d] >= 2)      \* matplotlib needs a 2 x 2 grid
             /\ act' = <<"contour", mo, uf>> /\ obs' = PlotContour(fld, aux, mo, uf) /\ UNCHANGED <<fld, aux>>
Vector == \E mo \in MultOpts, pr \in {DEFPAIR} \cup Pairs(fld.nv), col \in {"auto", "off"} \cup (IF HasAux THEN {"aux"} ELSE {}) :
             /\ Fresh /\ (fld.nv \in 2 .. 3 \/ (mo = DFLT /\ pr = DEFPAIR /\ col = "auto"))
             /\ (mo = DFLT \/ pr = DEFPAIR)            \* explicit multipliers and explicit pairs are not multiplied
             /\ act' = <<"vector", mo, pr, col>> /\ obs' = PlotVector(fld, aux, mo, pr, col) /\ UNCHANGED <<fld, aux>>
Lightness == \E mo \in MultOpts, uf \in Filters, ul \in Filters :
             /\ Fresh /\ (fld.nv <= 3 \/ (mo = DFLT /\ ~uf /\ ~ul))
             /\ ~(uf /\ ul)
             /\ act' = <<"lightness", mo, uf, ul>> /\ obs' = PlotLightness(fld, aux, mo, uf, ul) /\ UNCHANGED <<fld, aux>>
Call == \E mo \in MultOpts :
             /\ Fresh /\ (fld.nv <= 3 \/ mo = DFLT)
             /\ act' = <<"call", mo>> /\ obs' = PlotCall(fld, aux, mo) /\ UNCHANGED <<fld, aux>>

Next == Scalar \/ Contour \/ Vector \/ Lightness \/ Call
Spec == Init /\ [][Next]_vars

(* ---- the property, clause by clause ------------------------------------------------------------------ *)
TypeOK == /\ MeshOK(fld.mesh) /\ Len(fld.vals) = NCells(fld.mesh) /\ Len(fld.valid) = NCells(fld.mesh)
          /\ \A d \in Dims(fld.mesh) : fld.mesh.c[d] % 12 = 0
          /\ Is2D(fld) => \A d \in 1 .. 2 : EdgeSafe(fld, Edge(fld.mesh, d)) /\ EdgeClass(fld, Edge(fld.mesh, d)) \in {-1, 0, 1}
          /\ HasAux => /\ Len(aux.vals) = ProdSeq(aux.n)
                       /\ \A d \in 1 .. 2 : Edge(fld.mesh, d) % aux.n[d] = 0 /\ (Edge(fld.mesh, d) \div aux.n[d]) % 4 = 0
                       (* no centre of the field's mesh on a face of the auxiliary mesh *)
                       /\ \A d \in 1 .. 2 : \A j \in 0 .. (fld.mesh.n[d] - 1) :
                             (CentreAx(fld.mesh, d, j) - fld.mesh.lo[d]) % (Edge(fld.mesh, d) \div aux.n[d]) # 0

IsPlot == act[1] # "new"
UsesFilter == act[1] \in {"scalar", "contour", "lightness"} /\ act[3]
(* physical position (lattice units, exact) of a coordinate handed to matplotlib *)
Off == OffOf(fld, act[2])
BackQ(r) == \* r = q * qm / 1000^off  =>  q
   LET qm == fld.scale.qm
   IN IF Off >= 0 THEN RNorm(r[1] * qm[2] * Pow1000(Off), r[2] * qm[1]) ELSE RNorm(r[1] * qm[2], r[2] * qm[1] * Pow1000(-Off))

(* the pixel that covers a physical point shows the value of the mesh cell containing it: *)
(* image rows/columns are spread evenly over the extent, origin lower                      *)
C20_ImageShowsCellAtPoint ==
   (IsPlot /\ obs.ok /\ obs.img.has) =>
      LET m == fld.mesh
          e == obs.img.extent
          x0 == BackQ(e[1])  x1 == BackQ(e[2])  y0 == BackQ(e[3])  y1 == BackQ(e[4])
      IN /\ obs.img.origin = "lower"
         /\ x0 = R(m.lo[1]) /\ x1 = R(Hi(m, 1)) /\ y0 = R(m.lo[2]) /\ y1 = R(Hi(m, 2))
         /\ Len(obs.img.rows) = m.n[2] /\ \A r \in DOMAIN obs.img.rows : Len(obs.img.rows[r]) = m.n[1]
         /\ \A i \in Indices(m) :
               \* the quarter points of cell i all fall into pixel (row i[2], column i[1])
               \A qx \in {1, 2, 3}, qy \in {1, 2, 3} :
                  LET px == m.lo[1] + m.c[1] * i[1] + qx * (m.c[1] \div 4)
                      py == m.lo[2] + m.c[2] * i[2] + qy * (m.c[2] \div 4)
                      col == ((px - m.lo[1]) * m.n[1]) \div Edge(m, 1)
                      row == ((py - m.lo[2]) * m.n[2]) \div Edge(m, 2)
                      pix == obs.img.rows[row + 1][col + 1]
                      j == P2I(m, <<px, py>>)
                  IN /\ j = i
                     /\ pix[1] = (IF Hidden(fld, aux, UsesFilter, j) THEN 0 ELSE 1)
                     /\ (pix[1] = 1 /\ ~obs.img.flagsonly /\ ~obs.img.free) =>
                           \E c \in 1 .. fld.nv : pix[2] = CompAt(fld, j, c)
(* arrows / contour nodes sit at the cell centres and carry that cell's numbers *)
C20_ArrowsAtCentres ==
   (IsPlot /\ obs.ok /\ obs.quiv.has) =>
      LET m == fld.mesh  q == obs.quiv
      IN /\ Len(q.X) = m.n[1] /\ Len(q.Y) = m.n[2]
         /\ \A c \in 1 .. m.n[1], r \in 1 .. m.n[2] :
               LET p == <<BackQ(q.X[c]), BackQ(q.Y[r])>>
                   i == <<c - 1, r - 1>>
               IN /\ p[1] = R(CentreAx(m, 1, c - 1)) /\ p[2] = R(CentreAx(m, 2, r - 1))
                  /\ P2I(m, <<p[1][1], p[2][1]>>) = i
                  /\ q.U[r][c][1] = (IF At(m.n, fld.valid, i) THEN 1 ELSE 0) /\ q.V[r][c][1] = q.U[r][c][1]
                  /\ (q.U[r][c][1] = 1 /\ act[1] = "vector" /\ act[3] = DEFPAIR) =>
                        /\ (RIdx(fld, 1) # 0 => q.U[r][c][2] = CompAt(fld, i, RIdx(fld, 1)))
                        /\ (RIdx(fld, 2) # 0 => q.V[r][c][2] = CompAt(fld, i, RIdx(fld, 2)))
                        /\ (RIdx(fld, 1) = 0 => q.U[r][c][2] = 0) /\ (RIdx(fld, 2) = 0 => q.V[r][c][2] = 0)
                  /\ (q.U[r][c][1] = 1 /\ act[1] = "vector" /\ act[3] # DEFPAIR) =>
                        /\ q.U[r][c][2] = (IF act[3][1] = 0 THEN 0 ELSE CompAt(fld, i, act[3][1]))
                        /\ q.V[r][c][2] = (IF act[3][2] = 0 THEN 0 ELSE CompAt(fld, i, act[3][2]))
C20_ContourAtCentres ==
   (IsPlot /\ obs.ok /\ obs.cont.has) =>
      LET m == fld.mesh  k == obs.cont
      IN /\ Len(k.X) = m.n[1] /\ Len(k.Y) = m.n[2]
         /\ \A c \in 1 .. m.n[1], r \in 1 .. m.n[2] :
               /\ BackQ(k.X[c]) = R(CentreAx(m, 1, c - 1)) /\ BackQ(k.Y[r]) = R(CentreAx(m, 2, r - 1))
               /\ k.Z[r][c] = Cell(Hidden(fld, aux, UsesFilter, <<c - 1, r - 1>>), CompAt(fld, <<c - 1, r - 1>>, 1))
(* axis labels: dimension name and prefixed unit; the prefix is that of the multiplier *)
C20_AxisLabels ==
   (IsPlot /\ obs.ok) =>
      /\ obs.xl = fld.dims[1] \o " (" \o Prefix(fld.scale.k + Off) \o fld.units[1] \o ")"
      /\ obs.yl = fld.dims[2] \o " (" \o Prefix(fld.scale.k + Off) \o fld.units[2] \o ")"
      (* the default multiplier brings the longer edge into [1, 1000) *)
      /\ act[2] = DFLT =>
            LET m == fld.mesh
                e == IF Edge(m, 1) * 1 >= Edge(m, 2) THEN Edge(m, 1) ELSE Edge(m, 2)
                r == ScaleR(fld, e, Off)
            IN r[1] >= r[2] /\ r[1] < 1000 * r[2]
(* wrong spatial or component dimension is refused; every refusal has a reason *)
C20_Refusals ==
   IsPlot =>
      /\ (~Is2D(fld)) => (~obs.ok /\ obs.dem)
      /\ (act[1] \in {"scalar", "contour"} /\ fld.nv # 1) => (~obs.ok /\ obs.dem)
      /\ (act[1] = "vector" /\ fld.nv = 1) => (~obs.ok /\ obs.dem)
      /\ (act[1] \in {"lightness", "call"} /\ fld.nv > 3) => (~obs.ok /\ obs.dem)
      /\ (~obs.ok /\ ~obs.dem) => (fld.nv > 1 /\ (~fld.hasmap \/ RIdx(fld, 1) = 0 \/ RIdx(fld, 2) = 0 \/ act[1] = "vector"))
(* plotting never modifies the field, its mesh, its validity (nor the auxiliary field) *)
C20_PlotMutatesNothing == [][fld' = fld /\ aux' = aux]_vars
=============================================================================
