SPECIFICATION Spec
CONSTANTS
  MaxN <- MaxN_quick
  CProf <- CProf_quick
  LoProf <- LoProf_quick
  NVs <- NVs_quick
  Pats <- Pats_quick
  Coefs <- Coefs_quick
  Shifts <- Shifts_quick
  Scales <- Scales_quick
CHECK_DEADLOCK FALSE
INVARIANT TypeOK
INVARIANT C06_VolumeIsSum
INVARIANT C06_DirectionalOnReducedMesh
INVARIANT C06_OneDimScalar
INVARIANT C06_Fubini
INVARIANT C06_CumulativeHalfCell
INVARIANT C06_CumLastPlusHalf
INVARIANT C06_MeanIsIntegralOverExtent
INVARIANT C06_Linear
INVARIANT C06_TranslationInvariant
INVARIANT C06_PerComponent
INVARIANT C06_AfterInplaceScale
