------------------------------ MODULE C19Trace ------------------------------
(* Channel T for C19.                                                                   *)
(* kind "sym": a history of symmetry operations executed by the real library on an      *)
(*   ARBITRARY float texture (skyrmion-like, random, masked).  The abstract state is    *)
(*   the orbit: the observed charges (quantised to 1e-9 * scale) are bound to obs and   *)
(*   the law of C19_Symmetry (charge' = +-charge) is evaluated on consecutive           *)
(*   observations and against the first observation (the oracle).                       *)
(* kind "tex": a larger random octahedral texture; the charges are recomputed by the    *)
(*   operators of C19 from the logged texture and compared with the observed integers.  *)
(* Verdicts are total.                                                                  *)
EXTENDS C19, Json, IOUtils

VARIABLES tid, l
tvars == <<tex, prev, act, obs, steps, tid, l>>

Traces == JsonDeserialize(IOEnv.TRACE_FILE)
T  == Traces[tid]
Ev == Traces[tid].ev[l + 1]
Verd(c, name) == IF c THEN TRUE ELSE PrintT(<<"VERDICT", Traces[tid].id, l + 1, name, FALSE>>)
VerdD(c, name, dg) == IF c THEN TRUE ELSE PrintT(<<"VERDICT", Traces[tid].id, l + 1, name, dg>>)

Tol == 4
Near(a, b) == Abs(a - b) <= Tol
Dummy == [nv |-> 3, n |-> <<1, 1>>, c |-> <<1, 1>>, lo |-> <<0, 0>>, alpha |-> "A", dirs |-> <<<<0, 0, 1>>>>,
          lens |-> <<1>>, valid |-> <<TRUE>>]
ObsRec(b, c) == [ok |-> TRUE, bl |-> b, cont |-> c, blc |-> <<>>, contc |-> <<>>, wrap |-> FALSE, degen |-> FALSE]

TInit == /\ tid \in 1 .. Len(Traces)
         /\ l = 0
         /\ tex = IF Traces[tid].kind = "tex" THEN Traces[tid].tex ELSE Dummy
         /\ prev = tex
         /\ act = <<"new">>
         /\ steps = 0
         /\ obs = IF Traces[tid].kind = "tex" THEN ObsRec(Traces[tid].bl, Traces[tid].cont)
                  ELSE ObsRec(Traces[tid].first.bl, Traces[tid].first.cont)

(* first event of every trace: what the first observation itself must satisfy *)
StepCheckTex ==
   /\ T.kind = "tex" /\ Ev.op = "check"
   /\ LET exp == Charges(tex) IN
      /\ VerdD(T.bl_ok /\ T.bl = exp.bl, "C19_BLCharge", exp.degen)
      /\ Verd(T.cont_ok /\ T.cont = exp.cont, "C19_ContinuousCharge")
      /\ Verd(Uniform(tex) => T.bl = 0 /\ T.cont = 0, "C19_UniformIsZero")
   /\ UNCHANGED <<obs, steps>> /\ act' = <<"check">>
StepCheckSym ==
   /\ T.kind = "sym" /\ Ev.op = "check"
   /\ Verd(~T.first.nan_bl /\ ~T.first.nan_cont, "first-observation-nan")
   /\ Verd(T.cls = "uniform" => Near(T.first.bl, 0) /\ Near(T.first.cont, 0), "C19_UniformIsZero")
   /\ Verd(T.cls = "wrap" => LET m == T.first.bl % T.unit IN m <= Tol \/ T.unit - m <= Tol, "C19_BLIntegerOnWrapping")
   /\ UNCHANGED <<obs, steps>> /\ act' = <<"check">>
(* a symmetry operation: the observed charges obey the law against the previous and the first observation *)
StepSym ==
   /\ T.kind = "sym" /\ Ev.op # "check"
   /\ LET sg  == IF Ev.op = "reverse" THEN -1 ELSE 1
          par == IF (steps + (IF Ev.op = "reverse" THEN 1 ELSE 0)) % 2 = 0 THEN 1 ELSE -1
      IN /\ Verd(~Ev.nan_bl /\ Near(Ev.bl, sg * obs.bl) /\ Near(Ev.bl, par * T.first.bl), "C19_Symmetry-bl")
         /\ Verd(~Ev.nan_cont /\ Near(Ev.cont, sg * obs.cont) /\ Near(Ev.cont, par * T.first.cont), "C19_Symmetry-cont")
   /\ obs' = ObsRec(Ev.bl, Ev.cont)
   /\ steps' = steps + (IF Ev.op = "reverse" THEN 1 ELSE 0)
   /\ act' = <<Ev.op>>

TNext == /\ l < Len(Traces[tid].ev)
         /\ (StepCheckTex \/ StepCheckSym \/ StepSym)
         /\ l' = l + 1
         /\ UNCHANGED <<tex, prev, tid>>
TSpec == TInit /\ [][TNext]_tvars
=============================================================================
