SPECIFICATION TSpec
CONSTANTS
  MeshSet = {}
  NVSet = {}
  LayoutSet = {}
  FieldKinds = {}
  DictPats = {}
  LineKs = {}
CHECK_DEADLOCK FALSE
