SPECIFICATION TSpec
CONSTANTS
  MeshSet = {}
  NVSet = {}
  PatSet = {}
  NormKinds = {}
  MaxHist = 0
  MaxQHist = 0
CHECK_DEADLOCK FALSE
