------------------------------ MODULE C05Trace ------------------------------
(* Channel T for C05.  Events recorded from the real library:                            *)
(*  "comb"  - the directional derivatives OBSERVED from the library's own Field.diff on   *)
(*            every component (a table D[d][k][c] of integer numerators) together with    *)
(*            the output of grad/div/curl/laplace on the same field; the combination is   *)
(*            evaluated here with the operators of C05.tla (pairing through the mapping); *)
(*            refusals are compared with Fits;                                            *)
(*  "ident" - f.grad.curl / v.curl.div on integer data: must vanish;                      *)
(*  "poly"  - an operator on a polynomial field of degree <= 2 given by its integer       *)
(*            coefficients in lattice coordinates: the analytic derivative is computed    *)
(*            here at the cell centres of Lattice.tla;                                    *)
(*  "rot"   - op(rotate90(f)) and rotate90(op(f)) as observed: must be the same field.    *)
(* Verdicts are total: <<"VERDICT", trace id, event, clause>>.                            *)
EXTENDS C05, Json, IOUtils

VARIABLES tid, l
tvars == <<cfg, act, obs, tid, l>>

Traces == JsonDeserialize(IOEnv.TRACE_FILE)
Ev == Traces[tid].ev[l + 1]
Verd(c, name) == IF c THEN TRUE ELSE PrintT(<<"VERDICT", Traces[tid].id, l + 1, name>>)

ExpectNV(op, nd, nv) == CASE op = "grad" -> nd [] op = "div" -> 1 [] op = "curl" -> 3 [] op = "laplace" -> nv

StepComb ==
   LET e == Ev
       fits == Fits(e.op, e.nd, e.nv, e.map)
       T(k) == [c \in 1 .. e.nv |-> [d \in 1 .. e.nd |-> e.D[d][k][c]]]
   IN
   /\ e.k = "comb"
   /\ cfg' = [kind |-> "table", nd |-> e.nd, nv |-> e.nv, map |-> e.map]
   /\ act' = <<"op", e.op>>
   /\ obs' = IF e.ok THEN [ok |-> TRUE, free |-> e.free, v |-> e.out] ELSE Rej
   /\ Verd(e.free \/ (e.ok <=> fits), "C05_Refusals")
   /\ Verd(e.ok /\ fits => \A k \in DOMAIN e.out : Len(e.out[k]) = ExpectNV(e.op, e.nd, e.nv), "C05_ResultComponents")
   /\ Verd(e.ok /\ fits /\ ~e.free =>
              \A k \in DOMAIN e.out : LET t == T(k) IN e.out[k] = OpCell(e.op, t, t, e.map, e.h),
           "C05_TextbookCombination")
StepIdent ==
   /\ Ev.k = "ident"
   /\ cfg' = [kind |-> "mesh", m |-> Ev.m, map |-> Ev.map]
   /\ act' = <<Ev.which, 0>>
   /\ obs' = Ok(Ev.out)
   /\ Verd(ZeroArr(Ev.out), IF Ev.which = "curl_grad" THEN "C05_CurlGradZero" ELSE "C05_DivCurlZero")
(* polynomial p_c(q) = c0 + sum_d lin[d] q_d + sum_{d<=e} quad[d][e] q_d q_e in the lattice *)
(* coordinates q of the cell centres; out = result * quantum (first derivatives) resp.     *)
(* quantum^2 (Laplacian)                                                                   *)
DPoly(p, q, d) == p.lin[d] + SumSeq([e \in DOMAIN q |->
                     IF e = d THEN 2 * p.quad[d][d] * q[d]
                     ELSE (IF e < d THEN p.quad[e][d] ELSE p.quad[d][e]) * q[e]])
D2Poly(p, d)   == 2 * p.quad[d][d]
StepPoly ==
   LET e == Ev
       m == e.m
       nd == Len(m.n)
       want(i) ==
          LET q == Centre(m, i)
              T1 == [c \in 1 .. Len(e.poly) |-> [d \in 1 .. nd |-> DPoly(e.poly[c], q, d)]]
              T2 == [c \in 1 .. Len(e.poly) |-> [d \in 1 .. nd |-> D2Poly(e.poly[c], d)]]
          IN OpCell(e.op, T1, T2, e.map, Ones(nd))
   IN
   /\ e.k = "poly"
   /\ cfg' = [kind |-> "mesh", m |-> m, map |-> e.map]
   /\ act' = <<"poly", e.op>>
   /\ obs' = Ok(e.out)
   /\ Verd(e.out = MkArr(m.n, want), "C05_PolyExactDeg2")
StepRot ==
   /\ Ev.k = "rot"
   /\ cfg' = [kind |-> "rot", m |-> Ev.m, map |-> Ev.map]
   /\ act' = <<"rot", Ev.op>>
   /\ obs' = [ok |-> TRUE, oprot |-> Ev.oprot.arr, rotop |-> Ev.rotop.arr, n2 |-> Ev.oprot.n]
   /\ Verd(Ev.oprot.n = Ev.rotop.n /\ Ev.oprot.lo = Ev.rotop.lo /\ Ev.oprot.hi = Ev.rotop.hi, "C05_CommutesWithRot90-mesh")
   /\ Verd(Ev.oprot.n = Ev.rotop.n => Ev.oprot.arr = Ev.rotop.arr, "C05_CommutesWithRot90")
   /\ Verd(Ev.oprot.n = Ev.rotop.n => Ev.oprot.valid = Ev.rotop.valid, "C05_CommutesWithRot90-validity")

TInit == /\ tid \in 1 .. Len(Traces)
         /\ l = 0
         /\ cfg = [kind |-> "table"]
         /\ act = <<"new">>
         /\ obs = Rej
TNext == /\ l < Len(Traces[tid].ev)
         /\ (StepComb \/ StepIdent \/ StepPoly \/ StepRot)
         /\ l' = l + 1
         /\ UNCHANGED tid
TSpec == TInit /\ [][TNext]_tvars
=============================================================================
