SPECIFICATION Spec
CONSTANTS
  Shapes <- Shapes_thorough
  CProf <- CProf_thorough
  LoProf <- LoProf_thorough
  NVs <- NVs_all
  MaskKinds <- Masks_thorough
  SubKinds <- Subs_thorough
  Reprs <- Reprs_thorough
  BadShapes <- Bad_all
  AltLabels = TRUE
CHECK_DEADLOCK FALSE
INVARIANT TypeOK
INVARIANT C16_VerticesAreCoordinates
INVARIANT C16_ValueAtLocatedCell
INVARIANT C16_ComponentArraysNamed
INVARIANT C16_NotThreeDRefused
INVARIANT C16_RoundTrip
INVARIANT C16_SidecarIffSubregions
INVARIANT C16_LegacyOneValuePerCell
