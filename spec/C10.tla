-------------------------------- MODULE C10 --------------------------------
(* C10 - HDF5 files preserve the complete state of a field.                             *)
(*                                                                                      *)
(* State: one field record `fld` (1-4 spatial dimensions) with EVERY attribute the       *)
(* property lists, at most one file (`file`, the h5py view: groups, attributes,          *)
(* datasets), the last public call (`act`) and what it must return (`obs`).              *)
(* Writing and reading are the identity on the record, attribute by attribute; corners   *)
(* carry a type tag (int / float) for the region and for every subregion independently.  *)
(* Coordinates are lattice integers, IU lattice units make 1 (so a corner can be         *)
(* int-typed iff it is a multiple of IU); values are ids from a pool the harness         *)
(* interprets (float64 extremes, complex pairs, integers); arrays follow spec/Cells.tla. *)
(* Not part of the record because the property does not list them (DESIGN section 9, N3): *)
(* the component -> axis mapping and the integer/float width of real values.             *)
EXTENDS Cells, TLC

CONSTANTS Fields,       \* set of field records (MC_C10.tla)
          IU            \* lattice units per 1 (integer-typed corners are multiples of IU)

VARIABLES fld, file, act, obs
vars == <<fld, file, act, obs>>

None  == "<none>"
Rej   == [st |-> "rej"]
Ok(v) == [st |-> "ok", v |-> v]
MF(f)     == [lo |-> f.lo, c |-> f.c, n |-> f.n]
HiOf(f)   == [d \in 1 .. Len(f.n) |-> Hi(MF(f), d)]
NDim(f)   == Len(f.n)
KindClass(k) == IF k = "complex" THEN "complex" ELSE "real"     \* int and float are both real (N3)
OnInt(v)  == \A d \in DOMAIN v : v[d] % IU = 0
TagOK(tag, lo, hi) == tag \in {"int", "float"} /\ (tag = "int" => OnInt(lo) /\ OnInt(hi))
Absent    == [some |-> FALSE, v |-> <<>>]
Present(l) == [some |-> TRUE, v |-> l]

(* ---- the current file layout ("ubermag-hdf5-file-version" 0.1) ---------------------- *)
(* absent labels and an absent unit are spelled with the string "None" in the file       *)
H5Of(f) ==
   [layout |-> "0.1", type |-> "discretisedfield.Field",
    region |-> [pmin |-> f.lo, pmax |-> HiOf(f), tag |-> f.rtag, dims |-> f.dims, ndim |-> NDim(f),
                units |-> f.units, tol |-> f.tol],
    n |-> f.n, bc |-> f.bc,
    subnames |-> [k \in DOMAIN f.subs |-> f.subs[k].name],
    subrows  |-> [k \in DOMAIN f.subs |-> [row |-> f.subs[k].lo \o f.subs[k].hi, tag |-> f.subs[k].tag]],
    nvdim |-> f.nv, vdims |-> f.labels, unit |-> IF f.unit = None THEN "None" ELSE f.unit,
    array |-> [kind |-> f.kind, shape |-> f.n \o <<f.nv>>, data |-> f.vals],
    valid |-> f.valid]
DecodeH5(fl) ==
   LET nd == fl.region.ndim IN
   [lo |-> fl.region.pmin, hi |-> fl.region.pmax, rtag |-> fl.region.tag, dims |-> fl.region.dims,
    units |-> fl.region.units, tol |-> fl.region.tol, n |-> fl.n, bc |-> fl.bc,
    subs |-> [k \in DOMAIN fl.subnames |->
                [name |-> fl.subnames[k], lo |-> SubSeq(fl.subrows[k].row, 1, nd),
                 hi |-> SubSeq(fl.subrows[k].row, nd + 1, 2 * nd), tag |-> fl.subrows[k].tag]],
    nv |-> fl.nvdim, labels |-> fl.vdims, unit |-> IF fl.unit = "None" THEN None ELSE fl.unit,
    kind |-> KindClass(fl.array.kind), vals |-> fl.array.data, valid |-> fl.valid,
    eq |-> TRUE,         \* the library's own `==` between original and result
    cbits |-> TRUE]      \* region corner arrays bit-identical, same dtype

(* ---- the legacy layout (before the file version attribute): corners, n, dim, array --- *)
(* p1, p2 are the two corner points the user gave, stored as given: ANY pair of opposite corners (sw = the axes along which *)
(* p1 holds the upper and p2 the lower coordinate); the reader has to sort them                                              *)
LegacyOf(f, side, sw) ==
   [layout |-> "legacy", p1 |-> [d \in 1 .. Len(f.n) |-> IF d \in sw THEN HiOf(f)[d] ELSE f.lo[d]],
    p2 |-> [d \in 1 .. Len(f.n) |-> IF d \in sw THEN f.lo[d] ELSE HiOf(f)[d]], sw |-> sw, ptag |-> f.rtag, n |-> f.n, dim |-> f.nv,
    array |-> [kind |-> f.kind, shape |-> f.n \o <<f.nv>>, data |-> f.vals],
    side |-> IF side THEN f.subs ELSE <<>>]
DecodeLegacy(fl) ==
   [lo |-> [d \in DOMAIN fl.p1 |-> IF fl.p1[d] <= fl.p2[d] THEN fl.p1[d] ELSE fl.p2[d]],
    hi |-> [d \in DOMAIN fl.p1 |-> IF fl.p1[d] <= fl.p2[d] THEN fl.p2[d] ELSE fl.p1[d]], n |-> fl.n, nv |-> fl.dim, kind |-> KindClass(fl.array.kind), vals |-> fl.array.data,
    subs |-> [k \in DOMAIN fl.side |-> [name |-> fl.side[k].name, lo |-> fl.side[k].lo, hi |-> fl.side[k].hi]]]
ReadResult(fl) == IF fl.layout = "0.1" THEN Ok(DecodeH5(fl)) ELSE Ok(DecodeLegacy(fl))

(* ---- the property, attribute by attribute (also used by C10Trace) --------------------- *)
L_Corners(f, out)   == out.v.lo = f.lo /\ out.v.hi = HiOf(f) /\ out.v.cbits
L_CornerTag(f, out) == out.v.rtag = f.rtag
L_Dims(f, out)      == out.v.dims = f.dims
L_Units(f, out)     == out.v.units = f.units
L_Tol(f, out)       == out.v.tol = f.tol
L_N(f, out)         == out.v.n = f.n
L_BC(f, out)        == out.v.bc = f.bc
L_SubNames(f, out)  == Len(out.v.subs) = Len(f.subs) /\ \A k \in DOMAIN f.subs : out.v.subs[k].name = f.subs[k].name
L_SubCorners(f, out) == Len(out.v.subs) = Len(f.subs) /\
                        \A k \in DOMAIN f.subs : out.v.subs[k].lo = f.subs[k].lo /\ out.v.subs[k].hi = f.subs[k].hi
L_SubTags(f, out)   == Len(out.v.subs) = Len(f.subs) /\ \A k \in DOMAIN f.subs : out.v.subs[k].tag = f.subs[k].tag
L_NV(f, out)        == out.v.nv = f.nv
L_Labels(f, out)    == out.v.labels = f.labels
L_Unit(f, out)      == out.v.unit = f.unit
L_Kind(f, out)      == out.v.kind = KindClass(f.kind)          \* real stays real, complex stays complex
L_Vals(f, out)      == out.v.vals = f.vals                      \* bit-identical: the same ids
L_Valid(f, out)     == out.v.valid = f.valid
L_Equal(f, out)     == out.v.eq
Lossless(f, out) ==
   /\ out.st = "ok"
   /\ L_Corners(f, out) /\ L_CornerTag(f, out) /\ L_Dims(f, out) /\ L_Units(f, out) /\ L_Tol(f, out) /\ L_N(f, out)
   /\ L_BC(f, out) /\ L_SubNames(f, out) /\ L_SubCorners(f, out) /\ L_SubTags(f, out) /\ L_NV(f, out)
   /\ L_Labels(f, out) /\ L_Unit(f, out) /\ L_Kind(f, out) /\ L_Vals(f, out) /\ L_Valid(f, out) /\ L_Equal(f, out)

(* the h5py view of the written file holds every attribute *)
FH_Region(f, fl) == /\ fl.region.pmin = f.lo /\ fl.region.pmax = HiOf(f) /\ fl.region.tag = f.rtag
                    /\ fl.region.dims = f.dims /\ fl.region.units = f.units /\ fl.region.tol = f.tol
                    /\ fl.region.ndim = NDim(f)
FH_Mesh(f, fl)   == fl.n = f.n /\ fl.bc = f.bc
FH_Subs(f, fl)   == /\ Len(fl.subnames) = Len(f.subs) /\ Len(fl.subrows) = Len(f.subs)
                    /\ \A k \in DOMAIN f.subs : /\ fl.subnames[k] = f.subs[k].name
                                                 /\ fl.subrows[k].row = f.subs[k].lo \o f.subs[k].hi
FH_Field(f, fl)  == /\ fl.nvdim = f.nv /\ fl.vdims = f.labels
                    /\ fl.unit = IF f.unit = None THEN "None" ELSE f.unit
FH_Data(f, fl)   == /\ KindClass(fl.array.kind) = KindClass(f.kind) /\ fl.array.shape = f.n \o <<f.nv>>
                    /\ fl.array.data = f.vals /\ fl.valid = f.valid
FileHoldsState(f, fl) == /\ fl.layout = "0.1" /\ fl.type = "discretisedfield.Field"
                         /\ FH_Region(f, fl) /\ FH_Mesh(f, fl) /\ FH_Subs(f, fl) /\ FH_Field(f, fl) /\ FH_Data(f, fl)

(* a legacy file is read to its content; subregions come from the side-car if there is one *)
LG_Geo(f, out)  == out.v.lo = f.lo /\ out.v.hi = HiOf(f) /\ out.v.n = f.n
LG_NV(f, out)   == out.v.nv = f.nv
LG_Vals(f, out) == out.v.kind = KindClass(f.kind) /\ out.v.vals = f.vals
LG_Subs(f, side, out) == side => /\ Len(out.v.subs) = Len(f.subs)
                                 /\ \A k \in DOMAIN f.subs : /\ out.v.subs[k].name = f.subs[k].name
                                                              /\ out.v.subs[k].lo = f.subs[k].lo
                                                              /\ out.v.subs[k].hi = f.subs[k].hi
LegacyOK(f, side, out) == out.st = "ok" /\ LG_Geo(f, out) /\ LG_NV(f, out) /\ LG_Vals(f, out) /\ LG_Subs(f, side, out)

(* ---- actions ----------------------------------------------------------------------- *)
NoFile == [layout |-> "none"]
Init == fld \in Fields /\ file = NoFile /\ act = <<"new">> /\ obs = [st |-> "new"]

(* Field.to_file("*.h5" | "*.hdf5") *)
WriteH5 == /\ act[1] = "new"
           /\ file' = H5Of(fld)
           /\ act' = <<"write">>
           /\ obs' = [st |-> "written"]
           /\ UNCHANGED fld
(* the same call on a path that already holds another field's file *)
OverwriteH5 == /\ act[1] = "new"
               /\ file' = H5Of(fld)
               /\ act' = <<"overwrite">>
               /\ obs' = [st |-> "written"]
               /\ UNCHANGED fld
(* an independent h5py writer of the old layout, with or without the side-car *)
LegacyWrite == \E side \in BOOLEAN, sw \in {{}, {1}, 1 .. Len(fld.n)} :
               /\ act[1] = "new"
               /\ side => fld.subs # <<>>
               /\ file' = LegacyOf(fld, side, sw)
               /\ act' = <<"legacy", side>>
               /\ obs' = [st |-> "written"]
               /\ UNCHANGED fld
(* Field.from_file *)
ReadH5 == /\ act[1] \in {"write", "overwrite", "legacy"}
          /\ act' = <<"read", act[1]>>
          /\ obs' = ReadResult(file)
          /\ UNCHANGED <<fld, file>>
Next == WriteH5 \/ OverwriteH5 \/ LegacyWrite \/ ReadH5
Spec == Init /\ [][Next]_vars

(* ---- invariants -------------------------------------------------------------------- *)
FieldOK(f) ==
   /\ MeshOK(MF(f)) /\ NDim(f) \in 1 .. 4 /\ Len(f.dims) = NDim(f) /\ Len(f.units) = NDim(f)
   /\ Cardinality({f.dims[d] : d \in DOMAIN f.dims}) = NDim(f)
   /\ TagOK(f.rtag, f.lo, HiOf(f))
   /\ \A k \in DOMAIN f.subs : /\ TagOK(f.subs[k].tag, f.subs[k].lo, f.subs[k].hi)
                                /\ BoxOK(f.subs[k]) /\ BoxInMesh(f.subs[k], MF(f)) /\ BoxAligned(f.subs[k], MF(f))
   /\ Cardinality({f.subs[k].name : k \in DOMAIN f.subs}) = Len(f.subs)
   /\ f.nv >= 1 /\ Len(f.vals) = NCells(MF(f)) /\ Len(f.valid) = NCells(MF(f))
   /\ \A k \in DOMAIN f.vals : Len(f.vals[k]) = f.nv
   /\ f.labels.some => Len(f.labels.v) = f.nv
   /\ f.kind \in {"float", "complex", "int"}
TypeOK == FieldOK(fld) /\ file.layout \in {"none", "0.1", "legacy"}

C10_FileHoldsState == act[1] \in {"write", "overwrite"} => FileHoldsState(fld, file)
C10_Lossless       == (act[1] = "read" /\ file.layout = "0.1") => Lossless(fld, obs)
C10_RealStaysReal  == (act[1] = "read" /\ file.layout = "0.1") => L_Kind(fld, obs)
C10_LegacyReadable == (act[1] = "read" /\ file.layout = "legacy") => LegacyOK(fld, file.side # <<>>, obs)
=============================================================================
