SPECIFICATION Spec
CONSTANTS
  Scenarios <- Scen_all
  Acts <- ActsAll
  MaxDepth = 0
  MaxFields = 3
  AllowAlias = "guard"
  TransVs <- TransVs_def
  ScaleFs <- ScaleFs_all
  RotKs <- RotKs_all
  RotRefs <- RotRefs_all
  RotPairs <- RotPairs_all
  Rich = TRUE
  LastFresh = FALSE
  PadSpecs <- Pad_all
  Masks <- Masks_all
  Nums <- Nums_all
CHECK_DEADLOCK FALSE
INVARIANT DF_RegionNormal
INVARIANT DF_MeshNormal
INVARIANT DF_FieldShapes
INVARIANT DF_SubregionsWellFormed
INVARIANT DF_OwnValidity
INVARIANT DF_OwnArray
INVARIANT DF_Labels
INVARIANT DF_RootsLive
PROPERTY DF_RejectUnchanged
PROPERTY DF_OperandsUnchanged
PROPERTY DF_ValidityRule
PROPERTY DF_SetValid
PROPERTY DF_Update
PROPERTY DF_Cellwise
PROPERTY DF_PositionsKept
PROPERTY DF_CellAligned
PROPERTY DF_SelSubregions
PROPERTY DF_Persist
PROPERTY DF_InplaceEqualsCopy
PROPERTY DF_InplaceReturnsSelf
PROPERTY DF_AffineExact
PROPERTY DF_Integrate
PROPERTY DF_SetSub
PROPERTY DF_QueryPure
PROPERTY DF_Relabel
