SPECIFICATION TSpec
CONSTANTS
  MaxL = 1
  Variants = {}
CHECK_DEADLOCK FALSE
