------------------------------- MODULE PadOpt -------------------------------
(* PadOpt - Field.pad with the NumPy modes and options (stage shared by C07 and C08).   *)
(*                                                                                     *)
(*   C07: "padding cells outside the source follow the padding mode" (value AND         *)
(*        validity; padding adds the requested number of cells per side)               *)
(*   C08: "padding ... transforms validity exactly as it transforms the data"           *)
(*                                                                                     *)
(* Field.pad(pad_width, mode, **opt) hands mode and options to numpy.pad for the data   *)
(* and for the validity mask.  State: one configuration cfg = [n, vals, valid] (cell    *)
(* counts, a flat array of small integers, a flat Boolean array; Cells.tla convention), *)
(* the last public call act = <<"pad", d, opt>> (one axis d, one mode/option record)    *)
(* and obs, which maps every width pair <<l, r>> of WPairs to the result the call must  *)
(* give: new cell counts, shift of the region corners (in cells), values and validity.  *)
(*                                                                                     *)
(* Numbers.  mean, median and linear_ramp produce rationals; every array is therefore   *)
(* a flat sequence of integer NUMERATORS over one denominator per array (`den`, `sc`).  *)
(* A field of integer dtype is padded in integers: NumPy rounds the statistic to the    *)
(* nearest integer, ties to even (np.rint) - the `vi` variant of a result.              *)
(*                                                                                     *)
(* Part 1 writes the padding CONSTRUCTIVELY the way numpy.pad computes it (per grid     *)
(* line along the axis: left block, the line, right block; wrap / reflect / symmetric   *)
(* grow the line chunk by chunk as NumPy's _set_wrap_both / _set_reflect_both do).      *)
(* Part 3 states the property DECLARATIVELY per cell (window sets, index formulas,      *)
(* counting) and the invariants PadOpt_* check the one against the other.               *)
(*                                                                                     *)
(* In: constant (constant_values scalar / pair), maximum, minimum, mean, median           *)
(* (stat_length), edge, wrap, reflect, symmetric (reflect_type "even"), linear_ramp      *)
(* (end_values >= 0).  Out (see notes/PadOpt.md): reflect_type="odd", linear_ramp on     *)
(* integer-dtype fields (np.linspace floors a float product, not exactly statable),      *)
(* negative end_values (the Boolean ramp would hinge on a float being exactly zero),     *)
(* stat_length per side, mode="empty", callables.                                        *)
EXTENDS Cells, TLC

CONSTANTS Shapes,    \* set of cell-count sequences (1-3 dimensions)
          CfgPats,   \* set of <<value pattern id, validity pattern id>>
          WPairs,    \* set of width pairs <<l, r>>
          Opts       \* set of mode/option records [mode, oc, a, b]

VARIABLES cfg, act, obs
vars == <<cfg, act, obs>>

(* ---- small helpers ----------------------------------------------------------------- *)
Rev(s)         == [j \in 1 .. Len(s) |-> s[Len(s) + 1 - j]]
Rep(x, k)      == [j \in 1 .. k |-> x]
ScaleSeq(c, s) == [j \in DOMAIN s |-> c * s[j]]
RECURSIVE SumRange(_, _, _)
SumRange(s, lo, hi) == IF lo > hi THEN 0 ELSE IF lo = hi THEN s[lo]
                       ELSE SumRange(s, lo, (lo + hi) \div 2) + SumRange(s, (lo + hi) \div 2 + 1, hi)
Sum(s)         == SumRange(s, 1, Len(s))
(* all cell indices of an array over n (linear in the number of cells) *)
CellsOf(n)     == {Unflat(n, k - 1) : k \in 1 .. ProdSeq(n)}
LineStarts(n, d) == {i \in CellsOf(n) : i[d] = 0}
Comp(a, c)     == [k \in DOMAIN a |-> a[k][c]]
Num(w)         == [k \in DOMAIN w |-> IF w[k] THEN 1 ELSE 0]
NonZero(a)     == [k \in DOMAIN a |-> a[k] # 0]

(* ---- modes and options -------------------------------------------------------------- *)
(* [mode, oc, a, b]: oc = option class ("default" = no option given, "scalar", "pair",   *)
(* "stat", "even"); constant: a / b = constant_values before / after; linear_ramp: a / b *)
(* = end_values before / after; statistics: a = stat_length (0 = the whole axis)         *)
Opt(mode, oc, a, b) == [mode |-> mode, oc |-> oc, a |-> a, b |-> b]
StatModes  == {"maximum", "minimum", "mean", "median"}
IndexModes == {"edge", "wrap", "reflect", "symmetric"}
AllModes   == {"constant", "linear_ramp"} \cup StatModes \cup IndexModes
OptOK(o)   == /\ o.mode \in AllModes
              /\ (o.mode \in StatModes => o.a >= 0 /\ o.b = 0 /\ (o.oc = "default" <=> o.a = 0))
              /\ (o.mode \in IndexModes => o.a = 0 /\ o.b = 0)
              /\ (o.mode = "linear_ramp" => o.a >= 0 /\ o.b >= 0)      \* see header: mask exactness
              /\ (o.oc = "default" => o.a = 0 /\ o.b = 0)
              /\ (o.oc = "scalar" => o.a = o.b)
(* NumPy clips stat_length to the axis length *)
StatLen(o, N) == IF o.a = 0 THEN N ELSE Min2(o.a, N)
(* denominator the numerators of a padded line of length N carry (relative to the input) *)
Den(o, N, l, r) == CASE o.mode = "mean"        -> StatLen(o, N)
                     [] o.mode = "median"      -> 2
                     [] o.mode = "linear_ramp" -> Max2(l, 1) * Max2(r, 1)
                     [] OTHER                  -> 1

(* ==== part 1: the padding the way numpy.pad computes it ================================ *)
(* ascending sort (np.median partitions the window) *)
RECURSIVE Insert(_, _)
Insert(x, t) == IF Len(t) = 0 THEN <<x>>
                ELSE IF x <= Head(t) THEN <<x>> \o t ELSE <<Head(t)>> \o Insert(x, Tail(t))
RECURSIVE Sort(_)
Sort(s) == IF Len(s) = 0 THEN <<>> ELSE Insert(Head(s), Sort(Tail(s)))
RECURSIVE FoldMax(_)
FoldMax(s) == IF Len(s) = 1 THEN s[1] ELSE Max2(Head(s), FoldMax(Tail(s)))
RECURSIVE FoldMin(_)
FoldMin(s) == IF Len(s) = 1 THEN s[1] ELSE Min2(Head(s), FoldMin(Tail(s)))
(* Den x the statistic of a window *)
StatNum(o, win) ==
   LET L == Len(win)
       t == Sort(win)
   IN CASE o.mode = "maximum" -> FoldMax(win)
        [] o.mode = "minimum" -> FoldMin(win)
        [] o.mode = "mean"    -> Sum(win)                    \* over L
        [] o.mode = "median"  -> IF L % 2 = 1 THEN 2 * t[(L + 1) \div 2] ELSE t[L \div 2] + t[L \div 2 + 1]   \* over 2

(* _set_wrap_both: while widths remain, copy a chunk of at most P cells (P = the largest *)
(* multiple of the original period N in the current line) from the opposite side         *)
RECURSIVE GrowWrap(_, _, _, _)
GrowWrap(cur, l, r, N) ==
   IF l = 0 /\ r = 0 THEN cur
   ELSE LET len == Len(cur)
            P   == (len \div N) * N
            cl  == Min2(P, l)
            cr  == Min2(P, r)
        IN GrowWrap(SubSeq(cur, P - cl + 1, P) \o cur \o SubSeq(cur, len - P + 1, len - P + cr), l - cl, r - cr, N)
(* _set_reflect_both (reflect_type "even"): a reversed chunk next to the edge, with      *)
(* (symmetric) or without (reflect) the edge cell                                         *)
RECURSIVE GrowMirror(_, _, _, _, _)
GrowMirror(cur, l, r, N, sym) ==
   IF l = 0 /\ r = 0 THEN cur
   ELSE LET len == Len(cur)
            old == IF sym THEN (len \div N) * N ELSE ((len - 1) \div (N - 1)) * (N - 1)
            off == IF sym THEN 0 ELSE 1
            cl  == Min2(old, l)
            cr  == Min2(old, r)
        IN GrowMirror(Rev(SubSeq(cur, 1 + off, cl + off)) \o cur \o Rev(SubSeq(cur, len - off - cr + 1, len - off)),
                      l - cl, r - cr, N, sym)

(* one grid line s (numerators over sc): left block, Den x the line, right block         *)
LeftBlock(s, l, r, o, sc) ==
   LET N == Len(s)
       den == Den(o, N, l, r)
   IN CASE o.mode = "constant"    -> Rep(sc * o.a, l)
        [] o.mode \in StatModes   -> Rep(StatNum(o, SubSeq(s, 1, StatLen(o, N))), l)
        [] o.mode = "linear_ramp" -> \* np.linspace(end value, edge, num=l, endpoint=False)
                                     [t \in 1 .. l |-> (den \div Max2(l, 1)) * (l * sc * o.a + (s[1] - sc * o.a) * (t - 1))]
        [] OTHER                  -> Rep(s[1], l)           \* edge (and reflect / symmetric of a single cell)
RightBlock(s, l, r, o, sc) ==
   LET N == Len(s)
       den == Den(o, N, l, r)
   IN CASE o.mode = "constant"    -> Rep(sc * o.b, r)
        [] o.mode \in StatModes   -> Rep(StatNum(o, SubSeq(s, N - StatLen(o, N) + 1, N)), r)
        [] o.mode = "linear_ramp" -> \* the same ramp, reversed
                                     [j \in 1 .. r |-> (den \div Max2(r, 1)) * (r * sc * o.b + (s[N] - sc * o.b) * (r - j))]
        [] OTHER                  -> Rep(s[N], r)
PadLine(s, l, r, o, sc) ==
   LET N == Len(s)
   IN CASE o.mode = "wrap" -> GrowWrap(s, l, r, N)
        [] o.mode \in {"reflect", "symmetric"} /\ N > 1 -> GrowMirror(s, l, r, N, o.mode = "symmetric")
        [] OTHER -> LeftBlock(s, l, r, o, sc) \o ScaleSeq(Den(o, N, l, r), s) \o RightBlock(s, l, r, o, sc)

(* np.pad(a, {d: (l, r)}, mode, **opt) on a flat array a over n; result over PadN.       *)
(* Written with strides, as NumPy walks the memory (first dimension fastest): S = cells   *)
(* per step along axis d, H = number of slabs above it; the grid line q = low + S * high  *)
(* holds the source positions low + S * (t + N * high), t = 0 .. N - 1                    *)
PadN(n, d, l, r) == [n EXCEPT ![d] = n[d] + l + r]
PadArr(n, a, d, l, r, o, sc) ==
   LET S  == ProdSeq(SubSeq(n, 1, d - 1))
       H  == ProdSeq(SubSeq(n, d + 1, Len(n)))
       N  == n[d]
       N2 == N + l + r
       PL == [q \in 0 .. (S * H - 1) |->
                 PadLine([t \in 1 .. N |-> a[(q % S) + S * ((t - 1) + N * (q \div S)) + 1]], l, r, o, sc)]
   IN [p \in 1 .. (S * N2 * H) |-> PL[((p - 1) % S) + S * ((p - 1) \div (S * N2))][(((p - 1) \div S) % N2) + 1]]
(* the mask is padded by the same call: Booleans are numbers 0 / 1, the result is cast   *)
(* back to Boolean (non-zero)                                                            *)
PadMask(n, w, d, l, r, o) == NonZero(PadArr(n, Num(w), d, l, r, o, 1))
(* np.rint: nearest integer, ties to even *)
RHE(x, den) == LET q == x \div den
                   rem == x - q * den
               IN IF 2 * rem < den THEN q ELSE IF 2 * rem > den THEN q + 1 ELSE IF q % 2 = 0 THEN q ELSE q + 1
(* integer dtype: the statistic is rounded (not stated for linear_ramp, see header)      *)
PadInt(n, a, d, l, r, o) == LET p == PadArr(n, a, d, l, r, o, 1)
                            IN [k \in DOMAIN p |-> RHE(p[k], Den(o, n[d], l, r))]

(* a field: cell counts, one sequence of component numerators per cell over den, mask,   *)
(* shift of the lower / upper region corner in cells                                     *)
Fld0(n, v, w) == [n |-> n, v |-> v, w |-> w, den |-> 1, lo |-> [d \in DOMAIN n |-> 0], hi |-> [d \in DOMAIN n |-> 0]]
PadField(F, d, l, r, o, int) ==
   LET nv == Len(F.v[1])
       n2 == PadN(F.n, d, l, r)
       cs == [c \in 1 .. nv |-> IF int THEN PadInt(F.n, Comp(F.v, c), d, l, r, o)
                                ELSE PadArr(F.n, Comp(F.v, c), d, l, r, o, F.den)]
   IN [n   |-> n2,
       v   |-> [k \in 1 .. ProdSeq(n2) |-> [c \in 1 .. nv |-> cs[c][k]]],
       w   |-> PadMask(F.n, F.w, d, l, r, o),
       den |-> IF int THEN 1 ELSE F.den * Den(o, F.n[d], l, r),
       lo  |-> [F.lo EXCEPT ![d] = @ - l],
       hi  |-> [F.hi EXCEPT ![d] = @ + r]]
(* several axes in one call: NumPy pads axis by axis in increasing axis order; steps =   *)
(* sequence of <<d, l, r>> with increasing d                                             *)
RECURSIVE PadChain(_, _, _, _)
PadChain(F, steps, o, int) ==
   IF Len(steps) = 0 THEN F
   ELSE PadChain(PadField(F, steps[1][1], steps[1][2], steps[1][3], o, int), Tail(steps), o, int)

(* ==== part 2: configurations and the public call ====================================== *)
(* value patterns: 1 = pairwise distinct, not monotone; 2 = few values, repeated *)
ValAt(p, k)  == IF p = 1 THEN ((7 * k) % 29) - 12 ELSE ((k * k + 1) % 4) - 1
ValArr(n, p) == [k \in 1 .. ProdSeq(n) |-> ValAt(p, k)]
(* validity patterns: 1 all valid, 2 none, 3 / 4 one invalid cell at the first / last     *)
(* cell, 5 one invalid cell inside, 6 one valid cell inside (all others invalid)         *)
Mid(n)        == (ProdSeq(n) \div 2) + 1
MaskAt(n, q, k) == CASE q = 1 -> TRUE
                     [] q = 2 -> FALSE
                     [] q = 3 -> k # 1
                     [] q = 4 -> k # ProdSeq(n)
                     [] q = 5 -> k # Mid(n)
                     [] q = 6 -> k = Mid(n)
MaskArr(n, q) == [k \in 1 .. ProdSeq(n) |-> MaskAt(n, q, k)]
Configs == {[n |-> n, vals |-> ValArr(n, p[1]), valid |-> MaskArr(n, p[2])] : n \in Shapes, p \in CfgPats}
(* the three-component field the harness also builds from vals *)
V3(vals) == [k \in DOMAIN vals |-> <<vals[k], 2 * vals[k] + 1, 0 - vals[k]>>]
F0 == Fld0(cfg.n, V3(cfg.vals), cfg.valid)

(* the result of one call as the harness sees it: v for float fields (numerators over    *)
(* den), vi for fields of integer dtype                                                  *)
ResOf(F, d, l, r, o) ==
   LET Rs == PadField(F, d, l, r, o, FALSE)
   IN [n |-> Rs.n, lo |-> Rs.lo, hi |-> Rs.hi, den |-> Rs.den, v |-> Rs.v, w |-> Rs.w,
       vi |-> IF o.mode = "linear_ramp" THEN <<>>
              ELSE IF o.mode \in {"mean", "median"} THEN PadField(F, d, l, r, o, TRUE).v
              ELSE Rs.v]                      \* no rounding where no division happens

Fresh == act[1] = "new"
Init == /\ cfg \in Configs
        /\ act = <<"new">>
        /\ obs = [v3 |-> V3(cfg.vals)]

(* field.pad({axis d: (l, r)}, mode=o.mode, **options(o)) for every width pair *)
PadCall(o, d) == /\ Fresh
                 /\ act' = <<"pad", d, o>>
                 /\ obs' = [w \in WPairs |-> ResOf(F0, d, w[1], w[2], o)]
                 /\ UNCHANGED cfg
QPadConstant == \E o \in {x \in Opts : x.mode = "constant"}, d \in DOMAIN cfg.n : PadCall(o, d)
QPadStat     == \E o \in {x \in Opts : x.mode \in {"maximum", "minimum"}}, d \in DOMAIN cfg.n : PadCall(o, d)
QPadMean     == \E o \in {x \in Opts : x.mode \in {"mean", "median"}}, d \in DOMAIN cfg.n : PadCall(o, d)
QPadIndex    == \E o \in {x \in Opts : x.mode \in IndexModes}, d \in DOMAIN cfg.n : PadCall(o, d)
QPadRamp     == \E o \in {x \in Opts : x.mode = "linear_ramp"}, d \in DOMAIN cfg.n : PadCall(o, d)
Next == QPadConstant \/ QPadStat \/ QPadMean \/ QPadIndex \/ QPadRamp
Spec == Init /\ [][Next]_vars

(* ==== part 3: the property, clause by clause, per cell ================================== *)
(* All predicates speak about a source array (n, a) [numerators over sc], a result array *)
(* (n2, a2) [numerators over sc * den], the axis d and the widths l, r.  Result cell j    *)
(* has the coordinate k = j[d] - l relative to the source; it is a padding cell iff      *)
(* k < 0 or k >= n[d].  Its own grid line in the source is Line(n, a, j, d).             *)
(* index (0-based) of the source cell whose image a padding cell at k is *)
NearestEdge(k, N)  == IF k < 0 THEN 0 ELSE N - 1
PeriodicImage(k, N) == k % N
MirrorWithEdge(k, N) == LET t == k % (2 * N) IN IF t < N THEN t ELSE 2 * N - 1 - t
MirrorAboutEdge(k, N) == IF N = 1 THEN 0 ELSE LET t == k % (2 * N - 2) IN IF t < N THEN t ELSE 2 * N - 2 - t
SrcIdx(mode, k, N) == CASE mode = "edge"      -> NearestEdge(k, N)
                        [] mode = "wrap"      -> PeriodicImage(k, N)
                        [] mode = "symmetric" -> MirrorWithEdge(k, N)
                        [] mode = "reflect"   -> MirrorAboutEdge(k, N)
(* positions (1-based, within the line) of the statistics window of a padding cell at k *)
Window(o, k, N) == IF k < 0 THEN 1 .. StatLen(o, N) ELSE (N - StatLen(o, N) + 1) .. N
CountIn(s, W, P(_)) == Cardinality({t \in W : P(s[t])})
(* x (a numerator over den) is the median of the window: the middle element(s) by counting *)
IsMedian(s, W, x, den) ==
   LET L == Cardinality(W)
       Below(y) == CountIn(s, W, LAMBDA z : z < y)
       Above(y) == CountIn(s, W, LAMBDA z : z > y)
   IN IF L % 2 = 1
      THEN \E t \in W : Below(s[t]) <= (L - 1) \div 2 /\ Above(s[t]) <= (L - 1) \div 2 /\ x = den * s[t]
      ELSE \E t, u \in W : /\ Below(s[t]) <= L \div 2 - 1 /\ Above(s[t]) <= L \div 2
                           /\ Below(s[u]) <= L \div 2 /\ Above(s[u]) <= L \div 2 - 1
                           /\ 2 * x = den * (s[t] + s[u])

(* -- "padding adds the requested number of cells per side": new counts, old cells keep   *)
(*    their value at the shifted index                                                   *)
AddsCellsOK(n, a, n2, a2, d, l, r, den) ==
   /\ n2 = [n EXCEPT ![d] = n[d] + l + r]
   /\ Len(a2) = ProdSeq(n2)
   /\ \A i \in CellsOf(n) : At(n2, a2, [i EXCEPT ![d] = i[d] + l]) = den * At(n, a, i)
MaskKeptOK(n, w, n2, w2, d, l, r) ==
   /\ n2 = [n EXCEPT ![d] = n[d] + l + r]
   /\ Len(w2) = ProdSeq(n2)
   /\ \A i \in CellsOf(n) : At(n2, w2, [i EXCEPT ![d] = i[d] + l]) = At(n, w, i)

(* -- "padding cells outside the source follow the padding mode", values                  *)
PadCellOK(s, rl, p, k, l, r, o, sc, den) ==       \* s: source line, rl: result line, p: position of the cell in rl
   LET N == Len(s)
       x == rl[p]
       W == Window(o, k, N)
   IN CASE o.mode = "constant"    -> x = sc * (IF k < 0 THEN o.a ELSE o.b)
        [] o.mode = "maximum"     -> (\E t \in W : x = s[t]) /\ \A t \in W : s[t] <= x
        [] o.mode = "minimum"     -> (\E t \in W : x = s[t]) /\ \A t \in W : s[t] >= x
        [] o.mode = "mean"        -> x * Cardinality(W) = den * Sum([t \in 1 .. Cardinality(W) |-> s[t + (IF k < 0 THEN 0 ELSE N - Cardinality(W))]])
        [] o.mode = "median"      -> IsMedian(s, W, x, den)
        [] o.mode \in IndexModes  -> x = s[SrcIdx(o.mode, k, N) + 1]
        [] o.mode = "linear_ramp" -> \* an arithmetic progression from the end value at the outermost cell to the edge cell
                                     IF k < 0 THEN /\ rl[1] = den * sc * o.a
                                                   /\ l * (rl[p + 1] - x) = den * (s[1] - sc * o.a)
                                     ELSE /\ rl[Len(rl)] = den * sc * o.b
                                          /\ r * (rl[p - 1] - x) = den * (s[N] - sc * o.b)
(* every padding cell, line by line: positions 1 .. l and l + N + 1 .. l + N + r of the result line *)
PadPositions(N, l, r) == (1 .. l) \cup ((l + N + 1) .. (l + N + r))
FollowsModeOK(n, a, n2, a2, d, l, r, o, sc, den) ==
   \A i \in LineStarts(n, d) :
      LET s  == Line(n, a, i, d)
          rl == Line(n2, a2, i, d)
      IN \A p \in PadPositions(n[d], l, r) : PadCellOK(s, rl, p, p - 1 - l, l, r, o, sc, den)

(* -- "transforms validity exactly as it transforms the data": the same rule applied to   *)
(*    the mask read as numbers 0 / 1                                                     *)
MaskCellOK(m, y, k, l, r, o) ==                   \* m: source mask line, y: validity of the padding cell at k
   LET N == Len(m)
       W == Window(o, k, N)
       e == IF k < 0 THEN o.a ELSE o.b
   IN CASE o.mode = "constant"    -> y = (e # 0)
        [] o.mode = "maximum"     -> y = (\E t \in W : m[t])
        [] o.mode = "minimum"     -> y = (\A t \in W : m[t])
        [] o.mode = "mean"        -> y = (\E t \in W : m[t])                                  \* a non-zero mean
        [] o.mode = "median"      -> y = (2 * Cardinality({t \in W : m[t]}) >= Cardinality(W)) \* a non-zero median
        [] o.mode \in IndexModes  -> y = m[SrcIdx(o.mode, k, N) + 1]
        [] o.mode = "linear_ramp" -> \* the ramp from e (outermost cell) to the edge cell's 0 / 1 is non-zero at this cell
                                     LET b  == IF (IF k < 0 THEN m[1] ELSE m[N]) THEN 1 ELSE 0
                                         wd == IF k < 0 THEN l ELSE r
                                         t  == IF k < 0 THEN l + k ELSE (N - 1 + r) - k        \* steps from the outermost cell
                                     IN y = (e * wd + (b - e) * t # 0)
ValidityLikeDataOK(n, w, n2, w2, d, l, r, o) ==
   \A i \in LineStarts(n, d) :
      LET m  == Line(n, w, i, d)
          rl == Line(n2, w2, i, d)
      IN \A p \in PadPositions(n[d], l, r) : MaskCellOK(m, rl[p], p - 1 - l, l, r, o)

(* -- a line's padding depends only on that line: it is what the rule makes of the line   *)
(*    alone (PadLine sees nothing but the line, the widths and the options)              *)
LinesIndependentOK(n, a, n2, a2, d, l, r, o, sc) ==
   \A i \in LineStarts(n, d) : Line(n2, a2, i, d) = PadLine(Line(n, a, i, d), l, r, o, sc)
MaskLinesIndependentOK(n, w, n2, w2, d, l, r, o) ==
   \A i \in LineStarts(n, d) : Line(n2, w2, i, d) = NonZero(PadLine(Num(Line(n, w, i, d)), l, r, o, 1))

(* -- integer dtype: every entry is the integer nearest to the exact value, ties to even  *)
NearestIntOK(a2, den, ai) ==
   /\ Len(ai) = Len(a2)
   /\ \A k \in DOMAIN a2 : /\ 2 * Abs(den * ai[k] - a2[k]) <= den
                           /\ (2 * Abs(den * ai[k] - a2[k]) = den => ai[k] % 2 = 0)

(* ---- the invariants ------------------------------------------------------------------- *)
IsPad == act[1] = "pad"
AD == act[2]
AO == act[3]
Comps == 1 .. 3
TypeOK == /\ Len(cfg.vals) = ProdSeq(cfg.n) /\ Len(cfg.valid) = ProdSeq(cfg.n)
          /\ \A o \in Opts : OptOK(o)
          /\ \A w \in WPairs : w[1] >= 0 /\ w[2] >= 0
          /\ (IsPad => DOMAIN obs = WPairs /\ \A w \in WPairs : obs[w].den = Den(AO, cfg.n[AD], w[1], w[2]))
PadOpt_AddsCells == IsPad => \A w \in WPairs :
   LET Rs == obs[w] IN
   /\ Rs.lo = [e \in DOMAIN cfg.n |-> IF e = AD THEN 0 - w[1] ELSE 0]
   /\ Rs.hi = [e \in DOMAIN cfg.n |-> IF e = AD THEN w[2] ELSE 0]
   /\ \A c \in Comps : AddsCellsOK(cfg.n, Comp(F0.v, c), Rs.n, Comp(Rs.v, c), AD, w[1], w[2], Rs.den)
   /\ MaskKeptOK(cfg.n, cfg.valid, Rs.n, Rs.w, AD, w[1], w[2])
   /\ (AO.mode # "linear_ramp" => \A c \in Comps : AddsCellsOK(cfg.n, Comp(F0.v, c), Rs.n, Comp(Rs.vi, c), AD, w[1], w[2], 1))
PadOpt_PaddingFollowsMode == IsPad => \A w \in WPairs :
   LET Rs == obs[w] IN
   /\ \A c \in Comps : FollowsModeOK(cfg.n, Comp(F0.v, c), Rs.n, Comp(Rs.v, c), AD, w[1], w[2], AO, 1, Rs.den)
   /\ (AO.mode # "linear_ramp" => \A c \in Comps : NearestIntOK(Comp(Rs.v, c), Rs.den, Comp(Rs.vi, c)))
PadOpt_ValidityLikeData == IsPad => \A w \in WPairs :
   ValidityLikeDataOK(cfg.n, cfg.valid, obs[w].n, obs[w].w, AD, w[1], w[2], AO)
PadOpt_LinesIndependent == IsPad => \A w \in WPairs :
   LET Rs == obs[w] IN
   /\ \A c \in {1} : LinesIndependentOK(cfg.n, Comp(F0.v, c), Rs.n, Comp(Rs.v, c), AD, w[1], w[2], AO, 1)
   /\ MaskLinesIndependentOK(cfg.n, cfg.valid, Rs.n, Rs.w, AD, w[1], w[2], AO)
=============================================================================
