------------------------------ MODULE MC_C08 ------------------------------
(* Model constants for C08.  Pool fields whose values have pairwise different non-zero  *)
(* magnitudes (so that the source cell of every piece of data is recognisable), a field *)
(* with zero cells for valid='norm', a complex field; initial masks range over all      *)
(* 2^N patterns (2x2) or a sample (3x2x1, 2x2x2).                                       *)
EXTENDS C08

S1tbl == <<<<2>>, <<3>>, <<5>>, <<7>>, <<11>>, <<13>>, <<17>>, <<19>>>>
S2tbl == <<<<-4>>, <<6>>, <<-8>>, <<9>>, <<-10>>, <<12>>, <<-14>>, <<15>>>>
V2tbl == <<<<3, -4>>, <<-5, 12>>, <<8, 15>>, <<-7, -24>>, <<20, 21>>, <<9, -40>>, <<-11, 60>>, <<28, 45>>>>
W2tbl == <<<<16, 63>>, <<-33, 56>>, <<48, -55>>, <<36, 77>>, <<13, 84>>, <<-39, 80>>, <<65, 72>>, <<51, -140>>>>
V3tbl == <<<<2, -3, 6>>, <<1, 4, -8>>, <<-7, 14, 22>>, <<9, 12, 20>>, <<-10, 11, 13>>, <<15, 16, -17>>, <<18, 19, 21>>, <<23, -24, 25>>>>
W3tbl == <<<<26, 27, 28>>, <<-29, 30, 31>>, <<32, -33, 34>>, <<35, 36, -37>>, <<38, 39, 40>>, <<-41, 42, 43>>, <<44, -45, 46>>, <<47, 48, -49>>>>
VZtbl == <<<<0, 0>>, <<3, 4>>, <<0, -5>>, <<0, 0>>, <<6, 0>>, <<0, 0>>, <<-8, 15>>, <<0, 0>>>>
SCtbl == <<<<GC(1, 2)>>, <<GC(3, -1)>>, <<GC(-2, 2)>>, <<GC(4, 3)>>, <<GC(0, 5)>>, <<GC(-3, -4)>>, <<GC(2, -5)>>, <<GC(6, 1)>>>>
A1tbl == <<<<4>>, <<-1>>, <<2>>, <<5>>, <<-3>>, <<6>>, <<1>>, <<-7>>>>

IV(tbl, N, nv) == [k \in 1 .. N |-> [c \in 1 .. nv |-> GI(tbl[k][c])]]
CV(tbl, N, nv) == [k \in 1 .. N |-> [c \in 1 .. nv |-> tbl[k][c]]]
WithDt(r, dt) == [k |-> r.k, m |-> r.m, nv |-> r.nv, val |-> r.val, vx |-> r.vx, valid |-> r.valid, vt |-> r.vt,
                  vdims |-> r.vdims, map |-> r.map, aux |-> r.aux, vo |-> r.vo, dt |-> dt]
PF(m, nv, val, vdims, map, dt) ==
   WithDt(MkField(m, nv, val, TRUE, [k \in 1 .. NCellsM(m) |-> TRUE], vdims, map, <<>>), dt)
Perm(dims) == IF Len(dims) = 2 THEN <<dims[2], dims[1]>> ELSE IF Len(dims) = 3 THEN <<dims[3], dims[1], dims[2]>> ELSE dims

PoolOn(t, m, mx1) ==
   LET N == NCellsM(m)  nd == Len(m.n)
   IN (t \o "S1" :> PF(m, 1, IV(S1tbl, N, 1), <<>>, <<>>, "float"))
   @@ (t \o "S2" :> PF(m, 1, IV(S2tbl, N, 1), <<>>, <<>>, "float"))
   @@ (t \o "V2" :> PF(m, 2, IV(V2tbl, N, 2), DefaultVdims(2), DefaultMap(m, 2), "float"))
   @@ (t \o "W2" :> PF(m, 2, IV(W2tbl, N, 2), <<"a", "b">>, IF nd = 2 THEN Perm(m.dims) ELSE <<>>, "float"))
   @@ (t \o "V3" :> PF(m, 3, IV(V3tbl, N, 3), DefaultVdims(3), DefaultMap(m, 3), "float"))
   @@ (t \o "W3" :> PF(m, 3, IV(W3tbl, N, 3), <<"p", "q", "r">>, IF nd = 3 THEN Perm(m.dims) ELSE <<>>, "float"))
   @@ (t \o "VZ" :> PF(m, 2, IV(VZtbl, N, 2), DefaultVdims(2), DefaultMap(m, 2), "float"))
   @@ (t \o "SC" :> PF(m, 1, CV(SCtbl, N, 1), <<>>, <<>>, "complex"))
   @@ (t \o "N2" :> MkNum(GI(3)))
   @@ (t \o "K2" :> MkVec(<<GI(1), GI(-2)>>))
   @@ (t \o "K3" :> MkVec(<<GI(2), GI(-1), GI(2)>>))
   @@ (t \o "A1" :> MkArr2(m, 1, IV(A1tbl, N, 1)))

MeshA == [lo |-> <<0, 0>>, c |-> <<12, 12>>, n |-> <<2, 2>>, dims |-> <<"x", "y">>]
MeshB == [lo |-> <<-12, 0, 24>>, c |-> <<12, 24, 12>>, n |-> <<3, 2, 1>>, dims |-> <<"x", "y", "z">>]
MeshC == [lo |-> <<0, 0, 0>>, c |-> <<12, 12, 12>>, n |-> <<2, 2, 2>>, dims |-> <<"x", "y", "z">>]
MeshD == [lo |-> <<8>>, c |-> <<12>>, n |-> <<4>>, dims |-> <<"x">>]
PoolDef == PoolOn("A.", MeshA, MeshA) @@ PoolOn("B.", MeshB, MeshB) @@ PoolOn("C.", MeshC, MeshC) @@ PoolOn("D.", MeshD, MeshD)

Dx(depth, x) == [d |-> depth, x |-> x]
One(t, a, masks, depth, x)     == {<< <<<<t \o a, ma>>>>, Dx(depth, x)>> : ma \in masks}
Two(t, a, b, ma, mb, depth, x) == {<< <<<<t \o a, p>>, <<t \o b, q>>>>, Dx(depth, x)>> : p \in ma, q \in mb}
All4 == 0 .. 15
Some4 == {15, 6, 9}
Some6 == {63, 37, 26, 0}
Some8 == {255, 165, 60, 1}
MX == {"mutate", "set_valid"}

Init_quick ==
        One("A.", "V2", All4, 1, {"mutate"}) \cup One("A.", "V2", {6, 13}, 2, {}) \cup One("A.", "S1", {15, 5, 8}, 1, MX)
   \cup One("A.", "W2", Some4, 1, {"mutate"})
   \cup One("A.", "VZ", {15, 10}, 1, MX) \cup One("A.", "SC", {13}, 1, {"mutate"}) \cup One("A.", "V3", {11}, 1, {"mutate"})
   \cup Two("A.", "V2", "V2", All4, All4, 1, {"two"}) \cup Two("A.", "S1", "W2", Some4, Some4, 1, {"two", "mutate"})
   \cup Two("A.", "V2", "N2", Some4, {-1}, 1, {"two", "mutate"}) \cup Two("A.", "V2", "K2", Some4, {-1}, 1, {"two", "mutate"})
   \cup Two("A.", "S2", "A1", Some4, {-1}, 1, {"two", "mutate"})
   \cup One("B.", "V3", {37, 26}, 1, {"mutate"}) \cup One("B.", "W3", {37}, 1, {"mutate"}) \cup One("B.", "S1", {26}, 1, MX)
   \cup Two("B.", "V3", "W3", {37, 26}, {63, 26}, 1, {"two", "mutate"})
Init_thorough ==
        One("A.", "V2", All4, 1, MX) \cup One("A.", "V2", Some4, 2, {"mutate"}) \cup One("A.", "S1", All4, 1, MX) \cup One("A.", "S1", {5, 8}, 2, {"mutate"})
   \cup One("A.", "W2", All4, 1, {"mutate"}) \cup One("A.", "W2", {9}, 2, {"mutate"})
   \cup One("A.", "VZ", All4, 1, MX) \cup One("A.", "SC", All4, 1, {"mutate"}) \cup One("A.", "V3", All4, 1, {"mutate"})
   \cup Two("A.", "V2", "V2", All4, All4, 1, {"two", "mutate"}) \cup Two("A.", "S1", "W2", All4, All4, 1, {"two", "mutate"})
   \cup Two("A.", "V2", "N2", All4, {-1}, 1, {"two", "mutate"}) \cup Two("A.", "V2", "K2", All4, {-1}, 1, {"two", "mutate"})
   \cup Two("A.", "S2", "A1", All4, {-1}, 1, {"two", "mutate"}) \cup Two("A.", "SC", "S1", Some4, Some4, 1, {"two", "mutate"})
   \cup One("B.", "V3", Some6, 1, {"mutate"}) \cup One("B.", "V3", {37}, 2, {"mutate"}) \cup One("B.", "W3", Some6, 1, MX) \cup One("B.", "S1", Some6, 1, MX)
   \cup Two("B.", "V3", "W3", Some6, Some6, 1, {"two", "mutate"}) \cup Two("B.", "S2", "V3", Some6, Some6, 1, {"two", "mutate"})
   \cup One("C.", "V3", Some8, 1, MX) \cup One("C.", "S1", Some8, 1, MX) \cup Two("C.", "V3", "W3", Some8, Some8, 1, {"two", "mutate"})
   \cup One("D.", "S1", All4, 1, MX) \cup One("D.", "V2", Some4, 1, {"mutate"})

OpsC08 == {"neg", "pos", "abs", "real", "imag", "conj", "cabs", "phase", "norm", "orientation",
           "add", "sub", "mul", "div", "pow", "dot", "cross", "angle", "lshift", "comp", "restack", "ufunc1", "ufunc2",
           "diff", "grad", "divg", "curl", "laplace", "sel", "selrange", "getitem", "pad", "resample", "rotate90", "h5", "vtk",
           "set_valid", "mutate_valid"}
DeepOpsC08 == {"neg", "pos", "abs", "norm", "comp", "add", "mul", "dot", "lshift", "ufunc1", "ufunc2", "diff", "grad", "sel", "getitem",
               "rotate90", "resample", "h5", "mutate_valid"}
MaskPats_quick == {5, 14}
MaskPats_thorough == {0, 5, 14, 9}
PadModes_all == {"constant", "wrap", "edge", "symmetric", "reflect"}
RotKs_quick == {-1, 1, 2}
RotKs_thorough == {-5, -2, -1, 0, 1, 2, 3, 4}
=============================================================================
