-------------------------------- MODULE C05 --------------------------------
(* C05 - grad, div, curl and Laplacian are the textbook combinations of the            *)
(* directional derivatives, paired through the component-to-axis mapping.              *)
(*                                                                                     *)
(* Two kinds of configuration share the four public calls grad / div / curl / laplace: *)
(*                                                                                     *)
(*  "table": one cell of a field with nv components on an nd-dimensional mesh whose     *)
(*     directional derivatives are an UNINTERPRETED table: the first derivative of      *)
(*     component c along axis d is the symbolic value Sym(c, d) = 2^((c-1)*nd + d-1)    *)
(*     (distinct powers of two: a combination with coefficients in {-1,0,1} is          *)
(*     determined by its value, so any mis-pairing of component and axis is visible).   *)
(*     map[c] is the axis component c points along (0 = unmapped, nd+1 = mapped to a    *)
(*     name that is not a mesh axis).  The conformance harness realises such a state as *)
(*     a linear (Laplacian: quadratic) field with exactly these slopes.                 *)
(*                                                                                     *)
(*  "mesh": a small fully valid mesh n with anisotropic cells h, a set of periodic      *)
(*     axes, a permutation as mapping, and the reference stencils of C04Lib; the field  *)
(*     is a unit impulse (all fields follow by linearity) or a monomial of degree <= 2. *)
(*     Here the consequences the property names are checked: curl grad = 0,             *)
(*     div curl = 0, exactness on polynomials of degree <= 2, commuting with quarter    *)
(*     turns.                                                                           *)
(* Denominators are explicit: with HL = lcm(h), a first derivative along d is           *)
(* numerator * (HL/h[d]) over 2*HL, a second derivative numerator * (HL/h[d])^2 over    *)
(* HL^2, so every component of a result has the same denominator.                       *)
EXTENDS C04Lib, TLC

CONSTANTS TableND,      \* set of spatial dimensions for table configurations
          TableNV,      \* set of component counts for table configurations
          MeshCfgs,     \* set of [n, h, pbc] for mesh configurations (3-D)
          RotCfgs,      \* set of [n, h, pbc] for the quarter-turn checks (3-D, small)
          RotK          \* numbers of quarter turns tried

VARIABLES cfg, act, obs
vars == <<cfg, act, obs>>

Rej   == [ok |-> FALSE]
Ok(v) == [ok |-> TRUE, v |-> v]

(* ---- the operators on one cell, given tables of directional derivatives ------------ *)
LCM2(a, b) == (a * b) \div GCD(a, b)
RECURSIVE LCMSeq(_)
LCMSeq(s) == IF s = <<>> THEN 1 ELSE LCM2(Head(s), LCMSeq(Tail(s)))
W(h, d)   == LCMSeq(h) \div h[d]
Mapped(map, nd)  == \A c \in DOMAIN map : map[c] \in 1 .. nd
Injective(map)   == \A c1, c2 \in DOMAIN map : c1 # c2 => map[c1] # map[c2]
(* the component that points along axis d *)
RMap(map, d)     == CHOOSE c \in DOMAIN map : map[c] = d
(* does the field fit the operator? *)
Fits(op, nd, nv, map) ==
   CASE op = "grad"    -> nv = 1
     [] op = "div"     -> nv = nd /\ Mapped(map, nd)
     [] op = "curl"    -> nv = 3 /\ nd = 3 /\ Mapped(map, nd)
     [] op = "laplace" -> TRUE
(* T1[c][d]: numerator of d(component c)/d(axis d) over 2h[d]; T2 likewise over h[d]^2 *)
GradCell(T1, h)      == [d \in DOMAIN h |-> T1[1][d] * W(h, d)]
DivCell(T1, map, h)  == <<SumSeq([c \in DOMAIN map |-> T1[c][map[c]] * W(h, map[c])])>>
CurlCell(T1, map, h) ==
   LET P(i, j) == T1[RMap(map, j)][i] * W(h, i)        \* d(component along axis j)/d(axis i)
   IN <<P(2, 3) - P(3, 2), P(3, 1) - P(1, 3), P(1, 2) - P(2, 1)>>
LapCell(T2, h)       == [c \in DOMAIN T2 |-> SumSeq([d \in DOMAIN h |-> T2[c][d] * W(h, d) * W(h, d)])]
(* independent formulations (by axis / Levi-Civita) used to cross-check the above       *)
DivByAxis(T1, map, h) == <<SumSeq([d \in DOMAIN h |-> T1[RMap(map, d)][d] * W(h, d)])>>
Eps(i, j, k) == IF <<i, j, k>> \in {<<1, 2, 3>>, <<2, 3, 1>>, <<3, 1, 2>>} THEN 1
                ELSE IF <<i, j, k>> \in {<<3, 2, 1>>, <<1, 3, 2>>, <<2, 1, 3>>} THEN -1 ELSE 0
CurlLeviCivita(T1, map, h) ==
   [i \in 1 .. 3 |-> SumSeq([jk \in 1 .. 9 |->
        LET j == ((jk - 1) \div 3) + 1
            k == ((jk - 1) % 3) + 1
        IN Eps(i, j, k) * T1[RMap(map, k)][j] * W(h, j)])]

OpCell(op, T1, T2, map, h) ==
   CASE op = "grad"    -> GradCell(T1, h)
     [] op = "div"     -> DivCell(T1, map, h)
     [] op = "curl"    -> CurlCell(T1, map, h)
     [] op = "laplace" -> LapCell(T2, h)
Ops == {"grad", "div", "curl", "laplace"}

(* ---- table configurations ----------------------------------------------------------- *)
Sym(nd, c, d) == Pow(2, (c - 1) * nd + (d - 1))
SymTable(nd, nv) == [c \in 1 .. nv |-> [d \in 1 .. nd |-> Sym(nd, c, d)]]
Ones(nd) == [d \in 1 .. nd |-> 1]
TableCfgs == UNION {{[kind |-> "table", nd |-> nd, nv |-> nv, map |-> m] : m \in [1 .. nv -> 0 .. (nd + 1)]}
                    : nd \in TableND, nv \in TableNV}
Perms(S) == {p \in [S -> S] : \A x, y \in S : x # y => p[x] # p[y]}

(* ---- mesh configurations: arrays --------------------------------------------------- *)
IdMap(k) == [c \in 1 .. k |-> c]
AllValidArr(n) == [k \in 1 .. ProdSeq(n) |-> TRUE]
(* tables of directional derivatives of every component along every axis (flat arrays)  *)
DTab(m, arr, order) == [d \in 1 .. Len(m.n) |->
                          DiffArr(m.n, arr, AllValidArr(m.n), d, order, d \in m.pbc, TRUE)]
CellT(DT, k, nv, nd) == [c \in 1 .. nv |-> [d \in 1 .. nd |-> DT[d][k][c]]]
OpArr(op, m, arr, map) ==
   LET nd == Len(m.n)
       nv == Len(arr[1])
       DT == DTab(m, arr, IF op = "laplace" THEN 2 ELSE 1)
   IN [k \in DOMAIN arr |-> LET T == CellT(DT, k, nv, nd) IN OpCell(op, T, T, map, m.h)]
(* the mapping a result carries: grad and curl are in dims order, the Laplacian keeps    *)
(* the field's own mapping, div is a scalar                                             *)
OutMap(op, m, map) == CASE op = "grad" -> IdMap(Len(m.n)) [] op = "curl" -> IdMap(3)
                        [] op = "laplace" -> map [] op = "div" -> <<>>
Impulse(n, nv, k, c) == [j \in 1 .. ProdSeq(n) |-> [e \in 1 .. nv |-> IF j = k /\ e = c THEN 1 ELSE 0]]
(* monomials of degree <= 2 in the doubled cell-centre coordinates X_d = h[d]*(2 i_d + 1) *)
(* (x_d = X_d / 2).  mono = <<a, b>> with 0 <= a <= b: 0 stands for the factor 1.         *)
XC(m, i, d) == IF d = 0 THEN 1 ELSE m.h[d] * (2 * i[d] + 1)
Mono(m, mono) == MkArr(m.n, LAMBDA i : <<XC(m, i, mono[1]) * XC(m, i, mono[2])>>)
(* d/dX_e and d^2/dX_e^2 of the monomial at cell i *)
DMono(m, mono, i, e) == (IF mono[1] = e THEN XC(m, i, mono[2]) ELSE 0) + (IF mono[2] = e THEN XC(m, i, mono[1]) ELSE 0)
D2Mono(mono, e) == IF mono[1] = e /\ mono[2] = e THEN 2 ELSE 0
Monos(nd) == {mm \in (0 .. nd) \X (0 .. nd) : mm[1] <= mm[2]}

(* ---- quarter turns (numpy.rot90 on the cell array, the two in-plane components, the   *)
(* mesh: counts and cell sizes of the two axes swap, and so does periodicity)            *)
Rot1Mesh(m, a, b) == [n |-> SwapAt(m.n, a, b), h |-> SwapAt(m.h, a, b),
                      pbc |-> {IF d = a THEN b ELSE IF d = b THEN a ELSE d : d \in m.pbc}]
(* result[.., p at a, .., q at b, ..] = source[.., q at a, .., n_b - 1 - p at b, ..]      *)
Rot1Src(m, a, b, i) == [i EXCEPT ![a] = i[b], ![b] = m.n[b] - 1 - i[a]]
Rot1Arr(m, arr, map, a, b) ==
   LET m2 == Rot1Mesh(m, a, b)
       nv == Len(arr[1])
   IN MkArr(m2.n, LAMBDA i :
         LET src == At(m.n, arr, Rot1Src(m, a, b, i)) IN
         IF nv = 1 THEN src
         ELSE [c \in 1 .. nv |-> IF map[c] = a THEN -src[RMap(map, b)]
                                 ELSE IF map[c] = b THEN src[RMap(map, a)] ELSE src[c]])
RECURSIVE RotMesh(_, _, _, _)
RotMesh(m, a, b, k) == IF k = 0 THEN m ELSE RotMesh(Rot1Mesh(m, a, b), a, b, k - 1)
RECURSIVE RotArr(_, _, _, _, _, _)
RotArr(m, arr, map, a, b, k) ==
   IF k = 0 THEN arr ELSE RotArr(Rot1Mesh(m, a, b), Rot1Arr(m, arr, map, a, b), map, a, b, k - 1)

(* ---- actions ----------------------------------------------------------------------- *)
MeshStates == {[kind |-> "mesh", m |-> m, map |-> p] : m \in MeshCfgs, p \in Perms(1 .. 3)}
RotStates  == {[kind |-> "rot", m |-> m, map |-> p] : m \in RotCfgs, p \in Perms(1 .. 3)}
Init == cfg \in TableCfgs \cup MeshStates \cup RotStates /\ act = <<"new">> /\ obs = Rej

(* queries are issued from the fresh field only (they do not change it)                  *)
Fresh == act[1] = "new"
(* the four public calls on one symbolic cell *)
QOp == Fresh /\ cfg.kind = "table" /\ \E op \in Ops :
        /\ act' = <<"op", op>>
        /\ obs' = IF ~Fits(op, cfg.nd, cfg.nv, cfg.map) THEN Rej
                  ELSE IF op \in {"div", "curl"} /\ ~Injective(cfg.map) THEN [ok |-> TRUE, free |-> TRUE]
                  ELSE [ok |-> TRUE, free |-> FALSE,
                        v |-> OpCell(op, SymTable(cfg.nd, cfg.nv), SymTable(cfg.nd, cfg.nv), cfg.map, Ones(cfg.nd))]
        /\ UNCHANGED cfg
(* f.grad.curl on a scalar impulse at cell k *)
QCurlGrad == Fresh /\ cfg.kind = "mesh" /\ cfg.map = IdMap(3) /\ \E k \in 1 .. ProdSeq(cfg.m.n) :
        /\ act' = <<"curl_grad", k>>
        /\ obs' = LET f == Impulse(cfg.m.n, 1, k, 1)
                      g == OpArr("grad", cfg.m, f, <<>>)
                  IN Ok(OpArr("curl", cfg.m, g, IdMap(3)))
        /\ UNCHANGED cfg
(* v.curl.div on a vector impulse (component c at cell k), any mapping *)
QDivCurl == Fresh /\ cfg.kind = "mesh" /\ \E k \in 1 .. ProdSeq(cfg.m.n), c \in 1 .. 3 :
        /\ act' = <<"div_curl", k, c>>
        /\ obs' = LET v == Impulse(cfg.m.n, 3, k, c)
                      w == OpArr("curl", cfg.m, v, cfg.map)
                  IN Ok(OpArr("div", cfg.m, w, IdMap(3)))
        /\ UNCHANGED cfg
(* an operator on a monomial field of degree <= 2 (component c carries the monomial)    *)
QPoly == Fresh /\ cfg.kind = "mesh" /\ cfg.m.pbc = {} /\ \E op \in Ops, mono \in Monos(3), c \in 1 .. 3 :
        /\ (op = "grad" => c = 1 /\ cfg.map = IdMap(3))
        /\ act' = <<"poly", op, mono, c>>
        /\ obs' = LET p == Mono(cfg.m, mono)
                      f == IF op = "grad" THEN p
                           ELSE [j \in DOMAIN p |-> [e \in 1 .. 3 |-> IF e = c THEN p[j][1] ELSE 0]]
                  IN Ok(OpArr(op, cfg.m, f, cfg.map))
        /\ UNCHANGED cfg
(* op(rotate90(f)) and rotate90(op(f)) on an impulse *)
QRot == Fresh /\ cfg.kind = "rot" /\ \E op \in Ops, ab \in {p \in (1 .. 3) \X (1 .. 3) : p[1] # p[2]}, kk \in RotK,
           k \in 1 .. ProdSeq(cfg.m.n), c \in 1 .. 3 :
        /\ (op = "grad" => c = 1 /\ cfg.map = IdMap(3))
        /\ act' = <<"rot", op, ab, kk, k, c>>
        /\ obs' = LET nv  == IF op = "grad" THEN 1 ELSE 3
                      f   == Impulse(cfg.m.n, nv, k, c)
                      m2  == RotMesh(cfg.m, ab[1], ab[2], kk)
                      rf  == RotArr(cfg.m, f, cfg.map, ab[1], ab[2], kk)
                      om  == OutMap(op, cfg.m, cfg.map)
                  IN [ok |-> TRUE, oprot |-> OpArr(op, m2, rf, cfg.map),
                      rotop |-> RotArr(cfg.m, OpArr(op, cfg.m, f, cfg.map), om, ab[1], ab[2], kk),
                      n2 |-> m2.n]
        /\ UNCHANGED cfg

Next == QOp \/ QCurlGrad \/ QDivCurl \/ QPoly \/ QRot
Spec == Init /\ [][Next]_vars

(* ---- the property ------------------------------------------------------------------- *)
IsOp == act[1] = "op"
(* refused exactly when components are not mapped onto the mesh axes or the component /  *)
(* spatial dimension does not fit the operator                                           *)
C05_Refusals == IsOp => (obs.ok <=> Fits(act[2], cfg.nd, cfg.nv, cfg.map))
(* pairing by the mapping: renumbering the components together with the mapping does    *)
(* not change div / curl; the Laplacian and the gradient permute with the components     *)
C05_PairingByMapping == IsOp /\ obs.ok /\ ~obs.free =>
      \A p \in Perms(1 .. cfg.nv) :
         LET T  == SymTable(cfg.nd, cfg.nv)
             Tp == [c \in 1 .. cfg.nv |-> T[p[c]]]
             mp == [c \in 1 .. cfg.nv |-> cfg.map[p[c]]]
             r  == OpCell(act[2], Tp, Tp, mp, Ones(cfg.nd))
         IN IF act[2] \in {"div", "curl"} THEN r = obs.v
            ELSE IF act[2] = "laplace" THEN r = [c \in 1 .. cfg.nv |-> obs.v[p[c]]]
            ELSE TRUE
(* ... and it is not pairing by position: with a non-identity mapping the positional     *)
(* combination has a different value (the symbolic table separates them)                 *)
C05_NotByPosition == IsOp /\ obs.ok /\ ~obs.free /\ act[2] \in {"div", "curl"} /\ cfg.map # IdMap(cfg.nv) =>
      obs.v # OpCell(act[2], SymTable(cfg.nd, cfg.nv), SymTable(cfg.nd, cfg.nv), IdMap(cfg.nv), Ones(cfg.nd))
(* the textbook formulas, written a second way *)
C05_TextbookCombination == IsOp /\ obs.ok /\ ~obs.free =>
      LET T == SymTable(cfg.nd, cfg.nv) IN
      CASE act[2] = "div"     -> obs.v = DivByAxis(T, cfg.map, Ones(cfg.nd))
        [] act[2] = "curl"    -> obs.v = CurlLeviCivita(T, cfg.map, Ones(cfg.nd))
        [] act[2] = "grad"    -> obs.v = [d \in 1 .. cfg.nd |-> Sym(cfg.nd, 1, d)]
        [] act[2] = "laplace" -> obs.v = [c \in 1 .. cfg.nv |-> SumSeq([d \in 1 .. cfg.nd |-> Sym(cfg.nd, c, d)])]
ZeroArr(a) == \A k \in DOMAIN a : \A c \in DOMAIN a[k] : a[k][c] = 0
C05_CurlGradZero == act[1] = "curl_grad" => ZeroArr(obs.v)
C05_DivCurlZero  == act[1] = "div_curl" => ZeroArr(obs.v)
(* exact on polynomials of degree <= 2 (>= 3 cells per direction, open boundaries):      *)
(* first derivatives: numerator/(2 HL) = d/dx = 2 d/dX;  Laplacian: numerator/HL^2 = 4 sum d2/dX2 *)
C05_PolyExactDeg2 == act[1] = "poly" =>
      LET op == act[2]  mono == act[3]  c == act[4]  m == cfg.m  HLv == LCMSeq(m.h)
          dX(i, e) == DMono(m, mono, i, e)
          want(i) ==
             CASE op = "grad"    -> [d \in 1 .. 3 |-> 4 * HLv * dX(i, d)]
               [] op = "div"     -> <<4 * HLv * dX(i, cfg.map[c])>>
               [] op = "curl"    -> LET comp(j) == IF RMap(cfg.map, j) = c THEN 1 ELSE 0   \* v_j = monomial iff c points along j
                                        P(i2, j) == comp(j) * 4 * HLv * dX(i, i2)
                                    IN <<P(2, 3) - P(3, 2), P(3, 1) - P(1, 3), P(1, 2) - P(2, 1)>>
               [] op = "laplace" -> [e \in 1 .. 3 |-> IF e = c THEN 4 * HLv * HLv * SumSeq([d \in 1 .. 3 |-> D2Mono(mono, d)]) ELSE 0]
      IN obs.v = MkArr(m.n, want)
C05_CommutesWithRot90 == act[1] = "rot" => obs.oprot = obs.rotop
TypeOK == cfg.kind \in {"table", "mesh", "rot"}

(* NOT part of the property and expected to be VIOLATED (C05_d15.cfg): Field.laplace of   *)
(* a vector field returns today the POSITIONAL mapping instead of the field's own; with   *)
(* that mapping on the result the Laplacian does not commute with quarter turns - the     *)
(* model-level witness of the known finding D15.                                          *)
D15_TodaysLaplaceMappingCommutes == act[1] = "rot" /\ act[2] = "laplace" =>
      LET f == Impulse(cfg.m.n, 3, act[5], act[6])
      IN obs.oprot = RotArr(cfg.m, OpArr("laplace", cfg.m, f, cfg.map), IdMap(3), act[3][1], act[3][2], act[4])
=============================================================================
