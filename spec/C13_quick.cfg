SPECIFICATION Spec
CONSTANTS
  Scenarios <- Scen_quick
  TransVs <- TransVs_small
  ScaleFs <- ScaleFs_small
  RefPts <- RefPts_small
  RotKs <- RotKs_small
  BadKinds <- Bad_small
  MaxDepth = 2
  AllowAlias = "noP1P2"
CHECK_DEADLOCK FALSE
INVARIANT C13_RegionNormal
INVARIANT C13_MeshNormal
INVARIANT C13_FieldShapes
PROPERTY C13_AffineExact
PROPERTY C13_CountsAndUnits
PROPERTY C13_InplaceEqualsCopy
PROPERTY C13_InplaceReturnsSelf
PROPERTY C13_CopyLeavesOriginal
PROPERTY C13_RejectUnchanged
