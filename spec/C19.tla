-------------------------------- MODULE C19 --------------------------------
(* C19 - topological tools obey their physical invariances (decidable part).           *)
(*                                                                                     *)
(* Textures are fields of unit vectors from an octahedral alphabet, written as integer *)
(* triples: alphabet "A" = the 6 axis directions (+-1,0,0).., alphabet "D" = the 8     *)
(* body diagonals (+-1,+-1,+-1) (the unit vector is the triple times s = 1/sqrt 3).    *)
(* Every quantity the tools return is then an integer times a known constant:          *)
(*   Berg-Luescher charge  = BL / (6 U)         U = 8 (A) or 24 (D) (solid angles in    *)
(*                                              units of 1/U sphere, triangle_count     *)
(*                                              weights 12/count)                       *)
(*   continuous charge     = Cont s^3 / (16 pi) (stencil numerators over 2h)            *)
(*   cos(neighbour angle)  = dot / s^-2         (dot of the integer triples)            *)
(*   cumulative emergent flux / 4 pi = B s^3 / (64 pi)                                  *)
(* The SYMMETRY MACHINE transforms a 2-d texture by the operations the property lists  *)
(* and the law  charge' = +-charge  is an action property checked on every transition. *)
EXTENDS Cells, TLC

CONSTANTS TexSet,      \* initial textures
          RotIdx,      \* which of the 23 non-trivial cube rotations RotateVectors tries (indices into a fixed enumeration)
          LenPats,     \* length patterns (sequences of positive integers, cycled over the cells)
          MaxSteps     \* symmetry operations per history

VARIABLES tex, prev, act, obs, steps
vars == <<tex, prev, act, obs, steps>>

(* tex == [nv, n, c, lo, dirs, lens, valid, alpha]: nv components per cell; n, c, lo    *)
(* per spatial dimension (2 or 3); dirs/lens/valid flat arrays (Cells.tla convention)   *)
ND3(t)     == Len(t.n)
Proper2(t) == t.nv = 3 /\ ND3(t) = 2
Proper3(t) == t.nv = 3 /\ ND3(t) = 3
U(t)       == IF t.alpha = "A" THEN 8 ELSE 24
S2(t)      == IF t.alpha = "A" THEN 1 ELSE 3          \* 1 / s^2

CellV(t, i)  == At(t.n, t.dirs, i)
ValidAt(t, i) == At(t.n, t.valid, i)
InR(t, i)    == \A d \in DOMAIN t.n : 0 <= i[d] /\ i[d] < t.n[d]
OkAt(t, i)   == InR(t, i) /\ ValidAt(t, i)
Shift(i, d, s) == [i EXCEPT ![d] = @ + s]
Lin3(a, x, b, y, c, z) == [k \in 1 .. 3 |-> a * x[k] + b * y[k] + c * z[k]]
Zero3 == <<0, 0, 0>>
Neg3(x) == [k \in DOMAIN x |-> -x[k]]

(* ---- Berg-Luescher: signed solid angle of the spherical triangle (a, b, c) in units  *)
(* of 1/U sphere; zero when the triple product vanishes (util.py:12-16)                 *)
Triple(a, b, c) == Dot(a, Cross(b, c))
TriAngle(t, a, b, c) ==
   LET T == Triple(a, b, c) IN
   IF T = 0 THEN 0
   ELSE IF t.alpha = "A" THEN Sgn(T)                    \* three orthogonal axes: an octant
   ELSE IF Dot(a, b) + Dot(b, c) + Dot(c, a) = 1 THEN 2 * Sgn(T)      \* half a cube face: 1/12
   ELSE 6 * Sgn(T)                                      \* a face of the inscribed tetrahedron: 1/4
(* the four triangles at cell i (tools.py:128-165): (0;+x,+y) (0;+y,-x) (0;-x,-y) (0;-y,+x) *)
NbrPairs(i) == << <<Shift(i, 1, 1), Shift(i, 2, 1)>>, <<Shift(i, 2, 1), Shift(i, 1, -1)>>,
                  <<Shift(i, 1, -1), Shift(i, 2, -1)>>, <<Shift(i, 2, -1), Shift(i, 1, 1)>> >>
BLCell(t, i) ==
   IF ~ValidAt(t, i) THEN 0
   ELSE LET P   == NbrPairs(i)
            use == {k \in 1 .. 4 : OkAt(t, P[k][1]) /\ OkAt(t, P[k][2])}
            cnt == Cardinality(use)
            sum == SumSeq([k \in 1 .. 4 |-> IF k \in use THEN TriAngle(t, CellV(t, i), CellV(t, P[k][1]), CellV(t, P[k][2])) ELSE 0])
        IN IF cnt = 0 THEN 0 ELSE sum * (12 \div cnt)
BLCells(t) == [k \in 1 .. ProdSeq(t.n) |-> BLCell(t, Unflat(t.n, k - 1))]          \* density * 12 U area
BL(t) == SumSeq(BLCells(t))

(* ---- first derivative along axis d at cell i, numerator over 2 h_d, of a cell function *)
(* F (vector- or scalar-valued through Comb), restricted to the maximal run of valid     *)
(* cells through i (operators.py:16-31, 72-88): run of 1 -> 0; run of 2 -> the difference *)
(* for both; longer runs -> centred inside, second-order one-sided at the run ends       *)
RunLo(t, i, d) == CHOOSE a \in 0 .. i[d] : /\ \A k \in a .. i[d] : ValidAt(t, [i EXCEPT ![d] = k])
                                           /\ (a = 0 \/ ~ValidAt(t, [i EXCEPT ![d] = a - 1]))
RunHi(t, i, d) == CHOOSE b \in i[d] .. (t.n[d] - 1) : /\ \A k \in i[d] .. b : ValidAt(t, [i EXCEPT ![d] = k])
                                                      /\ (b = t.n[d] - 1 \/ ~ValidAt(t, [i EXCEPT ![d] = b + 1]))
(* stencil as a set of <<offset cell, weight>> *)
Stencil(t, i, d) ==
   IF ~ValidAt(t, i) THEN {}
   ELSE LET a == RunLo(t, i, d)  b == RunHi(t, i, d)  x == i[d]
            at(k) == [i EXCEPT ![d] = k]
        IN IF b = a THEN {}
           ELSE IF b = a + 1 THEN {<<at(b), 2>>, <<at(a), -2>>}
           ELSE IF x = a THEN {<<at(a), -3>>, <<at(a + 1), 4>>, <<at(a + 2), -1>>}
           ELSE IF x = b THEN {<<at(b), 3>>, <<at(b - 1), -4>>, <<at(b - 2), 1>>}
           ELSE {<<at(x + 1), 1>>, <<at(x - 1), -1>>}
RECURSIVE SumVecSet(_, _)
SumVecSet(t, S) == IF S = {} THEN Zero3
                   ELSE LET e == CHOOSE y \in S : TRUE
                        IN Lin3(e[2], CellV(t, e[1]), 1, SumVecSet(t, S \ {e}), 0, Zero3)
DVec(t, i, d) == SumVecSet(t, Stencil(t, i, d))

(* ---- continuous charge: sum over cells of n . (dx n  x  dy n), numerators over 2h     *)
ContCell(t, i) == Dot(CellV(t, i), Cross(DVec(t, i, 1), DVec(t, i, 2)))
ContCells(t) == [k \in 1 .. ProdSeq(t.n) |-> ContCell(t, Unflat(t.n, k - 1))]      \* density * 16 pi hx hy / s^3
Cont(t) == SumSeq(ContCells(t))

(* a texture wraps the sphere a whole number of times when it is fully valid, constant on   *)
(* the boundary ring and no two cells of any plaquette are antiparallel (so both            *)
(* triangulations of every plaquette are proper spherical triangles): BL is then an integer *)
Boundary(t, i) == \E d \in 1 .. 2 : i[d] = 0 \/ i[d] = t.n[d] - 1
NoAntiPlaq(t) == \A k \in 1 .. ProdSeq(t.n) :
      LET i == Unflat(t.n, k - 1) IN
      \A o \in {<<1, 0>>, <<0, 1>>, <<1, 1>>, <<1, -1>>} :
         LET j == <<i[1] + o[1], i[2] + o[2]>> IN InR(t, j) => CellV(t, i) # Neg3(CellV(t, j))
Wrapping(t) == /\ Proper2(t) /\ \A k \in DOMAIN t.valid : t.valid[k]
               /\ \A k \in 1 .. ProdSeq(t.n) : Boundary(t, Unflat(t.n, k - 1)) => t.dirs[k] = t.dirs[1]
               /\ NoAntiPlaq(t)
(* some triangle the lattice method uses contains an exactly antiparallel pair: the solid    *)
(* angle is 0 by the convention of util.py:12-16, but for unit vectors that are not exactly  *)
(* representable the float test `== 0` may fail and rho = 0 (known finding)                  *)
Degenerate(t) == \E k \in 1 .. ProdSeq(t.n) :
      LET i == Unflat(t.n, k - 1)  P == NbrPairs(i) IN
      /\ ValidAt(t, i)
      /\ \E q \in 1 .. 4 : /\ OkAt(t, P[q][1]) /\ OkAt(t, P[q][2])
                           /\ LET a == CellV(t, i)  b == CellV(t, P[q][1])  c == CellV(t, P[q][2])
                              IN a = Neg3(b) \/ b = Neg3(c) \/ c = Neg3(a)
Charges(t) == LET b == BLCells(t)  c == ContCells(t) IN
              [ok |-> TRUE, bl |-> SumSeq(b), cont |-> SumSeq(c), blc |-> b, contc |-> c, wrap |-> Wrapping(t), degen |-> Degenerate(t)]
None3 == [ok |-> TRUE, bl |-> 0, cont |-> 0, blc |-> <<>>, contc |-> <<>>, wrap |-> FALSE, degen |-> FALSE]
ObsOf(t) == IF Proper2(t) THEN Charges(t) ELSE None3

(* ---- the symmetry operations on textures --------------------------------------------- *)
(* proper rotations of the cube: signed permutation matrices of determinant +1           *)
Perms3 == {p \in [1 .. 3 -> 1 .. 3] : {p[k] : k \in 1 .. 3} = 1 .. 3}
Signs3 == [1 .. 3 -> {-1, 1}]
SPMat(p, s) == [i \in 1 .. 3 |-> [j \in 1 .. 3 |-> IF p[i] = j THEN s[i] ELSE 0]]
DetM(A) == A[1][1] * (A[2][2] * A[3][3] - A[2][3] * A[3][2]) - A[1][2] * (A[2][1] * A[3][3] - A[2][3] * A[3][1])
         + A[1][3] * (A[2][1] * A[3][2] - A[2][2] * A[3][1])
O24 == {M \in {SPMat(p, s) : p \in Perms3, s \in Signs3} : DetM(M) = 1}
IdM3 == <<<<1, 0, 0>>, <<0, 1, 0>>, <<0, 0, 1>>>>
MatVec(M, v) == [i \in 1 .. 3 |-> M[i][1] * v[1] + M[i][2] * v[2] + M[i][3] * v[3]]

RotVecs(t, M)  == [t EXCEPT !.dirs = [k \in DOMAIN t.dirs |-> MatVec(M, t.dirs[k])]]
Reversed(t)    == [t EXCEPT !.dirs = [k \in DOMAIN t.dirs |-> Neg3(t.dirs[k])]]
Relen(t, pat)  == [t EXCEPT !.lens = [k \in DOMAIN t.lens |-> pat[((k - 1) % Len(pat)) + 1]]]
Scaled(t, f)   == [t EXCEPT !.c = [d \in DOMAIN t.c |-> t.c[d] * f[d]], !.lo = [d \in DOMAIN t.lo |-> t.lo[d] * f[d]]]
Moved(t, v)    == [t EXCEPT !.lo = [d \in DOMAIN t.lo |-> t.lo[d] + v[d]]]
(* one quarter turn of the sample from the first towards the second axis about the region *)
(* centre (Field.rotate90(ax1, ax2)): positions  (x, y) -> (-y, x), vectors likewise      *)
Quarter(t) ==
   LET n2  == <<t.n[2], t.n[1]>>
       src(j) == <<j[2], t.n[2] - 1 - j[1]>>          \* target cell j comes from source cell src(j)
       c2  == <<t.c[2], t.c[1]>>
       \* doubled centre is kept: 2 lo' + c' n' = 2 lo + c n, componentwise
       lo2 == <<(2 * t.lo[1] + t.c[1] * t.n[1] - t.c[2] * t.n[2]), (2 * t.lo[2] + t.c[2] * t.n[2] - t.c[1] * t.n[1])>>
   IN [t EXCEPT !.n = n2, !.c = c2,
                !.lo = <<lo2[1] \div 2, lo2[2] \div 2>>,
                !.dirs  = MkArr(n2, LAMBDA j : LET v == CellV(t, src(j)) IN <<-v[2], v[1], v[3]>>),
                !.lens  = MkArr(n2, LAMBDA j : At(t.n, t.lens, src(j))),
                !.valid = MkArr(n2, LAMBDA j : ValidAt(t, src(j)))]
QuarterOK(t) == (t.c[1] * t.n[1] - t.c[2] * t.n[2]) % 2 = 0        \* the rotated corner stays on the lattice
RECURSIVE Quarters(_, _)
Quarters(t, k) == IF k = 0 THEN t ELSE Quarters(Quarter(t), k - 1)

(* ---- 3-d tools ------------------------------------------------------------------------ *)
(* neighbouring_cell_angle(direction d): mesh one cell shorter along d, cos as a rational  *)
AngleObs(t, d) ==
   LET n2 == [t.n EXCEPT ![d] = @ - 1] IN
   [ok  |-> TRUE,
    n   |-> n2,
    lo2 |-> [e \in DOMAIN t.n |-> 2 * t.lo[e] + (IF e = d THEN t.c[e] ELSE 0)],     \* doubled lower corner
    hi2 |-> [e \in DOMAIN t.n |-> 2 * (t.lo[e] + t.c[e] * t.n[e]) - (IF e = d THEN t.c[e] ELSE 0)],
    cos |-> MkArr(n2, LAMBDA i : RNorm(Dot(CellV(t, i), CellV(t, Shift(i, d, 1))), S2(t)))]

(* emergent field F_k = m . (d_a m x d_b m), (a, b) cyclic; numerators over 2h_a 2h_b     *)
Cyc(k) == IF k = 1 THEN <<2, 3>> ELSE IF k = 2 THEN <<3, 1>> ELSE <<1, 2>>
FNum(t, i, k) == Dot(CellV(t, i), Cross(DVec(t, i, Cyc(k)[1]), DVec(t, i, Cyc(k)[2])))
(* divergence numerator over 8 dV: sum_k d_k F_k with the same run-restricted stencils     *)
RECURSIVE SumScalSet(_, _, _)
SumScalSet(t, S, k) == IF S = {} THEN 0
                       ELSE LET e == CHOOSE y \in S : TRUE IN e[2] * FNum(t, e[1], k) + SumScalSet(t, S \ {e}, k)
DivNum(t, i) == SumScalSet(t, Stencil(t, i, 1), 1) + SumScalSet(t, Stencil(t, i, 2), 2) + SumScalSet(t, Stencil(t, i, 3), 3)
LayerSum(t, d, l) == SumSeq([k \in 1 .. ProdSeq(t.n) |->
                        LET i == Unflat(t.n, k - 1) IN IF i[d] = l THEN DivNum(t, i) ELSE 0])
(* cumulative integral along d (own layer with weight 1/2), times 16 *)
BNum(t, d) == [l \in 1 .. t.n[d] |->
                 2 * SumSeq([j \in 1 .. (l - 1) |-> LayerSum(t, d, j - 1)]) + LayerSum(t, d, l - 1)]
(* round(B s^3 / (64 pi)) decided with certified enclosures: 32 pi in (100.530, 100.531),   *)
(* 96 sqrt(3) pi in (522.374, 522.375); -99 when the enclosure cannot decide                *)
HalfLo(t) == IF t.alpha = "A" THEN 100530 ELSE 522374
HalfHi(t) == IF t.alpha = "A" THEN 100531 ELSE 522375
RoundB(t, B) == LET ks == {k \in -12 .. 12 :
                              /\ (IF 2 * k - 1 >= 0 THEN (2 * k - 1) * HalfHi(t) ELSE (2 * k - 1) * HalfLo(t)) < 1000 * B
                              /\ 1000 * B < (IF 2 * k + 1 >= 0 THEN (2 * k + 1) * HalfLo(t) ELSE (2 * k + 1) * HalfHi(t))}
                IN IF ks = {} THEN -99 ELSE CHOOSE k \in ks : TRUE
BlochObs(t, d) ==
   LET B   == BNum(t, d)
       num == [l \in DOMAIN B |-> RoundB(t, B[l])]
       dec == \A l \in DOMAIN num : num[l] # -99
       cnt == [l \in 1 .. (Len(num) - 1) |-> num[l + 1] - num[l]]
   IN [ok |-> TRUE, decided |-> dec, b |-> B, number |-> num,
       total |-> IF dec THEN SumSeq([l \in DOMAIN cnt |-> Abs(cnt[l])]) ELSE -1,
       hh    |-> IF dec THEN SumSeq([l \in DOMAIN cnt |-> IF cnt[l] < 0 THEN -cnt[l] ELSE 0]) ELSE -1,
       tt    |-> IF dec THEN SumSeq([l \in DOMAIN cnt |-> IF cnt[l] > 0 THEN cnt[l] ELSE 0]) ELSE -1]

(* emergent_magnetic_field: F_k numerators over 2 h_a 2 h_b (times s^3) in every cell *)
EmergentObs(t) == [ok |-> TRUE, f |-> MkArr(t.n, LAMBDA i : <<FNum(t, i, 1), FNum(t, i, 2), FNum(t, i, 3)>>)]

(* which tools accept the field (TRUE) and which must refuse it *)
RefusalObs(t) == [ok |-> TRUE, charge |-> Proper2(t), density |-> Proper2(t), emergent |-> Proper3(t),
                  bps |-> Proper3(t), angle |-> t.nv = 3]

Queries == {"angle", "bps", "emergent", "refusals"}
(* ---- actions --------------------------------------------------------------------------- *)
Init == /\ tex \in TexSet
        /\ prev = tex
        /\ act = <<"new">>
        /\ steps = 0
        /\ obs = ObsOf(tex)

SymStep(t2, a) == /\ Proper2(tex) /\ steps < MaxSteps /\ act[1] \notin Queries
                  /\ tex' = t2 /\ prev' = tex /\ act' = a /\ steps' = steps + 1
                  /\ obs' = Charges(t2)
(* a fixed enumeration of the cube rotations: permutation p (as image list) and signs s *)
RotKey(M) == 100 * (M[1][1] + 2 * M[1][2] + 3 * M[1][3] + 3) + 10 * (M[2][1] + 2 * M[2][2] + 3 * M[2][3] + 3) + (M[3][1] + 2 * M[3][2] + 3 * M[3][3] + 3)
RotRank(M) == Cardinality({N \in O24 : RotKey(N) < RotKey(M)})
RotateVectors   == \E M \in O24 \ {IdM3} : RotRank(M) \in RotIdx /\ SymStep(RotVecs(tex, M), <<"rotate_vectors", M>>)
RescaleLengths  == \E p \in LenPats : Relen(tex, p) # tex /\ SymStep(Relen(tex, p), <<"rescale_lengths", p>>)
ScaleMesh       == \E f \in {<<2, 2>>, <<3, 1>>, <<1, 2>>} : tex.c[1] * tex.c[2] <= 6 /\ SymStep(Scaled(tex, f), <<"scale_mesh", f>>)
TranslateMesh   == \E v \in {<<5, -3>>, <<-40, 0>>} : Abs(tex.lo[1]) < 30 /\ SymStep(Moved(tex, v), <<"translate_mesh", v>>)
Rotate90Sample  == \E k \in 1 .. 3 : QuarterOK(tex) /\ SymStep(Quarters(tex, k), <<"rotate90_sample", k>>)
Reverse         == steps >= 0 /\ SymStep(Reversed(tex), <<"reverse">>)

Fresh == act[1] = "new"
QAngle == \E d \in 1 .. 3 : /\ Fresh /\ Proper3(tex) /\ tex.n[d] >= 2
                            /\ act' = <<"angle", d>> /\ obs' = AngleObs(tex, d) /\ UNCHANGED <<tex, prev, steps>>
QBloch == \E d \in 1 .. 3 : /\ Fresh /\ Proper3(tex) /\ \A k \in DOMAIN tex.valid : tex.valid[k]
                            /\ act' = <<"bps", d>> /\ obs' = BlochObs(tex, d) /\ UNCHANGED <<tex, prev, steps>>
QEmergent == /\ Fresh /\ Proper3(tex)
             /\ act' = <<"emergent">> /\ obs' = EmergentObs(tex) /\ UNCHANGED <<tex, prev, steps>>
QRefusals == /\ Fresh /\ act' = <<"refusals">> /\ obs' = RefusalObs(tex) /\ UNCHANGED <<tex, prev, steps>>

Next == \/ RotateVectors \/ RescaleLengths \/ ScaleMesh \/ TranslateMesh \/ Rotate90Sample \/ Reverse
        \/ QAngle \/ QBloch \/ QEmergent \/ QRefusals
Spec == Init /\ [][Next]_vars

(* ---- the property, clause by clause ------------------------------------------------------ *)
AlphaOK(t) == \A k \in DOMAIN t.dirs :
                 IF t.alpha = "A" THEN Dot(t.dirs[k], t.dirs[k]) = 1 ELSE \A c \in 1 .. 3 : Abs(t.dirs[k][c]) = 1
TypeOK == /\ Len(tex.dirs) = ProdSeq(tex.n) /\ Len(tex.valid) = ProdSeq(tex.n) /\ Len(tex.lens) = ProdSeq(tex.n)
          /\ (tex.nv = 3 => AlphaOK(tex))
          /\ \A k \in DOMAIN tex.lens : tex.lens[k] >= 1
(* the state always shows the charges of its texture *)
C19_ObsIsCharge == act[1] \notin Queries => obs = ObsOf(tex)
(* invariance / antisymmetry along every transition of the symmetry machine *)
C19_Symmetry == [][ act'[1] \in {"rotate_vectors", "rescale_lengths", "scale_mesh", "translate_mesh", "rotate90_sample", "reverse"}
                    => LET sg == IF act'[1] = "reverse" THEN -1 ELSE 1
                       IN obs'.bl = sg * obs.bl /\ obs'.cont = sg * obs.cont ]_vars
(* uniform textures carry no charge, whatever the mask *)
Uniform(t) == \A k \in DOMAIN t.dirs : t.dirs[k] = t.dirs[1]
C19_UniformIsZero == Proper2(tex) /\ Uniform(tex) /\ act[1] \notin Queries => obs.bl = 0 /\ obs.cont = 0
C19_BLIntegerOnWrapping == act[1] \notin Queries /\ obs.wrap => obs.bl % (6 * U(tex)) = 0
(* solid angles: the table of TriAngle is closed on the diagonal alphabet - a non-degenerate *)
(* triangle of body diagonals is half a cube face (dot sum 1) or a tetrahedron face (-3)     *)
Diag8 == {<<a, b, c>> : a \in {-1, 1}, b \in {-1, 1}, c \in {-1, 1}}
C19_TriangleTable == \A a \in Diag8, b \in Diag8, c \in Diag8 :
                        Triple(a, b, c) # 0 => /\ Dot(a, b) + Dot(b, c) + Dot(c, a) \in {1, -3}
                                               /\ Abs(Triple(a, b, c)) = 4
ASSUME C19_TriangleTable
(* neighbour angles: on a mesh one cell shorter, cos in [-1, 1] (angle in [0, pi]) and equal  *)
(* to the dot product of the two unit vectors                                                  *)
C19_NeighbourAngle == act[1] = "angle" =>
      /\ obs.n[act[2]] = tex.n[act[2]] - 1
      /\ \A e \in DOMAIN tex.n : e # act[2] => obs.n[e] = tex.n[e]
      /\ \A e \in DOMAIN tex.n : obs.hi2[e] - obs.lo2[e] = 2 * tex.c[e] * obs.n[e]
      /\ \A k \in DOMAIN obs.cos : /\ RLeq(R(-1), obs.cos[k]) /\ RLeq(obs.cos[k], R(1))
                                   /\ LET i == Unflat(obs.n, k - 1) IN
                                      obs.cos[k][1] * S2(tex) = obs.cos[k][2] * Dot(CellV(tex, i), CellV(tex, Shift(i, act[2], 1)))
(* a single hedgehog is exactly one Bloch point, tail-to-tail; reversed: head-to-head        *)
Hedgehog(t)  == Proper3(t) /\ t.alpha = "D" /\ t.n = <<2, 2, 2>> /\
                \A k \in 1 .. 8 : LET i == Unflat(t.n, k - 1) IN t.dirs[k] = [d \in 1 .. 3 |-> 2 * i[d] - 1]
C19_HedgehogOneBlochPoint == act[1] = "bps" =>
      /\ Hedgehog(tex) => obs.decided /\ obs.total = 1 /\ obs.tt = 1 /\ obs.hh = 0
      /\ Hedgehog(Reversed(tex)) => obs.decided /\ obs.total = 1 /\ obs.tt = 0 /\ obs.hh = 1
      /\ Uniform(tex) => obs.decided /\ obs.total = 0
C19_EmergentUniformZero == act[1] = "emergent" /\ Uniform(tex) => \A k \in DOMAIN obs.f : obs.f[k] = Zero3
=============================================================================
