---------------------------- MODULE C13CoreProof ----------------------------
(* The inductive invariant of spec/C13Core.tla as a machine-checked PROOF (TLAPS, SMT back end): *)
(* Apalache decides the two obligations by symbolic execution of one step; here they are          *)
(* theorems whose proof the proof manager checks (77 obligations).  TLAPS has no types: the       *)
(* invariant is strengthened by "every variable is an integer".  The scaling step is the only     *)
(* non-linear one: |s| and the new cell d = |s| c are named, four facts about products are        *)
(* proved once (MulPos, MulInt, MulAssoc, MulDist), then the definitions are hidden and the rest  *)
(* is linear arithmetic over the products as atoms.                                               *)
(*   tlapm C13CoreProof.tla                                                                       *)
EXTENDS C13Core, TLAPS

TypeInv == lo \in Int /\ hi \in Int /\ n \in Int /\ c \in Int
Inv == TypeInv /\ IndInv

THEOREM InitOK == Init => Inv
  BY DEF Init, Inv, TypeInv, IndInv

LEMMA TranslateOK == Inv /\ Translate => Inv'
  BY DEF Inv, TypeInv, IndInv, Translate

LEMMA HalfTurnOK == Inv /\ HalfTurn => Inv'
  BY DEF Inv, TypeInv, IndInv, HalfTurn

LEMMA MulPos == \A x, y \in Int : (x >= 1 /\ y >= 1) => x * y >= 1
  BY SMTT(30)
LEMMA MulInt == \A x, y \in Int : x * y \in Int
  BY SMTT(30)
LEMMA MulAssoc == \A x, y, z \in Int : x * (y * z) = y * (x * z)
  BY SMTT(30)
LEMMA MulDist == \A x, y, z \in Int : x * (y - z) = x * y - x * z
  BY SMTT(30)

LEMMA ScaleOK == Inv /\ Scale => Inv'
<1> SUFFICES ASSUME Inv, NEW s \in Int, NEW r \in Int, s # 0,
                    lo' = Min2(r + s * (lo - r), r + s * (hi - r)),
                    hi' = Max2(r + s * (lo - r), r + s * (hi - r)),
                    n' = n, c' = Abs(s) * c
             PROVE Inv'
  BY DEF Scale
<1>0. lo \in Int /\ hi \in Int /\ n \in Int /\ c \in Int /\ lo < hi /\ n >= 1 /\ c >= 1 /\ hi - lo = n * c
  BY DEF Inv, TypeInv, IndInv
<1> DEFINE t == Abs(s)
<1>1. t \in Int /\ t >= 1 /\ (s = t \/ s = 0 - t)
  BY DEF Abs
<1> DEFINE d == t * c
<1>2. d \in Int /\ d >= 1 /\ c' = d
  BY <1>0, <1>1, MulPos, MulInt
<1>3. t * (n * c) = n * d /\ n * d \in Int /\ n * d >= 1 /\ n * c \in Int
  BY <1>0, <1>1, <1>2, MulAssoc, MulInt, MulPos
<1>4. t * (hi - lo) = n * d /\ t * (hi - lo) = t * hi - t * lo /\ t * hi \in Int /\ t * lo \in Int /\ t * r \in Int
  BY <1>0, <1>1, <1>3, MulDist, MulInt
<1>5. CASE s = t
  <2>1. r + s * (lo - r) = r + t * lo - t * r /\ r + s * (hi - r) = r + t * hi - t * r
    BY <1>5, <1>0, <1>1, MulDist
  <2> HIDE DEF t, d
  <2>2. lo' = r + t * lo - t * r /\ hi' = r + t * hi - t * r
    BY <2>1, <1>4, <1>3, <1>0, <1>1 DEF Min2, Max2
  <2> QED BY <2>2, <1>0, <1>1, <1>2, <1>3, <1>4 DEF Inv, TypeInv, IndInv
<1>6. CASE s = 0 - t
  <2>1. r + s * (lo - r) = r - t * lo + t * r /\ r + s * (hi - r) = r - t * hi + t * r
    BY <1>6, <1>0, <1>1, MulDist, SMTT(30)
  <2> HIDE DEF t, d
  <2>2. lo' = r - t * hi + t * r /\ hi' = r - t * lo + t * r
    BY <2>1, <1>4, <1>3, <1>0, <1>1 DEF Min2, Max2
  <2> QED BY <2>2, <1>0, <1>1, <1>2, <1>3, <1>4 DEF Inv, TypeInv, IndInv
<1> QED BY <1>1, <1>5, <1>6

THEOREM Inductive == Inv /\ Next => Inv'
  BY TranslateOK, HalfTurnOK, ScaleOK DEF Next
=============================================================================
