------------------------------ MODULE C02Trace ------------------------------
(* Channel T for C02: executions recorded from the real library (random meshes up to   *)
(* 300 cells, random aligned subregions, random specifications) are checked event by   *)
(* event.  `fld` is bound to the OBSERVED array; EvalSpec is recomputed and compared,  *)
(* and the declarative clause CellOK is evaluated on the observed values.  Verdicts    *)
(* are total: a disagreement prints one VERDICT line and the trace goes on.            *)
EXTENDS C02, Json, IOUtils

VARIABLES tid, l
tvars == <<mesh, subs, nv, fld, act, obs, tid, l>>

Traces == JsonDeserialize(IOEnv.TRACE_FILE)
T  == Traces[tid]
Ev == Traces[tid].ev[l + 1]
Verd(c, name) == IF c THEN TRUE ELSE PrintT(<<"VERDICT", Traces[tid].id, l + 1, name>>)

TInit == /\ tid \in 1 .. Len(Traces)
         /\ l = 0
         /\ mesh = Traces[tid].mesh
         /\ subs = Traces[tid].subs
         /\ nv = Traces[tid].nv
         /\ fld = Zero(Traces[tid].mesh, Traces[tid].nv)
         /\ act = <<"new">>
         /\ obs = OkArr(fld, {})

(* the observed array agrees with EvalSpec up to the admissible alternatives *)
AgreesWith(exp, arr) == /\ Len(arr) = Len(exp.arr)
                        /\ \A q \in DOMAIN arr : arr[q] = exp.arr[q] \/ <<q, arr[q]>> \in exp.extra

StepSet == /\ Ev.k = "set"
           /\ LET exp == EvalSpec(mesh, subs, nv, Ev.sp) IN
                /\ Verd(exp.ok => Ev.ok, "accepts-defined-spec")
                /\ Verd((~exp.ok /\ exp.must) => ~Ev.ok, "C02_BadRejected")
                /\ Verd(Ev.ok => Ev.shape, "C02_Shape")
                /\ Verd((Ev.ok /\ exp.ok /\ Ev.shape) => (Ev.exact /\ ~Ev.offlat), "values-on-lattice")
                /\ Verd((Ev.ok /\ exp.ok /\ Ev.shape /\ Ev.exact) => AgreesWith(exp, Ev.arr), "spec-operator")
                /\ Verd((Ev.ok /\ exp.ok /\ Ev.shape /\ Ev.exact) => ArrayOK(mesh, subs, nv, Ev.sp, Ev.arr),
                        IF Ev.sp.k = "dict" THEN "C02_FirstListedWins" ELSE "C02_CellwiseSpec")
                /\ Verd(~Ev.ok => Ev.unchanged, "C02_RejectLeavesUnchanged")
                /\ act' = <<"set", Ev.sp>>
                /\ obs' = IF Ev.ok THEN OkArr(Ev.arr, {}) ELSE Rej(FALSE)
                /\ fld' = IF Ev.ok /\ Ev.shape /\ Ev.exact THEN Ev.arr ELSE fld
StepBad == /\ Ev.k = "bad"
           /\ LET exp == EvalSpec(mesh, subs, nv, Ev.sp) IN
                /\ Verd(~exp.ok /\ exp.must /\ WrongSpec(mesh, nv, Ev.sp), "driver-bad-spec-is-wrong")
                /\ Verd(~Ev.ok, "C02_BadRejected")
                /\ Verd(~Ev.ok => Ev.unchanged, "C02_RejectLeavesUnchanged")
                /\ act' = <<"bad", Ev.sp>>
                /\ obs' = Rej(TRUE)
                /\ UNCHANGED fld
StepCall == /\ Ev.k = "call"
            /\ LET r == CallResult(mesh, fld, Ev.p) IN
                 /\ Verd(Inside(mesh, Ev.p) => Ev.ok, "sample-inside-accepted")
                 /\ Verd((Ev.ok /\ Inside(mesh, Ev.p)) => Ev.exact, "sample-on-lattice")
                 /\ Verd((Ev.ok /\ Ev.exact /\ Inside(mesh, Ev.p)) => IF T.dy THEN Ev.v = r.v ELSE Ev.v \in r.alt, "C02_SampleIsCell")
            /\ act' = <<"call", Ev.p>>
            /\ obs' = Ev.v
            /\ UNCHANGED fld
StepComp == /\ Ev.k = "comp"
            /\ Verd(Ev.exact /\ Ev.col = Component(fld, Ev.c), "C02_ComponentColumn")
            /\ act' = <<"component", Ev.c>>
            /\ obs' = Ev.col
            /\ UNCHANGED fld
StepIter == /\ Ev.k = "iter"
            /\ Verd(Ev.exact /\ Ev.rows = fld, "C02_IterOrder")
            /\ act' = <<"iterate">>
            /\ obs' = Ev.rows
            /\ UNCHANGED fld
StepLine == /\ Ev.k = "line"
            /\ LET r == LineResult(mesh, fld, Ev.p1, Ev.p2, Ev.n) IN
                 /\ Verd(Ev.ok, "line-inside-accepted")
                 /\ Verd(Ev.ok => Ev.cnt = Ev.n, "C02_LineCount")
                 /\ Verd((Ev.ok /\ Ev.cnt = Ev.n) => (Ev.exact /\ Ev.pts = r.pts), "C02_LineEndpointsInclusive")
                 /\ Verd((Ev.ok /\ Ev.cnt = Ev.n) => (Ev.d2ok /\ Ev.d2 = r.d2), "C02_LineDistance")
                 /\ Verd((Ev.ok /\ Ev.cnt = Ev.n /\ Ev.exact /\ Ev.pts = r.pts) =>
                            \A j \in 1 .. Ev.n : IF Ev.strict THEN Ev.vals[j] = r.vals[j] ELSE Ev.vals[j] \in r.alts[j],
                         "C02_LineValues")
            /\ act' = <<"line", Ev.p1, Ev.p2, Ev.n>>
            /\ obs' = Ev.vals
            /\ UNCHANGED fld

(* a query of the history raised an exception inside the library *)
StepRaise == /\ Ev.k = "raise"
             /\ Verd(FALSE, "call-raises")
             /\ act' = <<"raise">>
             /\ UNCHANGED <<fld, obs>>

TNext == /\ l < Len(Traces[tid].ev)
         /\ (StepSet \/ StepBad \/ StepCall \/ StepComp \/ StepIter \/ StepLine \/ StepRaise)
         /\ l' = l + 1
         /\ UNCHANGED <<mesh, subs, nv, tid>>
TSpec == TInit /\ [][TNext]_tvars
=============================================================================
