SPECIFICATION TSpec
CONSTANTS
  Scenarios = {}
  Acts = {}
  MaxDepth = 0
  MaxFields = 3
  AllowAlias = "all"
  TransVs = {}
  ScaleFs = {}
  RotKs = {}
  RotRefs = {}
  RotPairs = {}
  Rich = FALSE
  LastFresh = FALSE
  PadSpecs = {}
  Masks = {}
  Nums = {}
CHECK_DEADLOCK FALSE
