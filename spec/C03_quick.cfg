SPECIFICATION Spec
CONSTANTS
  Pool <- PoolDef
  InitSet <- Init_quick
  Ops <- OpsC03
  DeepOps <- OpsC03
  MaskPats <- NoMasks
  PadModes <- NoModes
  RotKs <- NoKs
CHECK_DEADLOCK FALSE
INVARIANT TypeOK
INVARIANT C03_Cellwise
INVARIANT C03_AngleNorm
INVARIANT C03_OperandsUnchangedInv
INVARIANT C03_Commutes
INVARIANT C03_StackComponents
INVARIANT C03_RejectMismatch
INVARIANT C03_RejectOnlyMismatch
INVARIANT C03_ResultWellFormed
PROPERTY C03_OperandsUnchanged
