------------------------------ MODULE MC_C19 ------------------------------
EXTENDS C19

AxisDir(k) == CASE k = 0 -> <<1, 0, 0>> [] k = 1 -> <<0, 1, 0>> [] k = 2 -> <<0, 0, 1>>
                [] k = 3 -> <<-1, 0, 0>> [] k = 4 -> <<0, -1, 0>> [] k = 5 -> <<0, 0, -1>>
DiagDir(k) == <<IF k % 2 = 0 THEN 1 ELSE -1, IF (k \div 2) % 2 = 0 THEN 1 ELSE -1, IF (k \div 4) % 2 = 0 THEN 1 ELSE -1>>
Dir(alpha, k) == IF alpha = "A" THEN AxisDir(k % 6) ELSE DiagDir(k % 8)
Pseudo(seed, k) == seed * 7 + k * 5 + seed * k * 3 + ((k * k + seed) % 7) + ((seed * seed + k) % 5)

AllValid(n) == [k \in 1 .. ProdSeq(n) |-> TRUE]
Ones(n)     == [k \in 1 .. ProdSeq(n) |-> 1]
Tex(n, c, lo, alpha, dirs, valid) ==
   [nv |-> 3, n |-> n, c |-> c, lo |-> lo, alpha |-> alpha, dirs |-> dirs, lens |-> Ones(n), valid |-> valid]
(* pseudo-random texture number `seed`; `holes` cells are invalid *)
Rnd(n, c, lo, alpha, seed, holes) ==
   Tex(n, c, lo, alpha, [k \in 1 .. ProdSeq(n) |-> Dir(alpha, Pseudo(seed, k))],
       [k \in 1 .. ProdSeq(n) |-> ~(\E h \in 1 .. holes : k = ((seed * (h + 2) + h * h) % ProdSeq(n)) + 1)])

(* F1: every 2x2 axis texture whose first cell is +z (the orbit under RotateVectors gives the rest) *)
F1(S3) == {Tex(<<2, 2>>, <<2, 2>>, <<0, 0>>, "A", <<AxisDir(2), AxisDir(a), AxisDir(b), AxisDir(c)>>, AllValid(<<2, 2>>))
             : a \in 0 .. 5, b \in 0 .. 5, c \in S3}
F2(K) == {Rnd(<<3, 2>>, <<2, 3>>, <<-4, 6>>, "A", s, s % 2) : s \in 1 .. K}
F3(K) == {Rnd(<<3, 3>>, <<2, 2>>, <<1, 1>>, "A", s, s % 3) : s \in 1 .. K}
         \cup {Rnd(<<3, 3>>, <<1, 3>>, <<0, -5>>, "A", s + 100, 0) : s \in 1 .. (K \div 3)}
F4(S) == {Tex(<<2, 2>>, <<1, 3>>, <<0, 2>>, "D", <<DiagDir(0), DiagDir(a), DiagDir(b), DiagDir(c)>>, AllValid(<<2, 2>>))
             : a \in S, b \in 0 .. 7, c \in 0 .. 7}
F4s == {Tex(<<2, 2>>, <<1, 3>>, <<0, 2>>, "D", <<DiagDir(0), DiagDir(1), DiagDir(b), DiagDir(c)>>, AllValid(<<2, 2>>))
             : b \in 0 .. 7, c \in {0, 3, 5}}
F5(K) == {Rnd(<<3, 3>>, <<2, 2>>, <<-2, 0>>, "D", s, s % 2) : s \in 1 .. K}
F6(K) == {Rnd(<<4, 3>>, <<3, 4>>, <<2, 2>>, "A", s, s % 3) : s \in 1 .. K}
         \cup {Rnd(<<5, 4>>, <<2, 1>>, <<0, 0>>, "D", s, (s + 1) % 3) : s \in 1 .. (K \div 2)}
(* F7: 5x5, boundary +z, centre -z, the ring of eight in-plane: candidates for whole-number wrapping *)
RingPos == <<<<3, 2>>, <<3, 3>>, <<2, 3>>, <<1, 3>>, <<1, 2>>, <<1, 1>>, <<2, 1>>, <<3, 1>>>>     \* 0-based cells, counter-clockwise
RingOpt == <<<<0, 1>>, <<0, 1>>, <<1, 3>>, <<1, 3>>, <<3, 4>>, <<3, 4>>, <<4, 0>>, <<4, 0>>>>              \* admissible axis directions
F7(Free) == {Tex(<<5, 5>>, <<2, 2>>, <<0, 0>>, "A",
                 MkArr(<<5, 5>>, LAMBDA i : IF i = <<2, 2>> THEN AxisDir(5)
                                           ELSE IF \E r \in 1 .. 8 : RingPos[r] = i
                                                THEN LET r == CHOOSE q \in 1 .. 8 : RingPos[q] = i
                                                     IN AxisDir(RingOpt[r][IF r \in Free THEN ch[r] ELSE 1])
                                                ELSE AxisDir(2)),
                 AllValid(<<5, 5>>))
             : ch \in [1 .. 8 -> 1 .. 2]}
(* uniform textures with and without holes *)
FU == {Tex(<<3, 3>>, <<2, 2>>, <<0, 0>>, "A", [k \in 1 .. 9 |-> AxisDir(a)], AllValid(<<3, 3>>)) : a \in {0, 5}}
      \cup {[Rnd(<<3, 3>>, <<2, 2>>, <<0, 0>>, "D", 1, 2) EXCEPT !.dirs = [k \in 1 .. 9 |-> DiagDir(3)]]}

(* 3-d textures *)
Hedge == Tex(<<2, 2, 2>>, <<2, 1, 3>>, <<0, 0, 0>>, "D", MkArr(<<2, 2, 2>>, LAMBDA i : [d \in 1 .. 3 |-> 2 * i[d] - 1]), AllValid(<<2, 2, 2>>))
HedgeCubic == [Hedge EXCEPT !.c = <<2, 2, 2>>, !.lo = <<-2, -2, -2>>]
F8(K) == {Hedge, Reversed(Hedge), HedgeCubic, Reversed(HedgeCubic),
          Tex(<<2, 2, 2>>, <<2, 2, 2>>, <<0, 0, 0>>, "D", [k \in 1 .. 8 |-> DiagDir(5)], AllValid(<<2, 2, 2>>)),
          Tex(<<3, 2, 2>>, <<2, 2, 2>>, <<0, 0, 0>>, "A", [k \in 1 .. 12 |-> AxisDir(1)], AllValid(<<3, 2, 2>>))}
         \cup {Rnd(<<2, 2, 2>>, <<2, 2, 2>>, <<0, 4, 0>>, "D", s, 0) : s \in 1 .. K}
         \cup {Rnd(<<3, 2, 2>>, <<2, 1, 3>>, <<-6, 0, 1>>, "A", s, 0) : s \in 1 .. K}
         \cup {Rnd(<<3, 3, 2>>, <<1, 2, 2>>, <<0, 0, 0>>, "D", s, 0) : s \in 1 .. (K \div 2)}
         \cup {Relen(Rnd(<<2, 3, 2>>, <<3, 2, 1>>, <<1, 1, 1>>, "A", s, 0), <<2, 1, 3>>) : s \in 1 .. (K \div 2)}
         \cup {Relen(Hedge, <<5, 2>>)}
(* fields the tools must refuse *)
BadTex(nv, n) == [nv |-> nv, n |-> n, c |-> [d \in DOMAIN n |-> 2], lo |-> [d \in DOMAIN n |-> 0], alpha |-> "A",
                  dirs |-> [k \in 1 .. ProdSeq(n) |-> [j \in 1 .. nv |-> 1]], lens |-> Ones(n), valid |-> AllValid(n)]
FBad == {BadTex(1, <<3, 2>>), BadTex(2, <<3, 2>>), BadTex(4, <<2, 2>>), BadTex(1, <<2, 2, 2>>), BadTex(2, <<2, 3, 2>>), BadTex(4, <<2, 2, 2>>)}

TexSet_quick    == F1({2}) \cup F2(12) \cup F3(12) \cup F4s \cup F5(8) \cup F6(4) \cup F7({1, 2, 4, 5, 7}) \cup FU \cup F8(4) \cup FBad
TexSet_thorough == F1({0, 2, 4}) \cup F2(40) \cup F3(40) \cup F4({1, 6}) \cup F5(30) \cup F6(12) \cup F7({1, 2, 3, 4, 5, 7, 8}) \cup FU \cup F8(16) \cup FBad
TexSet_deep     == F2(4) \cup F3(4) \cup F5(2) \cup F6(2)
RotIdx_quick == {1, 4, 7, 10, 13, 16, 19, 22}
RotIdx_all   == 0 .. 23
LenPats_all == {<<1>>, <<2, 1, 3>>, <<5, 2>>}
=============================================================================
