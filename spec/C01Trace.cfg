SPECIFICATION TSpec
CONSTANTS
  MaxN = 1
  CProf = {}
  LoProf = {}
  CellReq = {}
  MoveMaxDim = 0
CHECK_DEADLOCK FALSE
