SPECIFICATION TSpec
CONSTANTS
  MaxN = 1
  CProf = {}
  LoProf = {}
  CellReq = {}
CHECK_DEADLOCK FALSE
