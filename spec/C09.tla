-------------------------------- MODULE C09 --------------------------------
(* C09 - OVF files round-trip fields and follow the OVF 1.0/2.0 format; damaged binary  *)
(* files are rejected.                                                                  *)
(*                                                                                      *)
(* State: one field on a 3-d mesh (`fld`), at most one file (`file`), the last public   *)
(* call (`act`) and what it must return (`obs`).  A file is a *token sequence*          *)
(*     Header(fields) o [Check] o Data o Footer   (+ the side-car with the subregions)  *)
(* Header numbers are lattice integers (harness/embed.py turns them into floats), data  *)
(* tokens are value *ids* from a finite pool which the harness interprets as extreme    *)
(* floats; the specification only says which relation must hold between a written and a *)
(* read id (Same / F32Round / Rel1e-9, by representation) and in which ORDER the tokens  *)
(* stand in the file (x fastest, then y, then z; the components of a node adjacent).    *)
(* Arrays follow spec/Cells.tla (flat, first dimension fastest).                        *)
EXTENDS Cells, TLC

CONSTANTS Fields,        \* set of field records (MC_C09.tla)
          FaultFields,   \* subset of Fields whose files are damaged in every possible way
          ZeroId,        \* the id of 0.0 (extend_scalar fills with it)
          HdrCuts,       \* sampled cut positions inside the header (quarters of its lines)
          ExciseMax      \* largest number of whole values missing from a data block whose footer is kept

VARIABLES fld, file, act, obs
vars == <<fld, file, act, obs>>

None   == "<none>"                 \* "no unit"
Reprs  == {"bin8", "bin4", "txt"}
Styles == {"plain", "prefixed", "minimal"}
RelOf(repr) == CASE repr = "bin8" -> "Same" [] repr = "bin4" -> "F32Round" [] repr = "txt" -> "Rel1e-9"

Rej   == [st |-> "rej"]
Free   == [st |-> "any"]            \* outcome not constrained by the property
Ok(v) == [st |-> "ok", v |-> v]

M(f)     == [lo |-> f.lo, c |-> f.c, n |-> f.n]
HiOf(f)  == [d \in 1 .. 3 |-> Hi(M(f), d)]
Unique(s) == Cardinality({s[k] : k \in DOMAIN s}) = Len(s)
RECURSIVE Cat(_)
Cat(ss) == IF ss = <<>> THEN <<>> ELSE Head(ss) \o Cat(Tail(ss))

(* ---- writing: what the FORMAT demands ---------------------------------------------- *)
WDim(f, ext) == IF ext /\ f.nv = 1 THEN 3 ELSE f.nv
(* extend_scalar: the value X of a scalar field is stored as (X, 0, 0); no effect otherwise *)
NodeComps(f, ext, i) == LET v == At(f.n, f.vals, i)
                        IN IF ext /\ f.nv = 1 THEN <<v[1], ZeroId, ZeroId>> ELSE v
(* like the writer: z slowest, then y, then x, the components of a node together *)
RowX(f, ext, iy, iz) == Cat([jx \in 1 .. f.n[1] |-> NodeComps(f, ext, <<jx - 1, iy, iz>>)])
PlaneXY(f, ext, iz)  == Cat([jy \in 1 .. f.n[2] |-> RowX(f, ext, jy - 1, iz)])
DataOf(f, ext)       == Cat([jz \in 1 .. f.n[3] |-> PlaneXY(f, ext, jz - 1)])

UnitTok(u) == IF u = None THEN "None" ELSE u      \* how the library spells "no unit" in a file
HdrOf(f, wd, labels, units) ==
   [meshunit |-> f.munit,
    base  |-> [d \in 1 .. 3 |-> f.lo[d] + f.c[d] \div 2],       \* centre of the first cell
    step  |-> f.c,  nodes |-> f.n,  min |-> f.lo,  max |-> HiOf(f),
    valuedim |-> wd, labels |-> labels, units |-> units]
NoCut == <<"none", 0, FALSE>>

OwnLabels(f, ext) == [k \in 1 .. WDim(f, ext) |->
                        [p |-> "field", l |-> IF f.nv = 1 THEN "x" ELSE f.labels[k]]]
OwnFile(f, repr, ext) ==
   [by |-> <<"own", repr, ext>>, ver |-> 2, repr |-> repr,
    hdr |-> HdrOf(f, WDim(f, ext), OwnLabels(f, ext), [k \in 1 .. WDim(f, ext) |-> UnitTok(f.unit)]),
    check |-> IF repr = "txt" THEN "none" ELSE "ok", bit |-> -1,
    data |-> DataOf(f, ext), side |-> f.subs, cut |-> NoCut,
    lj |-> f.nv > 1,                      \* labels are judged for vector fields
    over |-> FALSE]                       \* written onto a path that held another field's file and side-car

(* an independent writer (OVF 1.0: three components, big-endian binary, valueunit;      *)
(* OVF 2.0: label styles  plain `mx`, prefixed `Magnetization_mx` + a single unit entry, *)
(* minimal = no base/labels/units lines and a lower-case data line); no side-car        *)
FLabels(f, ver, style) == IF ver = 1 \/ style = "minimal" THEN <<>>
                          ELSE [k \in 1 .. f.nv |-> [p |-> IF style = "plain" THEN "" ELSE "Magnetization",
                                                      l |-> IF f.nv = 1 THEN "x" ELSE f.labels[k]]]
FUnits(f, ver, style) == IF ver = 1 THEN <<IF f.unit = None THEN "1" ELSE f.unit>>     \* valueunit is mandatory in OVF 1.0
                         ELSE IF style = "minimal" \/ f.unit = None THEN <<>>
                         ELSE IF style = "prefixed" THEN <<f.unit>>
                         ELSE [k \in 1 .. f.nv |-> f.unit]
ForeignFile(f, ver, repr, style) ==
   [by |-> <<"foreign", ver, repr, style>>, ver |-> ver, repr |-> repr,
    hdr |-> HdrOf(f, f.nv, FLabels(f, ver, style), FUnits(f, ver, style)),
    check |-> IF repr = "txt" THEN "none" ELSE "ok", bit |-> -1,
    data |-> DataOf(f, FALSE), side |-> <<>>, cut |-> NoCut,
    (* a foreign `m_x` is turned into `x` on purpose; only plain words are the writer's labels as they stand *)
    lj |-> ver = 2 /\ style = "plain" /\ f.nv > 1 /\ f.lclass \in {"plain", "multi"}, over |-> FALSE]

(* ---- damage ------------------------------------------------------------------------ *)
Binary(fl)   == fl.repr # "txt"
Expected(fl) == ProdSeq(fl.hdr.nodes) * fl.hdr.valuedim
(* cut = <<section, k, inside>>: everything before the position is kept.                *)
(*   hdr j    after j quarters of the header lines (inside: in the middle of the next line) *)
(*   begin    in the middle of the `# Begin: Data ..` line                              *)
(*   check    immediately before (inside: in the middle of) the check value             *)
(*   data k   after k complete data values (inside: plus a part of value k+1)           *)
(*   foot j   after the newline that ends the data and j footer lines (inside: in line j+1) *)
(*   excise k NOT a truncation: the last k data values (inside: and a part of one more) are   *)
(*            missing from the data block, the footer lines are all there (a reader that only   *)
(*            counts bytes takes the footer for values).  k = 0 only with a part of a value.    *)
(*            The class is realised by EVERY number of missing bytes it contains, so also by    *)
(*            the one where the footer fills the hole exactly and the file ends where a         *)
(*            complete one ends.  Not asked: a hole so small that the white space after the     *)
(*            block fills it -- the file then is a complete file of the layout without that     *)
(*            white space (mumax3 writes none) whose last value ends in these bytes.            *)
CutsOf(fl) ==
   {<<"hdr", j, b>> : j \in HdrCuts, b \in BOOLEAN} \cup {<<"begin", 0, TRUE>>}
   \cup (IF Binary(fl) THEN {<<"check", 0, FALSE>>, <<"check", 0, TRUE>>} ELSE {})
   \cup {<<"data", k, FALSE>> : k \in 0 .. Len(fl.data)}
   \cup {<<"data", k, TRUE>> : k \in 0 .. (Len(fl.data) - 1)}
   \cup {<<"foot", j, b>> : j \in 0 .. 1, b \in BOOLEAN}
   \cup (IF Binary(fl) THEN {<<"excise", k, b>> : k \in 0 .. Min2(ExciseMax, Len(fl.data) - 1), b \in BOOLEAN}
                              \ {<<"excise", 0, FALSE>>} ELSE {})
BeginIntact(fl)  == fl.cut[1] \notin {"hdr", "begin"}
CompleteVals(fl) == CASE fl.cut[1] \in {"hdr", "begin", "check"} -> 0
                      [] fl.cut[1] = "data" -> fl.cut[2]
                      [] fl.cut[1] = "excise" -> Len(fl.data) - fl.cut[2] - (IF fl.cut[3] THEN 1 ELSE 0)
                      [] OTHER -> Len(fl.data)
CheckSeen(fl)    == IF fl.cut[1] \in {"hdr", "begin", "check"} THEN "missing" ELSE fl.check
(* a binary file whose check value is wrong or whose data block is short *)
Damaged(fl) == Binary(fl) /\ BeginIntact(fl) /\ (CheckSeen(fl) # "ok" \/ CompleteVals(fl) < Expected(fl))

(* ---- reading ----------------------------------------------------------------------- *)
UnitOfToks(us) == IF us = <<>> \/ Cardinality({us[k] : k \in DOMAIN us}) # 1 THEN None
                  ELSE IF us[1] = "None" THEN None ELSE us[1]
Names(ls) == [k \in DOMAIN ls |-> ls[k].l]
(* labels are judged where the property speaks about them: vector fields whose file labels  *)
(* are the writer's own `field_<label>` or plain words; everything else is recorded only     *)
LabelsOf(fl) == IF fl.lj THEN [j |-> TRUE, v |-> Names(fl.hdr.labels)] ELSE [j |-> FALSE, v |-> <<>>]
Decode(fl) ==
   LET n  == [d \in 1 .. 3 |-> (fl.hdr.max[d] - fl.hdr.min[d]) \div fl.hdr.step[d]]   \* mesh from corners and cell
       wd == fl.hdr.valuedim
   IN [lo |-> fl.hdr.min, hi |-> fl.hdr.max, n |-> n, munit |-> fl.hdr.meshunit, nv |-> wd,
       unit |-> IF fl.ver = 1 THEN [j |-> FALSE, v |-> None] ELSE [j |-> TRUE, v |-> UnitOfToks(fl.hdr.units)],
       labels |-> LabelsOf(fl), subs |-> fl.side, rel |-> RelOf(fl.repr),
       (* reshape (nz, ny, nx, wd), transpose to (nx, ny, nz, wd) *)
       vals |-> MkArr(n, LAMBDA i : [c \in 1 .. wd |->
                         fl.data[((i[3] * n[2] + i[2]) * n[1] + i[1]) * wd + c]])]
ReadResult(fl) == IF Damaged(fl) THEN Rej
                  ELSE IF fl.cut # NoCut THEN Free
                  ELSE Ok(Decode(fl))

(* ---- the property, clause by clause, as predicates (also used by C09Trace) ---------- *)
(* what Field.from_file returned for the library's own file of field f; one predicate   *)
(* per attribute the property lists                                                     *)
RT_Geo(f, out)    == out.v.lo = f.lo /\ out.v.hi = HiOf(f) /\ out.v.n = f.n
RT_MUnit(f, out)  == out.v.munit = f.munit
RT_NV(f, ext, out) == out.v.nv = WDim(f, ext)
RT_Unit(f, out)   == out.v.unit.j /\ out.v.unit.v = f.unit
RT_Labels(f, out) == f.nv > 1 => (out.v.labels.j /\ out.v.labels.v = f.labels)
RT_Subs(f, out)   == out.v.subs = f.subs
RT_Vals(f, repr, ext, out) ==
   /\ out.v.rel = RelOf(repr)
   /\ Len(out.v.vals) = NCells(M(f))
   /\ \A i \in Indices(M(f)) : \A c \in 1 .. WDim(f, ext) :
         At(f.n, out.v.vals, i)[c] = IF c <= f.nv THEN At(f.n, f.vals, i)[c] ELSE ZeroId
RoundTripOK(f, repr, ext, out) ==
   /\ out.st = "ok"
   /\ RT_Geo(f, out) /\ RT_MUnit(f, out) /\ RT_NV(f, ext, out) /\ RT_Unit(f, out) /\ RT_Labels(f, out)
   /\ RT_Subs(f, out) /\ RT_Vals(f, repr, ext, out)
(* what an independent reader finds in the library's file of field f *)
FI_Struct(f, repr, ext, fl) ==
   /\ fl.ver = 2 /\ fl.repr = repr
   /\ fl.check = IF repr = "txt" THEN "none" ELSE "ok"
   /\ fl.hdr.valuedim = WDim(f, ext)
   /\ Len(fl.hdr.labels) = fl.hdr.valuedim /\ Len(fl.hdr.units) = fl.hdr.valuedim
   /\ Len(fl.data) = NCells(M(f)) * WDim(f, ext)
FI_Mesh(f, fl) ==
   /\ fl.hdr.meshunit = f.munit /\ fl.hdr.nodes = f.n /\ fl.hdr.step = f.c
   /\ fl.hdr.min = f.lo /\ fl.hdr.max = HiOf(f)
   /\ \A d \in 1 .. 3 : /\ 2 * fl.hdr.base[d] = 2 * f.lo[d] + f.c[d]
                        /\ fl.hdr.min[d] + fl.hdr.nodes[d] * fl.hdr.step[d] = fl.hdr.max[d]
(* node (ix, iy, iz) is record ix + nx (iy + ny iz): x fastest *)
FI_Data(f, ext, fl) ==
   /\ Len(fl.data) = NCells(M(f)) * WDim(f, ext)
   /\ \A i \in Indices(M(f)) : \A c \in 1 .. WDim(f, ext) :
         fl.data[(i[1] + f.n[1] * (i[2] + f.n[2] * i[3])) * WDim(f, ext) + c]
            = IF c <= f.nv THEN At(f.n, f.vals, i)[c] ELSE ZeroId
FileIsOVF2(f, repr, ext, fl) == FI_Struct(f, repr, ext, fl) /\ FI_Mesh(f, fl) /\ FI_Data(f, ext, fl)
(* what Field.from_file returned for the independent writer's file with the content of f *)
FO_Unit(f, ver, style, out) ==
   /\ out.v.unit.j => out.v.unit.v = IF style = "minimal" THEN None ELSE f.unit
   /\ (ver = 2 /\ style # "minimal") => out.v.unit.j
FO_Labels(f, ver, style, out) ==
   /\ out.v.labels.j => out.v.labels.v = f.labels
   /\ (ver = 2 /\ style = "plain" /\ f.nv > 1 /\ f.lclass \in {"plain", "multi"}) => out.v.labels.j
FO_Vals(f, repr, out) ==
   /\ out.v.rel = RelOf(repr)
   /\ Len(out.v.vals) = NCells(M(f))
   /\ \A i \in Indices(M(f)) : At(f.n, out.v.vals, i) = At(f.n, f.vals, i)
ForeignOK(f, ver, repr, style, out) ==
   /\ out.st = "ok"
   /\ RT_Geo(f, out) /\ RT_MUnit(f, out) /\ out.v.nv = f.nv
   /\ FO_Unit(f, ver, style, out) /\ FO_Labels(f, ver, style, out) /\ FO_Vals(f, repr, out)
DamagedRejected(fl, out) == Damaged(fl) => out.st = "rej"

(* ---- actions ----------------------------------------------------------------------- *)
NoFile == [by |-> <<"none">>]
Init == fld \in Fields /\ file = NoFile /\ act = <<"new">> /\ obs = [st |-> "new"]

(* Field.to_file(name, representation, extend_scalar) *)
Write == \E repr \in Reprs, ext \in BOOLEAN :
            /\ act[1] = "new"
            /\ file' = OwnFile(fld, repr, ext)
            /\ act' = <<"write", repr, ext>>
            /\ obs' = [st |-> "written"]
            /\ UNCHANGED fld
(* the same call on a path that already holds the file AND the side-car of another field: *)
(* the new file and its side-car describe the new field only                              *)
WriteOver == \E repr \in {"bin8", "txt"} :
            /\ act[1] = "new"
            /\ file' = [OwnFile(fld, repr, FALSE) EXCEPT !.over = TRUE]
            /\ act' = <<"writeover", repr, FALSE>>
            /\ obs' = [st |-> "written"]
            /\ UNCHANGED fld
ForeignWrite == \E ver \in {1, 2}, repr \in Reprs, style \in Styles :
            /\ act[1] = "new"
            /\ ver = 1 => (fld.nv = 3 /\ style = "plain")
            /\ style = "prefixed" => fld.lclass \in {"plain", "multi"}
            /\ file' = ForeignFile(fld, ver, repr, style)
            /\ act' = <<"foreign", ver, repr, style>>
            /\ obs' = [st |-> "written"]
            /\ UNCHANGED fld
Truncate == /\ act[1] \in {"write", "foreign"} /\ fld \in FaultFields
            /\ \E cut \in CutsOf(file) :
                  /\ file' = [file EXCEPT !.cut = cut]
                  /\ act' = <<"truncate", cut>>
            /\ obs' = [st |-> "damaged"]
            /\ UNCHANGED fld
CorruptCheck == /\ act[1] \in {"write", "foreign"} /\ fld \in FaultFields
            /\ Binary(file)
            /\ \E bit \in 0 .. (IF file.repr = "bin4" THEN 31 ELSE 63) :
                  /\ file' = [file EXCEPT !.check = "bad", !.bit = bit]
                  /\ act' = <<"corrupt", bit>>
            /\ obs' = [st |-> "damaged"]
            /\ UNCHANGED fld
(* Field.from_file(name) *)
Read == /\ act[1] \in {"write", "writeover", "foreign", "truncate", "corrupt"}
        /\ act' = <<"read">>
        /\ obs' = ReadResult(file)
        /\ UNCHANGED <<fld, file>>

Next == Write \/ WriteOver \/ ForeignWrite \/ Truncate \/ CorruptCheck \/ Read
Spec == Init /\ [][Next]_vars

(* ---- invariants -------------------------------------------------------------------- *)
FieldOK(f) == /\ MeshOK(M(f)) /\ Len(f.n) = 3 /\ f.nv >= 1
              /\ Len(f.vals) = NCells(M(f)) /\ \A k \in DOMAIN f.vals : Len(f.vals[k]) = f.nv
              /\ (f.nv > 1 => Len(f.labels) = f.nv /\ Unique(f.labels))
              /\ \A k \in DOMAIN f.subs : BoxOK(f.subs[k]) /\ BoxInMesh(f.subs[k], M(f)) /\ BoxAligned(f.subs[k], M(f))
TypeOK == /\ FieldOK(fld) /\ FaultFields \subseteq Fields
          /\ file.by[1] \in {"none", "own", "foreign"}
          /\ file.by[1] # "none" => (file.repr \in Reprs /\ Len(file.data) = Expected(file))
Intact == file.by[1] # "none" /\ file.cut = NoCut /\ file.check # "bad"

C09_RoundTrip == (act[1] = "read" /\ file.by[1] = "own" /\ Intact) => RoundTripOK(fld, file.by[2], file.by[3], obs)
C09_FileIsOVF2 == act[1] \in {"write", "writeover"} => FileIsOVF2(fld, act[2], act[3], file)
C09_ReadsForeign == (act[1] = "read" /\ file.by[1] = "foreign" /\ Intact)
                       => ForeignOK(fld, file.by[2], file.by[3], file.by[4], obs)
C09_DamagedBinaryRejected == act[1] = "read" => DamagedRejected(file, obs)
(* bookkeeping: the damage classes really occur, and a complete intact file is never "damaged" *)
C09_IntactNotDamaged == Intact => ~Damaged(file)
C09_CheckBitsAllDamage == act[1] = "corrupt" => Damaged(file)
=============================================================================
