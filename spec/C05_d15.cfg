SPECIFICATION Spec
CONSTANTS
  TableND <- NoneSet
  TableNV <- NoneSet
  MeshCfgs <- NoneSet
  RotCfgs <- Rot_quick
  RotK <- RotK_quick
CHECK_DEADLOCK FALSE
INVARIANT D15_TodaysLaplaceMappingCommutes
