-------------------------------- MODULE C15 --------------------------------
(* C15 - setting a norm rescales non-zero vectors only; orientation is the unit field.  *)
(*                                                                                     *)
(* A cell value is a pair [v, s]: an integer direction vector v whose Euclidean length  *)
(* is an integer (3-4-0, 2-3-6, 1-2-2, ... so that no square root is needed) and an    *)
(* exact rational scale s = <<num, den>> >= 0; the vector stored by the library is     *)
(* v * s * U, where U is the magnitude class of the field (`mag`: "V" for raw values,   *)
(* "N" after a norm has been set) -- magnitude classes (1e-6, 1, 1e150, ...) are        *)
(* embeddings of the value axis chosen by the harness.                                 *)
(*                                                                                     *)
(* State: mesh, component count, the value array, its magnitude class, the validity     *)
(* mask, the history of modifying calls since construction (replayed by the harness on  *)
(* ONE field object), the last call and its observation.                               *)
EXTENDS Cells, TLC

CONSTANTS MeshSet,     \* meshes [lo, c, n]
          NVSet,       \* component counts
          PatSet,      \* value patterns (shifts into the vector pool)
          NormKinds,   \* kinds of norm specification
          MaxHist,     \* number of modifying calls explored after construction
          MaxQHist     \* queries are issued from states with at most this many modifying calls

VARIABLES mesh, nv, p0, v0, val, mag, valid, hist, act, obs
vars == <<mesh, nv, p0, v0, val, mag, valid, hist, act, obs>>

(* ---- vectors of integer length --------------------------------------------------------- *)
Pool(nvv) == CASE nvv = 1 -> << <<3>>, <<0>>, <<-2>>, <<5>>, <<1>> >>
               [] nvv = 2 -> << <<3, 4>>, <<0, 0>>, <<0, -5>>, <<-8, 6>>, <<5, 12>> >>
               [] nvv = 3 -> << <<3, 4, 0>>, <<0, 0, 0>>, <<0, 0, 5>>, <<2, 3, 6>>, <<1, 2, 2>>, <<-4, 0, 3>> >>
               [] nvv = 4 -> << <<1, 1, 1, 1>>, <<0, 0, 0, 0>>, <<1, 2, 2, 4>>, <<-2, 4, 5, -6>>, <<0, 0, -7, 0>> >>
(* integer square root by bisection: the largest r in lo..hi with r*r <= x *)
RECURSIVE ISqrtB(_, _, _)
ISqrtB(x, lo, hi) == IF lo = hi THEN lo
                     ELSE LET mid == (lo + hi + 1) \div 2
                          IN IF mid * mid <= x THEN ISqrtB(x, mid, hi) ELSE ISqrtB(x, lo, mid - 1)
ILen(v) == ISqrtB(Norm2(v), 0, 4000)
One == <<1, 1>>
Cell(v, s) == [v |-> v, s |-> s]
IsNZ(x) == Norm2(x.v) # 0 /\ x.s[1] # 0
(* raw values of pattern p: neighbouring cells hold different pool vectors, zeros included *)
Pattern(m, nvv, p) == [q \in 1 .. NCells(m) |-> Cell(Pool(nvv)[((q + p - 1) % Len(Pool(nvv))) + 1], One)]

(* exact rational component c of a cell value, and its squared length (all rationals are  *)
(* kept in lowest terms by Rat.tla, so equality of pairs is equality of numbers)            *)
Comp(x, c) == RMul(R(x.v[c]), x.s)
Len2(x)    == RMul(R(Norm2(x.v)), RMul(x.s, x.s))
LenOf(x)   == RMul(R(ILen(x.v)), x.s)          \* s >= 0

(* ---- norm specifications ------------------------------------------------------------------ *)
(* target length per cell (non-negative integers, in units of the norm magnitude class)    *)
W3 == <<1, 3, 7, 13>>
Targets(m, ns) ==
   CASE ns.k = "const" -> [q \in 1 .. NCells(m) |-> ns.t]
     [] ns.k = "array" -> [q \in 1 .. NCells(m) |-> 5 * q + ns.t]
     [] ns.k = "zeros" -> [q \in 1 .. NCells(m) |-> IF q % 2 = ns.t % 2 THEN 0 ELSE 7 * q]
     [] ns.k = "func"  -> [q \in 1 .. NCells(m) |->     \* affine form of the centre's coordinate relative to pmin
                             ns.t + SumSeq([d \in Dims(m) |-> ns.a[d] * (CentreAx(m, d, Unflat(m.n, q - 1)[d]) - m.lo[d])])]
NormSpecs == {[k |-> kd, t |-> t, a |-> W3] : kd \in NormKinds \cap {"const", "zeros"}, t \in {1, 10}}
             \cup {[k |-> kd, t |-> 2, a |-> W3] : kd \in NormKinds \ {"const", "zeros"}}

(* what the setter does: divide where the length is non-zero, multiply by the target        *)
Normed(a, t) == [q \in DOMAIN a |-> IF IsNZ(a[q]) THEN Cell(a[q].v, RNorm(t[q], ILen(a[q].v))) ELSE a[q]]

(* ---- actions ----------------------------------------------------------------------------------- *)
ValidPats(m) == {[q \in 1 .. NCells(m) |-> TRUE], [q \in 1 .. NCells(m) |-> q % 3 # 1]}

(* Field(mesh, nvdim, value=array, valid=mask, unit=...) *)
Init == /\ mesh \in MeshSet
        /\ nv \in NVSet
        /\ p0 \in PatSet
        /\ val = Pattern(mesh, nv, p0)
        /\ v0 = [q \in DOMAIN val |-> val[q].v]         \* the array handed to the constructor
        /\ mag = "V"
        /\ valid \in ValidPats(mesh)
        /\ hist = <<>>
        /\ act = <<"new">>
        /\ obs = [pre |-> val, t |-> <<>>]

CanModify == act[1] \in {"new", "setnorm", "update", "mknormed", "setnone"} /\ Len(hist) < MaxHist

(* field.norm = ns *)
SetNorm == /\ CanModify
           /\ \E ns \in NormSpecs :
                LET t == Targets(mesh, ns)
                IN /\ act' = <<"setnorm", ns>>
                   /\ obs' = [pre |-> val, t |-> t]
                   /\ val' = Normed(val, t)
                   /\ hist' = Append(hist, <<"setnorm", ns, t>>)
           /\ mag' = "N"
           /\ UNCHANGED <<mesh, nv, p0, v0, valid>>
(* field.norm = None : nothing happens *)
SetNone == /\ CanModify /\ act[1] # "setnone"
           /\ act' = <<"setnone">>
           /\ obs' = [pre |-> val, t |-> <<>>]
           /\ hist' = Append(hist, <<"setnone">>)
           /\ UNCHANGED <<mesh, nv, p0, v0, val, mag, valid>>
(* field.update_field_values(array of pattern p) *)
Update == /\ CanModify /\ hist # <<>>
          /\ \E p \in PatSet :
               /\ act' = <<"update", p>>
               /\ val' = Pattern(mesh, nv, p)
               /\ hist' = Append(hist, <<"update", p, [q \in DOMAIN val |-> Pattern(mesh, nv, p)[q].v]>>)
               /\ obs' = [pre |-> val, t |-> <<>>]
          /\ mag' = "V"
          /\ UNCHANGED <<mesh, nv, p0, v0, valid>>
(* Field(mesh, nvdim, value=array, norm=ns, valid="norm"): values, then norm, then validity *)
MkNormed == /\ act[1] = "new" /\ \A q \in DOMAIN valid : valid[q]
            /\ \E ns \in NormSpecs :
                 LET t == Targets(mesh, ns)
                 IN /\ act' = <<"mknormed", ns>>
                    /\ obs' = [pre |-> val, t |-> t]
                    /\ val' = Normed(val, t)
                    /\ valid' = [q \in DOMAIN val |-> IsNZ(Normed(val, t)[q])]
                    /\ hist' = <<<<"mknormed", ns, t>>>>
            /\ mag' = "N"
            /\ UNCHANGED <<mesh, nv, p0, v0>>

IsQuery == act[1] \in {"norm", "orientation"} \/ Len(hist) > MaxQHist
(* field.norm (getter) *)
QNorm == /\ ~IsQuery
         /\ act' = <<"norm">>
         /\ obs' = [norm |-> [q \in DOMAIN val |-> LenOf(val[q])], valid |-> valid]
         /\ UNCHANGED <<mesh, nv, p0, v0, val, mag, valid, hist>>
(* field.orientation: unit vector v / |v| as numerators over the integer length, or zero *)
QOrientation == /\ ~IsQuery
                /\ act' = <<"orientation">>
                /\ obs' = [q \in DOMAIN val |-> IF IsNZ(val[q]) THEN [num |-> val[q].v, den |-> ILen(val[q].v)]
                                                 ELSE [num |-> [c \in 1 .. nv |-> 0], den |-> 1]]
                /\ UNCHANGED <<mesh, nv, p0, v0, val, mag, valid, hist>>

Next == SetNorm \/ SetNone \/ Update \/ MkNormed \/ QNorm \/ QOrientation
Spec == Init /\ [][Next]_vars

(* ---- the property, clause by clause -------------------------------------------------------------- *)
TypeOK == /\ MeshOK(mesh) /\ Len(val) = NCells(mesh) /\ Len(valid) = NCells(mesh)
          /\ \A q \in DOMAIN val : Len(val[q].v) = nv /\ val[q].s[2] > 0 /\ val[q].s[1] >= 0
                                   /\ ILen(val[q].v) * ILen(val[q].v) = Norm2(val[q].v)
          /\ mag \in {"V", "N"}

AfterNorm == act[1] \in {"setnorm", "mknormed"}
(* every cell whose vector was non-zero has exactly the requested length *)
C15_NonzeroGetLength ==
   AfterNorm => \A q \in DOMAIN val : IsNZ(obs.pre[q]) => Len2(val[q]) = R(obs.t[q] * obs.t[q])
(* ... and an unchanged direction: all 2x2 minors with the old vector vanish, dot product positive *)
C15_DirectionKept ==
   AfterNorm => \A q \in DOMAIN val : (IsNZ(obs.pre[q]) /\ obs.t[q] > 0) =>
      /\ \A i, j \in 1 .. nv : RMul(Comp(val[q], i), Comp(obs.pre[q], j)) = RMul(Comp(val[q], j), Comp(obs.pre[q], i))
      /\ RSgn(RMul(R(Dot(val[q].v, obs.pre[q].v)), RMul(val[q].s, obs.pre[q].s))) = 1
(* every zero cell is still zero *)
C15_ZeroStaysZero ==
   AfterNorm => \A q \in DOMAIN val : ~IsNZ(obs.pre[q]) => \A c \in 1 .. nv : Comp(val[q], c) = RZero
(* the norm is the Euclidean length per cell, with the same validity *)
C15_NormIsEuclidean ==
   act[1] = "norm" => /\ \A q \in DOMAIN val : /\ RMul(obs.norm[q], obs.norm[q]) = Len2(val[q])
                                               /\ RSgn(obs.norm[q]) >= 0
                      /\ obs.valid = valid
(* the orientation has unit length wherever the field is non-zero and is zero elsewhere *)
C15_OrientationUnitOrZero ==
   act[1] = "orientation" => \A q \in DOMAIN val :
      IF IsNZ(val[q]) THEN Norm2(obs[q].num) = obs[q].den * obs[q].den
      ELSE \A c \in 1 .. nv : obs[q].num[c] = 0
(* orientation times norm reproduces the field *)
C15_OrientationTimesNorm ==
   act[1] = "orientation" => \A q \in DOMAIN val : \A c \in 1 .. nv :
      RMul(RNorm(obs[q].num[c], obs[q].den), LenOf(val[q])) = Comp(val[q], c)
(* later value updates do not re-apply an earlier norm *)
LastMod == IF hist = <<>> THEN <<"new">> ELSE hist[Len(hist)]
C15_NoReapply ==
   (LastMod[1] = "update" \/ (LastMod[1] = "setnone" /\ Len(hist) >= 2 /\ hist[Len(hist) - 1][1] = "update")) =>
      /\ mag = "V"
      /\ \A q \in DOMAIN val : val[q].s = One /\ Len2(val[q]) = R(Norm2(val[q].v))
(* constructor order: values, then norm, then validity *)
C15_CtorOrder ==
   act[1] = "mknormed" => \A q \in DOMAIN val : valid[q] = (IsNZ(obs.pre[q]) /\ obs.t[q] # 0)
(* setting None changes nothing *)
C15_NoneIsNoop == [][act'[1] = "setnone" => (val' = val /\ mag' = mag /\ valid' = valid)]_vars
=============================================================================
