SPECIFICATION TSpec
CONSTANTS
  MaxN = 1
  CProf = {}
  LoProf = {}
  NVs = {}
  Pats = {}
  Coefs = {}
  Shifts = {}
CHECK_DEADLOCK FALSE
