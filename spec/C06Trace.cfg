SPECIFICATION TSpec
CONSTANTS
  MaxN = 1
  CProf = {}
  LoProf = {}
  NVs = {}
  Pats = {}
  Coefs = {}
  Shifts = {}
  Scales = {}
CHECK_DEADLOCK FALSE
