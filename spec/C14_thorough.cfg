SPECIFICATION Spec
CONSTANTS
  MaxN <- MaxN_thorough
  Prof <- Prof_thorough
  Layouts <- Layouts_all
  Vecs <- Vecs_all
  Factors <- Factors_thorough
  Refs <- Refs_all
  RotKs <- RotKs_thorough
  Short <- Short_thorough
  MaxDepth = 3
  QueryDepth = 1
  DeepND = 2
  FullProbes = TRUE
CHECK_DEADLOCK FALSE
INVARIANT TypeOK
INVARIANT C14_SubregionsWellFormed
INVARIANT C14_RotationPeriod
INVARIANT C14_SetterRejectsAndKeeps
INVARIANT C14_CandidatesNonVacuous
INVARIANT C14_SelKeepsOverlappingClipped
INVARIANT C14_SelNonVacuous
INVARIANT C14_NamedExtraction
INVARIANT C14_IsAligned
INVARIANT C14_ReloadIdentity
PROPERTY C14_TransformKeepsCells
