------------------------------ MODULE C10Trace ------------------------------
(* Channel T for C10: random larger fields (1-4 dimensions, random names, units,          *)
(* boundary conditions, subregion layouts and corner types, labels, dtypes, masks) are     *)
(* written to HDF5 and read back by the real library; the h5py view of the file and the    *)
(* read-back record are logged (lattice integers, strings, Booleans, value ids).  The       *)
(* clauses of C10 are evaluated on the OBSERVED view / record and compared with the         *)
(* specification's own H5Of / ReadResult.  Verdicts are total.                              *)
EXTENDS C10, Json, IOUtils

VARIABLES tid, l
tvars == <<fld, file, act, obs, tid, l>>

Traces == JsonDeserialize(IOEnv.TRACE_FILE)
T  == Traces[tid]
Ev == Traces[tid].ev[l + 1]
Verd(c, name) == IF c THEN TRUE ELSE PrintT(<<"VERDICT", Traces[tid].id, l + 1, name>>)

TInit == /\ tid \in 1 .. Len(Traces)
         /\ l = 0
         /\ fld = Traces[tid].fld
         /\ file = NoFile
         /\ act = <<"new">>
         /\ obs = [st |-> "new"]

(* the observed view against the specification's own file, field by field *)
SameView(a, b) == /\ a.layout = b.layout /\ a.type = b.type /\ a.region = b.region /\ a.n = b.n /\ a.bc = b.bc
                  /\ a.subnames = b.subnames /\ Len(a.subrows) = Len(b.subrows)
                  /\ \A k \in DOMAIN a.subrows : a.subrows[k].row = b.subrows[k].row
                  /\ a.nvdim = b.nvdim /\ a.vdims = b.vdims /\ a.unit = b.unit
                  /\ KindClass(a.array.kind) = KindClass(b.array.kind) /\ a.array.shape = b.array.shape
                  /\ a.array.data = b.array.data /\ a.valid = b.valid

StepWrite ==
   /\ Ev.k \in {"write", "overwrite"}
   /\ act' = <<Ev.k>>
   /\ obs' = [st |-> "written"]
   /\ IF ~Ev.ok THEN /\ file' = NoFile
                     /\ Verd(FALSE, "C10_Lossless:write-raises")
      ELSE /\ file' = Ev.file
           /\ Verd(Ev.file.layout = "0.1" /\ Ev.file.type = "discretisedfield.Field", "C10_FileHoldsState:layout")
           /\ Verd(Ev.exact, "C10_FileHoldsState:corners-on-lattice")
           /\ Verd(FH_Region(fld, Ev.file), "C10_FileHoldsState:region")
           /\ Verd(FH_Mesh(fld, Ev.file), "C10_FileHoldsState:mesh")
           /\ Verd(FH_Subs(fld, Ev.file), "C10_FileHoldsState:subregions")
           /\ Verd(FH_Field(fld, Ev.file), "C10_FileHoldsState:field")
           /\ Verd(FH_Data(fld, Ev.file), "C10_FileHoldsState:data")
           /\ Verd(FileHoldsState(fld, Ev.file) <=> SameView(H5Of(fld), Ev.file), "spec:view")
StepLegacy ==
   /\ Ev.k = "legacy"
   /\ act' = <<"legacy", Ev.side>>
   /\ obs' = [st |-> "written"]
   /\ file' = LegacyOf(fld, Ev.side, {d \in 1 .. Len(fld.n) : Ev.sw[d]})
   /\ Verd(Ev.side => fld.subs # <<>>, "harness:legacy-side")
StepRead ==
   /\ Ev.k = "read" /\ file # NoFile
   /\ act' = <<"read", act[1]>>
   /\ UNCHANGED file
   /\ LET out == IF Ev.ok THEN Ok(Ev.v) ELSE Rej IN
      /\ obs' = out
      /\ IF file.layout = "0.1"
         THEN /\ Verd(Ev.ok, "C10_Lossless:read-raises")
              /\ Ev.ok =>
                  /\ Verd(Ev.exact /\ L_Corners(fld, out), "C10_Lossless:corners")
                  /\ Verd(L_CornerTag(fld, out), "C10_Lossless:corner-type")
                  /\ Verd(L_Dims(fld, out), "C10_Lossless:dims")
                  /\ Verd(L_Units(fld, out), "C10_Lossless:units")
                  /\ Verd(L_Tol(fld, out), "C10_Lossless:tolerance")
                  /\ Verd(L_N(fld, out), "C10_Lossless:n")
                  /\ Verd(L_BC(fld, out), "C10_Lossless:bc")
                  /\ Verd(L_SubNames(fld, out), "C10_Lossless:sub-names")
                  /\ Verd(L_SubCorners(fld, out), "C10_Lossless:sub-corners")
                  /\ Verd(L_SubTags(fld, out), "C10_Lossless:sub-type")
                  /\ Verd(L_NV(fld, out), "C10_Lossless:nvdim")
                  /\ Verd(L_Labels(fld, out), "C10_Lossless:labels")
                  /\ Verd(L_Unit(fld, out), "C10_Lossless:unit")
                  /\ Verd(L_Kind(fld, out), "C10_RealStaysReal:kind")
                  /\ Verd(L_Vals(fld, out), "C10_Lossless:values")
                  /\ Verd(L_Valid(fld, out), "C10_Lossless:valid")
                  /\ Verd(L_Equal(fld, out), "C10_Lossless:equal")
                  (* the clause on the observation agrees with the specification's own reader on its own file *)
                  /\ Verd(Ev.exact => (Lossless(fld, out) <=> (ReadResult(H5Of(fld)) = out)), "spec:read-record")
         ELSE /\ Verd(Ev.ok, "C10_LegacyReadable:read-raises")
              /\ Ev.ok =>
                  /\ Verd(Ev.exact /\ LG_Geo(fld, out), "C10_LegacyReadable:corners-n")
                  /\ Verd(LG_NV(fld, out), "C10_LegacyReadable:nvdim")
                  /\ Verd(LG_Vals(fld, out), "C10_LegacyReadable:values")
                  /\ Verd(LG_Subs(fld, file.side # <<>>, out), "C10_LegacyReadable:sidecar-subregions")

TNext == /\ l < Len(Traces[tid].ev)
         /\ (StepWrite \/ StepLegacy \/ StepRead)
         /\ l' = l + 1
         /\ UNCHANGED <<fld, tid>>
         /\ Verd(FieldOK(fld), "harness:field-ok")
TSpec == TInit /\ [][TNext]_tvars
=============================================================================
