---------------------------- MODULE PadOptTrace ----------------------------
(* Channel T of the PadOpt stage: results of Field.pad observed on the real library     *)
(* (random integer fields of float and integer dtype on meshes up to 7x5x3, random      *)
(* masks, widths 0..9, random modes / options, one or several axes per call), projected *)
(* to integer numerators over the denominator of the call, are checked event by event.  *)
(* The variables of PadOpt are bound to the OBSERVED values; the declarative clauses    *)
(* (AddsCellsOK, FollowsModeOK, ValidityLikeDataOK, LinesIndependentOK, NearestIntOK)   *)
(* are evaluated on the observed arrays and the observation is compared with PadArr.    *)
(* A call over several axes is the composition of single-axis steps in increasing axis  *)
(* order (NumPy pads axis by axis): the steps before the last come from the             *)
(* specification, the clauses are evaluated for the last step on the observed result.   *)
(* Verdicts are total: a disagreement prints <<"VERDICT", trace id, event, <<clause,    *)
(* condition class>>>> and the trace goes on.                                           *)
EXTENDS PadOpt, Json, IOUtils

VARIABLES tid, pos
tvars == <<cfg, act, obs, tid, pos>>

Traces == JsonDeserialize(IOEnv.TRACE_FILE)
Tr == Traces[tid]
Ev == Traces[tid].ev[pos + 1]
Verd(c, name) == IF c THEN TRUE ELSE PrintT(<<"VERDICT", Traces[tid].id, pos + 1, name>>)

(* all verdicts of the event at hand; evaluated as ONE Boolean expression (see StepCheck) *)
Verdicts ==
   LET o     == [mode |-> Ev.o.mode, oc |-> Ev.o.oc, a |-> Ev.o.a, b |-> Ev.o.b]
       steps == Ev.st
       m     == Len(steps)
       int   == Tr.int
       nv    == Tr.nv
       Fprev == PadChain(Fld0(Tr.n, Tr.a, Tr.valid), SubSeq(steps, 1, m - 1), o, int)
       d     == steps[m][1]
       wl    == steps[m][2]
       wr    == steps[m][3]
       Fexp  == PadField(Fprev, d, wl, wr, o, int)
       sden  == Den(o, Fprev.n[d], wl, wr)                 \* the last step's own denominator
       g     == Ev.r
       Shaped == g.ok /\ g.shape /\ g.n = Fexp.n /\ Len(g.v) = ProdSeq(Fexp.n) /\ Len(g.w) = ProdSeq(Fexp.n)
       Good  == Shaped /\ g.exact /\ g.den = Fexp.den
       Exactly == ~int \/ sden = 1                          \* the observed numbers are not rounded
   IN /\ Verd(OptOK(o) /\ m >= 1 /\ (\A k \in 1 .. (m - 1) : steps[k][1] < steps[k + 1][1])
              /\ ~(int /\ o.mode = "linear_ramp"), <<"trace", "call-outside-the-model">>)
      /\ Verd(g.ok, <<"PadOpt_AddsCells", "raises">>)
      /\ Verd(g.ok => Shaped, <<"PadOpt_AddsCells", "shape">>)
      /\ Verd(g.ok => /\ g.reg
                      /\ \A e \in DOMAIN Tr.n : /\ g.plo[e] = Tr.lo[e] + Tr.c[e] * Fexp.lo[e]
                                                /\ g.phi[e] = Tr.lo[e] + Tr.c[e] * (Tr.n[e] + Fexp.hi[e]),
              <<"PadOpt_AddsCells(region)", "shape">>)
      /\ Verd(Shaped => g.den = Fexp.den, <<"trace", "denominator">>)
      /\ Verd(Shaped => g.exact, <<"PadOpt_PaddingFollowsMode(lattice)", "value">>)
      (* --- values, clause by clause on the observed array ------------------------------- *)
      /\ Verd(Good => \A c \in 1 .. nv :
                 AddsCellsOK(Fprev.n, Comp(Fprev.v, c), g.n, Comp(g.v, c), d, wl, wr, IF int THEN 1 ELSE sden),
              <<"PadOpt_AddsCells", "value">>)
      /\ Verd((Good /\ Exactly) => \A c \in 1 .. nv :
                 FollowsModeOK(Fprev.n, Comp(Fprev.v, c), g.n, Comp(g.v, c), d, wl, wr, o, Fprev.den, sden),
              <<"PadOpt_PaddingFollowsMode", "value">>)
      /\ Verd((Good /\ ~Exactly) => \A c \in 1 .. nv :
                 NearestIntOK(PadArr(Fprev.n, Comp(Fprev.v, c), d, wl, wr, o, 1), sden, Comp(g.v, c)),
              <<"PadOpt_PaddingFollowsMode(rounded)", "value">>)
      /\ Verd((Good /\ Exactly) => \A c \in 1 .. nv :
                 LinesIndependentOK(Fprev.n, Comp(Fprev.v, c), g.n, Comp(g.v, c), d, wl, wr, o, Fprev.den),
              <<"PadOpt_LinesIndependent", "value">>)
      /\ Verd(Good => g.v = Fexp.v, <<"PadArr", "value">>)
      (* --- validity --------------------------------------------------------------------- *)
      /\ Verd(Shaped => g.wbool, <<"PadOpt_ValidityLikeData(dtype)", "validity">>)
      /\ Verd(Shaped => MaskKeptOK(Fprev.n, Fprev.w, g.n, g.w, d, wl, wr), <<"PadOpt_AddsCells", "validity">>)
      /\ Verd(Shaped => ValidityLikeDataOK(Fprev.n, Fprev.w, g.n, g.w, d, wl, wr, o), <<"PadOpt_ValidityLikeData", "validity">>)
      /\ Verd(Shaped => MaskLinesIndependentOK(Fprev.n, Fprev.w, g.n, g.w, d, wl, wr, o), <<"PadOpt_LinesIndependent", "validity">>)
      /\ Verd(Shaped => g.w = Fexp.w, <<"PadMask", "validity">>)
(* `Verdicts = TRUE` makes TLC evaluate the LET definitions as an expression (cached, once per event) instead of as  *)
(* an action (TLC re-evaluates LET definitions of an action at every use)                                           *)
StepCheck == /\ Verdicts = TRUE
             /\ act' = <<"pad", Ev.st, Ev.o.mode, Ev.o.oc, Ev.o.a, Ev.o.b>>
             /\ obs' = [n |-> Ev.r.n, den |-> Ev.r.den, v |-> Ev.r.v, w |-> Ev.r.w]

TInit == /\ tid \in 1 .. Len(Traces)
         /\ pos = 0
         /\ cfg = [n |-> Traces[tid].n, vals |-> Comp(Traces[tid].a, 1), valid |-> Traces[tid].valid]
         /\ act = <<"new">>
         /\ obs = [v3 |-> Traces[tid].a]

TNext == /\ pos < Len(Traces[tid].ev)
         /\ StepCheck
         /\ pos' = pos + 1
         /\ UNCHANGED <<cfg, tid>>
         /\ Verd(/\ Len(Tr.a) = ProdSeq(Tr.n) /\ Len(Tr.valid) = ProdSeq(Tr.n) /\ Len(Tr.a[1]) = Tr.nv
                 /\ Len(Tr.lo) = Len(Tr.n) /\ Len(Tr.c) = Len(Tr.n), <<"trace", "array-shape">>)
TSpec == TInit /\ [][TNext]_tvars
=============================================================================
