SPECIFICATION Spec
CONSTANTS
  Shapes <- Shapes_quick
  CProf <- CProf_quick
  LoProf <- LoProf_quick
  NVs <- NVs_all
  MaskKinds <- Masks_quick
  SubKinds <- Subs_quick
  Reprs <- Reprs_quick
  BadShapes <- Bad_all
  AltLabels = TRUE
CHECK_DEADLOCK FALSE
INVARIANT TypeOK
INVARIANT C16_VerticesAreCoordinates
INVARIANT C16_ValueAtLocatedCell
INVARIANT C16_ComponentArraysNamed
INVARIANT C16_NotThreeDRefused
INVARIANT C16_RoundTrip
INVARIANT C16_SidecarIffSubregions
INVARIANT C16_LegacyOneValuePerCell
