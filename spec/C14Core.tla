------------------------------ MODULE C14Core ------------------------------
(* The one-dimensional integer core of C14 for UNBOUNDED coordinates, vectors, factors and      *)
(* reference points: a mesh [lo, lo + n c] with one subregion [slo, shi].  TLC explores the      *)
(* histories of the full model within small bounds (C14.tla, DF.tla); here Apalache proves that   *)
(* "the subregion lies inside the mesh region, its faces are on cell faces and it measures a      *)
(* whole, positive number of cells" is an INDUCTIVE invariant of the transformation steps that    *)
(* carry the subregions along (translation by any vector, scaling by any non-zero integer factor  *)
(* about any reference point, the half turn), i.e. after histories of any length.                 *)
(* ka, kb are the cell faces of the subregion counted from the lower corner (ghost variables:     *)
(* the witnesses of "aligned"); a reflection counts them from the other end.                      *)
(*   apalache-mc check --init=Init    --inv=IndInv --length=0 C14Core.tla                         *)
(*   apalache-mc check --init=IndInit --inv=IndInv --length=1 C14Core.tla                         *)
EXTENDS Integers

VARIABLES
  \* @type: Int;
  lo,
  \* @type: Int;
  n,
  \* @type: Int;
  c,
  \* @type: Int;
  slo,
  \* @type: Int;
  shi,
  \* @type: Int;
  ka,
  \* @type: Int;
  kb

Hi == lo + n * c
Min2(a, b) == IF a <= b THEN a ELSE b
Max2(a, b) == IF a <= b THEN b ELSE a
Abs(x) == IF x < 0 THEN 0 - x ELSE x

Inside  == lo <= slo /\ shi <= Hi
Aligned == slo = lo + ka * c /\ shi = lo + kb * c
Whole   == 0 <= ka /\ ka < kb /\ kb <= n
IndInv  == n >= 1 /\ c >= 1 /\ Inside /\ Aligned /\ Whole /\ slo < shi

Init == lo = -4 /\ n = 3 /\ c = 4 /\ slo = 0 /\ shi = 8 /\ ka = 1 /\ kb = 3
IndInit == /\ lo \in Int /\ n \in Int /\ c \in Int /\ slo \in Int /\ shi \in Int /\ ka \in Int /\ kb \in Int
           /\ IndInv

Translate == \E v \in Int :
   /\ lo' = lo + v /\ slo' = slo + v /\ shi' = shi + v
   /\ UNCHANGED <<n, c, ka, kb>>
(* x -> r + s (x - r) on the region and on the subregion, corners sorted afterwards *)
Scale == \E s \in Int, r \in Int :
   /\ s # 0
   /\ lo'  = Min2(r + s * (lo - r), r + s * (Hi - r))
   /\ slo' = Min2(r + s * (slo - r), r + s * (shi - r))
   /\ shi' = Max2(r + s * (slo - r), r + s * (shi - r))
   /\ n' = n /\ c' = Abs(s) * c
   /\ ka' = (IF s > 0 THEN ka ELSE n - kb)
   /\ kb' = (IF s > 0 THEN kb ELSE n - ka)
(* a half turn about r: x -> 2 r - x *)
HalfTurn == \E r \in Int :
   /\ lo' = 2 * r - Hi /\ slo' = 2 * r - shi /\ shi' = 2 * r - slo
   /\ n' = n /\ c' = c /\ ka' = n - kb /\ kb' = n - ka

Next == Translate \/ Scale \/ HalfTurn
=============================================================================
