#!/bin/bash
# Offline setup: nothing is built or fetched.  Verifies that the tools the checks rely on are present,
# that every TLA+ module parses (SANY) and that the library under test imports from /repo.
set -e
cd "$(dirname "$0")"
command -v java >/dev/null || { echo "java missing"; exit 1; }
test -f /opt/veriftools/tla/tla2tools.jar || { echo "tla2tools.jar missing"; exit 1; }
fail=0
for f in spec/*.tla; do
  m=$(basename "$f" .tla)
  # proof modules extend TLAPS.tla, which belongs to the proof manager (not to tla2tools): they are parsed and checked by tlapm
  # inside the owning check (harness/apalache.py tlaps_stage) when it is installed
  case "$m" in *Proof) continue;; esac
  out=$(cd spec && java -cp /opt/veriftools/tla/tla2tools.jar:/opt/veriftools/tla/CommunityModules-deps.jar tla2sany.SANY "$m.tla" 2>&1) || true
  if echo "$out" | grep -q -E "\*\*\* Errors|Fatal errors|Could not parse|Parse Error"; then
    echo "SANY rejected $m"; echo "$out" | tail -15; fail=1
  fi
done
/venv/bin/python - <<'PY'
import sys, os
sys.path.insert(0, os.environ.get("DF_VERIF_REPO", "/repo"))
import discretisedfield as df
print("discretisedfield", df.__version__, "from", os.path.dirname(df.__file__))
import json
json.load(open("known_findings.json"))
PY
mkdir -p evidence replays
exit $fail
