#!/bin/bash
# usage: tools/process_benign.sh C13 "C12 C13 C14" [k...]   (reads /tmp/benign-C13/seeds/{change,note}k.*)
# For each property-preserving change: copy to seeded/benign/<P>-k/, run the listed checks (quick tier) against a scratch
# worktree with the change; every check must exit 0.  /repo is never touched.
set -u
cd "$(dirname "$0")/.."
P=$1; CHECKS=$2; shift 2
KS=${*:-1 2 3 4}
SRC=/tmp/benign-$P/seeds
for k in $KS; do
  [ -f "$SRC/change$k.diff" ] || { echo "$P-$k: no change$k.diff"; continue; }
  D=seeded/benign/$P-$k
  mkdir -p "$D"
  cp "$SRC/change$k.diff" "$D/patch.diff"; cp "$SRC/note$k.txt" "$D/note.txt" 2>/dev/null
  res=""
  : > "$D/check.log"
  for C in $CHECKS; do
    out=$(tools/with_mutant.sh "$D/patch.diff" -- ./check "$C" --tier quick 2>&1); rc=$?
    echo "== $C exit $rc" >> "$D/check.log"; echo "$out" | grep -v "^KNOWN-FINDING" | tail -n 12 >> "$D/check.log"
    res="$res $C:$rc"
  done
  /venv/bin/python - "$P" "$k" "$D" "$res" <<'PY'
import json, sys, os
P, k, D, res = sys.argv[1:5]
note = open(f"{D}/note.txt").read().strip() if os.path.exists(f"{D}/note.txt") else ""
runs = dict(x.split(":") for x in res.split())
meta = {"kind": "property-preserving change (false-alarm test)", "property": P, "note": note,
        "origin": "independent sub-agent given only the property text and a scratch worktree; asked for changes that keep the property",
        "checks_run": {c: int(rc) for c, rc in runs.items()}, "silent": all(int(rc) == 0 for rc in runs.values()),
        "ran": [f"tools/with_mutant.sh {D}/patch.diff -- ./check {c} --tier quick -> exit {rc}" for c, rc in runs.items()]}
json.dump(meta, open(f"{D}/meta.json", "w"), indent=1)
PY
  echo "$D:$res"
done
