#!/bin/bash
# usage: tools/with_mutant.sh <patch.diff | -e 'sed-expr' file> -- <command...>
# Creates a scratch git worktree of /repo under /tmp, applies the change, runs the command with
# DF_VERIF_REPO pointing at it, removes the worktree.  /repo itself is never touched.
set -u
W=$(mktemp -d /tmp/dfmut-XXXXXX)
rmdir "$W"
git -C /repo worktree add --detach "$W" HEAD >/dev/null 2>&1 || { echo "worktree failed"; exit 2; }
cleanup() { git -C /repo worktree remove --force "$W" >/dev/null 2>&1; rm -rf "$W"; }
trap cleanup EXIT
if [ "$1" = "-e" ]; then
  sed -i -E "$2" "$W/$3" || exit 2
  shift 3
else
  git -C "$W" apply "$(realpath "$1")" 2>/dev/null || git -C "$W" apply -3 "$(realpath "$1")" || { echo "patch failed"; exit 2; }
  shift
fi
[ "$1" = "--" ] && shift
git -C "$W" diff --stat | tail -1
DF_VERIF_REPO="$W" "$@"
