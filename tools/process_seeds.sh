#!/bin/bash
# usage: tools/process_seeds.sh C04 [k...]     (reads /tmp/seed-C04/seeds/{change,demo,note}k.*)
# For each seeded change: copy to seeded/<P>-k/, confirm it in a scratch worktree (demo passes without / fails with the
# change; suite as on the unchanged tree), run the owning check against a scratch worktree with the change, and write
# meta.json.  /repo is never touched.  Prints one summary line per seed.
set -u
cd "$(dirname "$0")/.."
P=$1; shift
KS=${*:-1 2 3}
SRC=/tmp/seed-$P${ROUND:+-$ROUND}/seeds
for k in $KS; do
  [ -f "$SRC/change$k.diff" ] || { echo "$P-$k: no change$k.diff"; continue; }
  D=seeded/$P-$k
  n=$k
  while [ -e "$D/patch.diff" ] && ! cmp -s "$D/patch.diff" "$SRC/change$k.diff"; do n=$((n+10)); D=seeded/$P-$n; done
  mkdir -p "$D"
  cp "$SRC/change$k.diff" "$D/patch.diff"; cp "$SRC/demo$k.py" "$D/demo.py"; cp "$SRC/note$k.txt" "$D/note.txt" 2>/dev/null
  conf=$(tools/confirm_seed.sh "$D/patch.diff" "$D/demo.py" ${NOSUITE:-} 2>&1)
  echo "$conf" > "$D/confirm.log"
  out=$(tools/with_mutant.sh "$D/patch.diff" -- ./check "$P" --tier quick 2>&1); rc=$?
  echo "$out" | grep -v "^KNOWN-FINDING" | tail -n 25 > "$D/check.log"
  keys=$(echo "$out" | grep -E "^  [A-Za-z:]" | cut -c1-160 | head -8)
  /venv/bin/python - "$P" "$k" "$D" "$rc" <<'PY'
import json, sys, re
P, k, D, rc = sys.argv[1:5]
conf = open(f"{D}/confirm.log").read()
note = open(f"{D}/note.txt").read().strip() if __import__("os").path.exists(f"{D}/note.txt") else ""
chk = open(f"{D}/check.log").read()
keys = [l.strip()[:200] for l in chk.splitlines() if re.match(r"^  [A-Za-z:]", l)][:8]
meta = {"breaks": P, "property": P, "note": note,
        "origin": "independent sub-agent given only the property text and a scratch worktree",
        "confirmed": conf.strip().splitlines(),
        "check_exit": int(rc), "caught": int(rc) == 1, "first_keys": keys,
        "ran": [f"tools/confirm_seed.sh {D}/patch.diff {D}/demo.py", f"tools/with_mutant.sh {D}/patch.diff -- ./check {P} --tier quick -> exit {rc}"]}
json.dump(meta, open(f"{D}/meta.json", "w"), indent=1)
PY
  echo "$D: check exit=$rc | $(echo "$conf" | tr '\n' ' ' | cut -c1-300)"
done
