#!/bin/bash
# usage: tools/confirm_seed.sh <patch.diff> <demo.py> [--no-suite]
# Confirms a seeded change in a scratch worktree: demo fails with the change, passes without it, and the repository's
# test suite gives the same failures as on the unchanged tree.  Prints a summary; the worktree is removed afterwards.
set -u
PATCH=$(realpath "$1"); DEMO=$(realpath "$2"); NOSUITE=${3:-}
W=$(mktemp -d /tmp/dfconf-XXXXXX); rmdir "$W"; OUT=$(mktemp /tmp/dfconf-out-XXXXXX)
git -C /repo worktree add --detach "$W" HEAD >/dev/null 2>&1 || { echo "worktree failed"; exit 2; }
trap 'git -C /repo worktree remove --force "$W" >/dev/null 2>&1; rm -rf "$W" "$OUT"' EXIT
run_demo() { (cd "$W" && PYTHONPATH="$W" MPLBACKEND=Agg timeout 600 /venv/bin/python "$DEMO" >"$OUT" 2>&1; echo $?); }
echo "demo without change: exit $(run_demo)"
git -C "$W" apply "$PATCH" 2>/dev/null || git -C "$W" apply -3 "$PATCH" || { echo "PATCH DOES NOT APPLY"; exit 2; }
echo "demo with change:    exit $(run_demo)  ($(tail -1 "$OUT" | cut -c1-200))"
if [ "$NOSUITE" != "--no-suite" ]; then
  (cd "$W" && PYTHONPATH="/verif/tools/seedsite:$W" /venv/bin/python -m pytest -q -p no:cacheprovider --timeout=900 discretisedfield/tests -n 8 2>&1 | tail -4)
fi
