#!/bin/bash
# usage: tools/recheck_seed.sh [--confirm] C02-1 C05-2 ...
# Re-runs the owning check (and with --confirm also the demo + repository suite) for seeds already stored under seeded/,
# and updates meta.json (caught / check_exit / first_keys / confirmed).  /repo is never touched.
set -u
cd "$(dirname "$0")/.."
CONF=0; [ "${1:-}" = "--confirm" ] && { CONF=1; shift; }
for s in "$@"; do
  D=seeded/$s; P=${s%-*}
  [ -f "$D/patch.diff" ] || { echo "$s: no patch"; continue; }
  if [ $CONF = 1 ]; then tools/confirm_seed.sh "$D/patch.diff" "$D/demo.py" > "$D/confirm.log" 2>&1; fi
  out=$(tools/with_mutant.sh "$D/patch.diff" -- ./check "$P" --tier quick 2>&1); rc=$?
  echo "$out" | grep -v "^KNOWN-FINDING" | tail -n 25 > "$D/check.log"
  /venv/bin/python - "$D" "$rc" "$P" <<'PY'
import json, sys, re, os
D, rc, P = sys.argv[1], int(sys.argv[2]), sys.argv[3]
meta = json.load(open(f"{D}/meta.json")) if os.path.exists(f"{D}/meta.json") else {"breaks": P, "property": P}
chk = open(f"{D}/check.log").read()
first = meta.get("caught")
meta["first_run_caught"] = meta.get("first_run_caught", first)
meta["check_exit"] = rc
meta["caught"] = rc == 1
meta["first_keys"] = [l.strip()[:200] for l in chk.splitlines() if re.match(r"^  [A-Za-z:]", l)][:8]
if os.path.exists(f"{D}/confirm.log"):
    meta["confirmed"] = open(f"{D}/confirm.log").read().strip().splitlines()
meta.setdefault("ran", [])
line = f"tools/with_mutant.sh {D}/patch.diff -- ./check {P} --tier quick -> exit {rc} (re-run after strengthening)"
if line not in meta["ran"]:
    meta["ran"].append(line)
json.dump(meta, open(f"{D}/meta.json", "w"), indent=1)
print(D, "exit", rc, "| suite:", [x for x in meta.get("confirmed", []) if "passed" in x][-1:] )
PY
done
