#!/venv/bin/python
"""Regenerate /verif/MANIFEST.json from the META dict of every harness/props/cNN.py.
Properties without a module are listed under not_applicable with the reason in PENDING."""
import importlib
import json
import os
import sys

ROOT = os.path.dirname(os.path.dirname(os.path.abspath(__file__)))
sys.path.insert(0, ROOT)

ALL = [json.loads(l)["id"] for l in open(os.path.join(ROOT, "properties.jsonl"))]
PENDING = {}

# only properties listed in tools/integrated.txt are claimed (others may be under construction)
INTEGRATED = set(open(os.path.join(ROOT, "tools", "integrated.txt")).read().split())
from harness import core as _core


def df_note(pid):
    if pid not in _core.DF_STAGE_THOROUGH:
        return ""
    tier = "both tiers (reduced budget in quick)" if pid in _core.DF_STAGE_QUICK_LITE else "the thorough tier"
    return (f" In {tier} the check also runs the mixed-history stage (spec/DF.tla, DFTrace.tla, harness/props/df.py, notes/DF.md): "
            "one heap-with-references model of regions, meshes, subregions and fields in which the public calls of seven families "
            "(geometry, selection, algebra with numbers / products / angles, validity, updates and relabelling, persistence, derivative, integrals and means, "
            "queries whose answer is the outcome: allclose, ==, in, is_aligned, mean as exact rationals, sampling at a cell centre) are mixed in one history; TLC enumerates the "
            "histories, each is re-executed on the library with the whole projected object graph compared after every call, and long "
            "random programs of the library are validated call by call by the same operators. Only disagreements with the clauses "
            "that come from this property's text are reported by this check.")


PAST_NOTE = (" Objects with a past: a deterministic share of the meshes and fields the check works on is not fresh from the constructor but "
             "reaches the same state (bit for bit, else the fresh object is used) through in-place steps of the public API with every "
             "derived attribute read at the far end (harness/lat.py arrive_in_place, harness/fld.py lived / afterlife / rewrite_in_place / "
             "away_and_back / labelled_field / disown), so that memoised or shared state that goes stale is seen by every property. An "
             "exception raised by the library on a call the harness makes without a guard is reported as a violation of the property "
             "being checked; a fault of the harness itself is a MACHINERY-ERROR (exit 2).")


checks, na = [], []
for pid in ALL:
    path = os.path.join(ROOT, "harness", "props", pid.lower() + ".py")
    if not os.path.exists(path) or pid not in INTEGRATED:
        na.append({"property_id": pid, "reason": PENDING.get(pid, "check not built yet: the TLA+ module and conformance harness for this property are planned in DESIGN.md section 7 but not committed; nothing is claimed")})
        continue
    mod = importlib.import_module(f"harness.props.{pid.lower()}")
    meta = getattr(mod, "META", None)
    if not meta or meta.get("claimed", True) is False:
        na.append({"property_id": pid, "reason": (meta or {}).get("reason", "check present but not claimed")})
        continue
    checks.append({
        "property_id": pid,
        "quick_cmd": f"./check {pid} --tier quick",
        "thorough_cmd": f"./check {pid} --tier thorough",
        "evidence_file": f"evidence/{pid}.json",
        "replay_cmd_template": f"./check {pid} --replay {{path}}",
        "engine": "tlc+conformance",
        "level_claimed": {"category": meta.get("level", "model_checking"), "text": meta["level_text"],
                          "design_ref": meta.get("design_ref", f"DESIGN.md section 7, {pid}")},
        "level_note": meta["level_note"] + df_note(pid) + PAST_NOTE,
        "technique": meta.get("technique", "explicit TLA+ specification checked exhaustively with TLC; TLC states replayed into the library and library traces validated by TLC"),
    })

manifest = {
    "version": 1,
    "setup_cmd": "./setup.sh",
    "hooks": {
        "guard": "DF_VERIF_TRACE",
        "enable": "no hook lives in /repo: the library is sequential, its linearization point is the return of a public call and the public API exposes the whole abstract state; the harness wraps public calls from its own process. DF_VERIF_REPO=<dir> points the checks at another working tree (default /repo).",
        "baseline_off_cmd": "cd /repo && /venv/bin/python -m pytest -ra -q -p no:cacheprovider --timeout=900 --continue-on-collection-errors",
        "source_commits": [],
        "add_only": True,
    },
    "engines": [
        {"name": "tlc+conformance", "path": "check", "serves_properties": [c["property_id"] for c in checks],
         "kind_free_text": "TLC 1.8 on spec/*.tla (exhaustive within the bounds of the MC_*.tla/cfg files), state dumps replayed into discretisedfield under float embeddings (harness/props/*.py), recorded executions validated by TLC trace specifications (spec/*Trace.tla)"},
    ],
    "checks": checks,
    "not_applicable": na,
    "notes": "See DESIGN.md. ./check <ID> exits 0 / 1 (+VIOLATION line) / 2 (MACHINERY-ERROR). known_findings.json lists recorded and fixed defects.",
}
with open(os.path.join(ROOT, "MANIFEST.json"), "w") as fh:
    json.dump(manifest, fh, indent=1)
import jsonschema
jsonschema.validate(manifest, json.load(open("/root/.vp/MANIFEST.schema.json")))
print("MANIFEST.json:", len(checks), "checks,", len(na), "not applicable; valid")
