#!/bin/bash
# usage: tools/rerun_benign.sh <id>...   re-runs every stored property-preserving change seeded/benign/<id>/patch.diff against
# the checks recorded in its meta.json (quick tier) and updates meta.json; every check must stay silent (exit 0)
set -u
cd "$(dirname "$0")/.."
for b in "$@"; do
  D=seeded/benign/$b
  [ -f "$D/patch.diff" ] || { echo "$b: no patch"; continue; }
  CHECKS=$(/venv/bin/python -c "import json;print(' '.join(json.load(open('$D/meta.json'))['checks_run']))")
  res=""
  : > "$D/check.log"
  for C in $CHECKS; do
    out=$(tools/with_mutant.sh "$D/patch.diff" -- ./check "$C" --tier quick 2>&1); rc=$?
    echo "== $C exit $rc" >> "$D/check.log"; echo "$out" | grep -v "^KNOWN-FINDING" | tail -n 12 >> "$D/check.log"
    res="$res $C:$rc"
  done
  /venv/bin/python - "$D" "$res" <<'PY'
import json, sys
D, res = sys.argv[1:3]
meta = json.load(open(f"{D}/meta.json"))
runs = dict(x.split(":") for x in res.split())
meta["checks_run"] = {c: int(rc) for c, rc in runs.items()}
meta["silent"] = all(int(rc) == 0 for rc in runs.values())
line = "re-run against the final harness: " + ", ".join(f"{c} -> exit {rc}" for c, rc in runs.items())
meta.setdefault("ran", [])
if line not in meta["ran"]:
    meta["ran"].append(line)
json.dump(meta, open(f"{D}/meta.json", "w"), indent=1)
PY
  echo "$b:$res"
done
