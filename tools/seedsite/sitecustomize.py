import random; random.seed(20260927)
