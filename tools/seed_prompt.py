#!/venv/bin/python
"""print the prompt for an independent breakage-seeding agent: tools/seed_prompt.py C01 /tmp/seed-C01"""
import json, sys
pid, wt = sys.argv[1], sys.argv[2]
rnd = sys.argv[3] if len(sys.argv) > 3 else ""
p = next(json.loads(l) for l in open("/verif/properties.jsonl") if json.loads(l)["id"] == pid)
EXTRA = {
 "r2": ("THIS ROUND: earlier rounds already produced the obvious single-site slips (a wrong index, a swapped axis, a dropped copy, a wrong tolerance). "
        "Look for changes of these kinds instead: (1) state that goes stale - a cached / memoised attribute, a stored derived quantity, an object shared between "
        "a result and its operand - so that the violation needs a SEQUENCE of public calls (read, modify in place, read again; derive an object, transform it, "
        "look at the original); (2) a change in a helper or in another module (util, io, plotting helpers, operators, mesh/region used by field) whose effect on "
        "this property only shows through a composition of features (e.g. a field that came from a file, a selection, a rotation or an operator and is then used "
        "in the operation the property talks about); (3) a fast path or special case that is only taken for particular argument TYPES or shapes (numpy integer "
        "vs Python int, tuple vs list vs ndarray, 0-d arrays, single-cell axes, 1-d or 4-d meshes, complex or integer dtype, empty or one-element containers, "
        "keyword vs positional form, negative or zero values where legitimate); (4) two sites that must agree (writer/reader, in-place/copying form, field/mesh/region "
        "versions of one operation, forward/inverse) changed so that common cases still agree. At least two of your three changes must be of kind (1) or (2).\n"),
}
print(f"""You are testing how well a Python library's behaviour is pinned down. The library is ubermag/discretisedfield (regions, finite-difference meshes and fields for micromagnetics). You have your own scratch git worktree of it at {wt} (a detached worktree of the repository; work ONLY inside that directory; do not touch /repo, /verif or any other directory; do not look at /verif). Run Python as: cd {wt} && PYTHONPATH={wt} /venv/bin/python ... (check with `python -c "import discretisedfield, os; print(discretisedfield.__file__)"` that the module is imported from {wt}). The existing test suite is run with: cd {wt} && PYTHONPATH={wt}/seeds/.site:{wt} /venv/bin/python -m pytest -q -p no:cacheprovider --timeout=900 discretisedfield/tests -n 6   (the directory {wt}/seeds/.site holds a sitecustomize.py that only seeds Python's random module, which the parallel test collection needs; the machine is shared and busy, so a run can take 3-15 minutes; two tests, including test_pyvista_streamlines, may fail even on the unchanged code — ignore tests that also fail without your change).

Here is a semantic property the library is supposed to satisfy:

TITLE: {p['title']}
STATEMENT: {p['statement']}
QUANTIFIED OVER: {p['quantifier']['text']}
WHY THE EXISTING TESTS DO NOT SETTLE IT: {p['why_tests_cant']}
CODE ANCHORS: {json.dumps(p['anchors']['mechanism'])}

YOUR TASK: produce THREE different, independent, realistic source changes to the library (each a small patch, as a programmer's plausible mistake or ill-considered "optimisation"/refactoring — not sabotage that ordinary use would expose at once) such that, for each change separately:
  (a) the library still imports and the existing test suite still passes with it (apart from tests that fail without it too);
  (b) the property above is violated for SOME input / configuration / sequence of operations;
  (c) the violation needs something specific to manifest: an unusual but legitimate input (a particular dimension count, an odd size, a negative or large argument, a non-default option, anisotropic cells, a particular offset or scale), a multi-step sequence of operations, or two cooperating code sites that each look fine alone. Prefer changes in different functions/clauses of the property for the three patches, and at least one that only manifests on a narrow class of inputs.
{EXTRA.get(rnd, "")}For each change k in 1..3 write, inside {wt}/seeds/:
  - change{{k}}.diff : the patch (unified diff, `git diff` output relative to the worktree HEAD, touching only files under discretisedfield/ and not the tests);
  - demo{{k}}.py : a small stand-alone program using only the public API that exits 0 on the unchanged library and exits non-zero (with an assertion message explaining the violated clause) when the change is applied;
  - note{{k}}.txt : two or three lines: what the change does, which clause of the property it breaks, what it needs in order to manifest.
Procedure for each: make the change, run the demo (must fail), run the test suite (must pass as on the unchanged tree), save the diff, then `git checkout -- discretisedfield` to restore, run the demo again (must pass). Never use `git stash` (the stash is shared by all worktrees of the repository and other people work in sibling worktrees). Keep the worktree clean (apart from seeds/) when you finish. Report at the end, for each change: the files, the test-suite result line, and the demo outputs with and without the change.""")
