#!/venv/bin/python
"""print the prompt for an independent agent that writes PROPERTY-PRESERVING changes (to test the checks for false alarms):
tools/benign_prompt.py C01 /tmp/benign-C01"""
import json, sys
pid, wt = sys.argv[1], sys.argv[2]
p = next(json.loads(l) for l in open("/verif/properties.jsonl") if json.loads(l)["id"] == pid)
print(f"""You are helping to test a verification tool for false alarms. The library is ubermag/discretisedfield (regions, finite-difference meshes and fields for micromagnetics). You have your own scratch git worktree of it at {wt} (a detached worktree of the repository; work ONLY inside that directory; do not touch /repo, /verif or any other directory; do not look at /verif). Run Python as: cd {wt} && PYTHONPATH={wt} /venv/bin/python ... (check with `python -c "import discretisedfield, os; print(discretisedfield.__file__)"` that the module is imported from {wt}). The existing test suite is run with: cd {wt} && PYTHONPATH={wt}/seeds/.site:{wt} /venv/bin/python -m pytest -q -p no:cacheprovider --timeout=900 discretisedfield/tests -n 6   (the directory {wt}/seeds/.site holds a sitecustomize.py that only seeds Python's random module; the machine is shared and busy, so a run can take 3-15 minutes; two tests, including test_pyvista_streamlines, may fail even on the unchanged code - ignore tests that also fail without your change).

Here is a semantic property the library satisfies and must keep satisfying:

TITLE: {p['title']}
STATEMENT: {p['statement']}
QUANTIFIED OVER: {p['quantifier']['text']}
CODE ANCHORS: {json.dumps(p['anchors']['mechanism'])}

YOUR TASK: produce FOUR different, independent, realistic source changes to the library of the kind a maintainer makes all the time and that DO NOT violate the property above - the property must still hold for every input after each change - but that alter HOW the code anchored above works or alter behaviour the property does not speak about. Each change should touch the code the property is anchored in (not an unrelated file). Kinds to choose from (use at least three different kinds):
  (1) a refactoring that keeps the results: a loop replaced by vectorised numpy (or the reverse), a helper extracted or inlined, an intermediate computed in another but mathematically equivalent order (e.g. pmin + i*cell + cell/2 instead of pmin + (i+0.5)*cell) so that floating-point results may differ in the last bits only, a different but equivalent numpy routine;
  (2) a change of something the property does not state: another exception TYPE or message for a rejected input (the property only says "rejected"), another internal representation (tuple vs list vs ndarray for a stored attribute that is exposed the same way), a returned object that is a fresh copy where it used to be shared with the operand or shared less (never more) than before, a different but still legitimate default for an option the property does not mention, additional accepted input forms, an added cache that IS correctly invalidated, extra attributes, different repr/HTML output, changed warnings;
  (3) a stricter or cleaner validation of arguments that the property already says must be rejected (rejecting them earlier, or in another order);
  (4) a performance fast path that is correct for all inputs.
For each change, (a) the library still imports and the existing test suite passes as on the unchanged tree, and (b) you are convinced - and say why in the note - that the property statement above remains true for all inputs. Do NOT make changes that break or even bend the property, and do not change numerical results beyond floating-point rounding of the last few bits.
For each change k in 1..4 write, inside {wt}/seeds/:
  - change{{k}}.diff : the patch (unified diff, `git diff` output relative to the worktree HEAD, touching only files under discretisedfield/ and not the tests);
  - note{{k}}.txt : three or four lines: what the change does, which kind it is, why the property still holds, and what observable behaviour outside the property (if any) it changes.
Procedure for each: make the change, run the test suite (must pass as on the unchanged tree), save the diff, then `git checkout -- discretisedfield` to restore. Never use `git stash` (the stash is shared by all worktrees of the repository and other people work in sibling worktrees). Keep the worktree clean (apart from seeds/) when you finish. Report at the end, for each change: the files and the test-suite result line.""")
