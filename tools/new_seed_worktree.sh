#!/bin/bash
# tools/new_seed_worktree.sh C12  -> creates /tmp/seed-C12 (detached worktree of /repo HEAD) and /tmp/seed-C12.prompt
set -e
P=$1; W=/tmp/seed-$P${2:+-$2}
git -C /repo worktree add --detach "$W" HEAD >/dev/null 2>&1
mkdir -p "$W/seeds/.site"; echo 'import random; random.seed(20260927)' > "$W/seeds/.site/sitecustomize.py"
/verif/tools/seed_prompt.py "$P" "$W" ${2:-} > "$W.prompt"
echo "$W"
