#!/bin/bash
# tools/new_benign_worktree.sh C12  -> creates /tmp/benign-C12 (detached worktree of /repo HEAD) and /tmp/benign-C12.prompt
set -e
P=$1; W=/tmp/benign-$P
git -C /repo worktree add --detach "$W" HEAD >/dev/null 2>&1
mkdir -p "$W/seeds/.site"; echo 'import random; random.seed(20260927)' > "$W/seeds/.site/sitecustomize.py"
/verif/tools/benign_prompt.py "$P" "$W" > "$W.prompt"
echo "$W"
